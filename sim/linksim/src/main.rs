//! linksim: E2 component simulators (DESIGN 2.3) - `linksim check C09|C10|C15 ...`
//! CLI contract: see simkit (exit 0 held / 1 violation + VIOLATION line / 2 harness error).
//!
//!   drv.rs     generic driver: 16 threads, one seed -> one plan -> one run, triage, ddmin, replay, evidence
//!   link.rs    sender <-> bottleneck <-> receiver simulator; C10 oracles after every trait call, C09 oracles
//!   shadow.rs  RFC 9002 appendix A transcription (RTT estimator, PTO, loss delay, persistent congestion)
//!   c15.rs     two-party KeySet simulator with an instrumented OneRttKey
//!
//! Environment: LINKSIM_QUICK_RUNS=n (size of the quick batch), LINKSIM_STRICT=1 (C10 only: promote the
//! "CUBIC reduction for a packet sent before the previous recovery start" observation to a violation), LINKSIM_KEEP_GOING=1 (thorough:
//! do not stop the batch after the first violations), LINKSIM_SLOW_MS=n (report slow runs), VERIF_DEBUG=1
//! (replay prints the event log).

mod c15;
mod drv;
mod link;
mod shadow;

fn main() {
    let args: Vec<String> = std::env::args().skip(1).collect();
    let Some(a) = simkit::parse_check_args(&args) else {
        eprintln!("usage: linksim check <C09|C10|C15> [--tier quick|thorough] [--seed N] [--runs N] [--budget-s S] [--threads N] [--replay FILE]");
        std::process::exit(2);
    };
    let code = match a.property.as_str() {
        "C15" => drv::check(&c15::C15, &a),
        "C10" => drv::check(&link::LinkEngine::c10(), &a),
        "C09" => drv::check(&link::LinkEngine::c09(), &a),
        other => {
            eprintln!("HARNESS-ERROR: linksim has no check for {other}");
            2
        }
    };
    std::process::exit(code);
}
