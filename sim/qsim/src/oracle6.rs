//! C14 (reduced claim, DESIGN 3.14): one side's transport parameter block is rewritten in
//! flight by sim-TLS; the receiving endpoint must accept it exactly when RFC 9000 7.3/7.4/18.2
//! allow it, and must then operate under the declared values.

use crate::{
    kernel::Violation,
    obs::CloseKind,
    oracle::View,
    plan::*,
    wire::{self, tp},
};

fn viol(oracle: &str, sig: &str, detail: String) -> Violation {
    Violation { property: "C14".into(), oracle: oracle.into(), detail, sig: sig.into() }
}

/// short stable name of a rule for signatures
pub fn rule_name(r: &TpRule) -> String {
    match r {
        TpRule::Set { id, value } => format!("set:{id:#x}={value}"),
        TpRule::Raw { id, bytes } => format!("raw:{id:#x}:len{}", bytes.len()),
        TpRule::Duplicate { id } => format!("dup:{id:#x}"),
        TpRule::Remove { id } => format!("remove:{id:#x}"),
        TpRule::SetBytes { id, bytes } => format!("bytes:{id:#x}:len{}", bytes.len()),
        TpRule::Truncate { by } => format!("truncate:{by}"),
        TpRule::Reverse => "reverse".into(),
        TpRule::Multi(v) => v.iter().map(rule_name).collect::<Vec<_>>().join("+"),
    }
}

struct HandshakeCids {
    /// DCID of the client's very first Initial
    original_dcid: Option<Vec<u8>>,
    /// SCID of the client's first Initial
    client_scid: Option<Vec<u8>>,
    /// SCID of the server's first Initial
    server_scid: Option<Vec<u8>>,
    /// SCID of a Retry packet, if one was sent
    retry_scid: Option<Vec<u8>>,
}

fn handshake_cids(v: &View, idx: u32) -> HandshakeCids {
    let o = v.out;
    let mut h = HandshakeCids { original_dcid: None, client_scid: None, server_scid: None, retry_scid: None };
    // client datagrams (tx side, its own cid len irrelevant for long headers)
    for d in o.obs.tx_dgrams.iter().filter(|d| d.ep == 1 + idx) {
        if let Ok(pk) = wire::split_datagram(&d.bytes, o.plan.cfg.server.cid_len as usize) {
            if let Some(p) = pk.iter().find(|p| p.kind == wire::PacketKind::Initial) {
                if h.original_dcid.is_none() {
                    h.original_dcid = Some(p.dcid.clone());
                    h.client_scid = Some(p.scid.clone());
                }
            }
        }
    }
    let cport = o.client_addrs.get(idx as usize).map(|a| std::net::SocketAddr::from(*a).port());
    // server side: Retry packets are endpoint-level (not in tx_dgrams of a connection): use the net log
    if let (Some(server), Some(caddr)) = (o.server_addr, o.client_addrs.get(idx as usize)) {
        for r in o.net.log.iter().filter(|r| r.src == server && r.dst == *caddr) {
            if let Some(b) = &r.bytes {
                if let Ok(pk) = wire::split_datagram(b, o.plan.cfg.client.cid_len as usize) {
                    for p in pk {
                        match p.kind {
                            wire::PacketKind::Retry if h.retry_scid.is_none() => h.retry_scid = Some(p.scid.clone()),
                            wire::PacketKind::Initial if h.server_scid.is_none() => h.server_scid = Some(p.scid.clone()),
                            _ => {}
                        }
                    }
                }
            }
        }
    }
    let _ = cport;
    h
}

pub fn c14(v: &View) -> Vec<Violation> {
    let mut out = vec![];
    let o = v.out;
    for idx in 0..o.plan.conns.len() as u32 {
        for sender in [Role::Client, Role::Server] {
            let rule = match sender {
                Role::Client => &o.plan.cfg.client.tp_rule,
                Role::Server => &o.plan.cfg.server.tp_rule,
            };
            let Some(rule) = rule else { continue };
            let receiver = sender.peer();
            // the block as the receiver got it
            let nonce = crate::oracle::nonce_of_client(idx);
            let Some((_, _, bytes)) = o.tls.tp_received.iter().find(|(r, n, _)| *r == receiver && *n == nonce) else { continue };
            let name = rule_name(rule);
            // --- expected verdict ---
            let parsed = wire::parse_tp_block(bytes);
            let mut why = String::new();
            let mut valid = match &parsed {
                Err(e) => {
                    why = format!("malformed block: {e}");
                    false
                }
                Ok((entries, _)) => match wire::tp_verdict(entries, sender == Role::Client) {
                    Err(e) => {
                        why = e;
                        false
                    }
                    Ok(p) => {
                        // 7.3: authenticate the connection ids used during the handshake
                        let h = handshake_cids(v, idx);
                        let mut ok = true;
                        if sender == Role::Client {
                            if p.initial_scid != h.client_scid {
                                ok = false;
                                why = "initial_source_connection_id does not match the client's Initial".into();
                            }
                        } else {
                            if p.initial_scid != h.server_scid {
                                ok = false;
                                why = "initial_source_connection_id does not match the server's Initial".into();
                            }
                            if p.original_dcid != h.original_dcid {
                                ok = false;
                                why = "original_destination_connection_id does not match the first Initial".into();
                            }
                            if p.retry_scid != h.retry_scid {
                                ok = false;
                                why = "retry_source_connection_id does not match the Retry packet (or is unexpected/missing)".into();
                            }
                        }
                        ok
                    }
                },
            };
            // a repeated *unknown* parameter: RFC 9000 7.4 only says SHOULD for duplicates, and an
            // implementation that skips unknown ids cannot see them; not judged
            if !valid && why.starts_with("duplicate parameter 0x") {
                let id = u64::from_str_radix(why.trim_start_matches("duplicate parameter 0x").split(|c: char| !c.is_ascii_hexdigit()).next().unwrap_or(""), 16).unwrap_or(0);
                let known = id <= 0x10 || id == tp::MAX_DATAGRAM_FRAME_SIZE;
                if !known {
                    continue;
                }
            }
            // values the RFC does not rule out but that this oracle does not judge
            // (max_udp_payload_size above the largest possible UDP payload: 18.2 only calls values
            // below 1200 invalid). Judged on the block as received, whatever rule produced it.
            let undecided = valid
                && parsed.as_ref().map_or(false, |(entries, _)| {
                    entries.iter().any(|e| e.id == tp::MAX_UDP_PAYLOAD_SIZE && wire::tp_int(&e.value).map_or(false, |x| x > 65527))
                });
            if undecided {
                continue;
            }
            // --- observed outcome at the receiver ---
            let Some(rside) = v.side(idx, receiver) else { continue };
            let closed = v.closed_event(rside);
            let completed = o.app.conns.get(&(idx, receiver)).map_or(false, |c| c.t_connected_ns.is_some());
            let rejected_by_receiver = matches!(closed, Some((_, CloseKind::Transport, Some(_), err)) if err.contains("initiator: Local")) && !completed;
            let code = closed.and_then(|c| c.2);
            if !valid {
                if !rejected_by_receiver {
                    out.push(viol(
                        "c14.invalid_parameters_accepted",
                        &format!("invalid_accepted:{name}"),
                        format!("conn {idx}: {receiver:?} accepted the {sender:?}'s transport parameters although they are invalid ({why}); rule {name}; handshake completed={completed}, close={:?}", closed.map(|c| (c.1, c.2))),
                    ));
                } else if !matches!(code, Some(0x8) | Some(0xa)) {
                    out.push(viol(
                        "c14.wrong_error_code",
                        &format!("wrong_code:{name}:{:?}", code),
                        format!("conn {idx}: {receiver:?} rejected invalid transport parameters ({why}) with code {:?} instead of TRANSPORT_PARAMETER_ERROR (0x8) or PROTOCOL_VIOLATION", code),
                    ));
                }
            } else {
                valid = true;
                let _ = valid;
                if rejected_by_receiver {
                    out.push(viol(
                        "c14.valid_parameters_rejected",
                        &format!("valid_rejected:{name}"),
                        format!("conn {idx}: {receiver:?} rejected the {sender:?}'s transport parameters (code {:?}) although RFC 9000 permits them; rule {name}: {}", code, closed.map_or("", |c| c.3)),
                    ));
                }
            }
        }
    }
    // enforcement half: the receiver operates under the declared values
    for mut x in crate::oracle::c03(v) {
        x.property = "C14".into();
        x.oracle = format!("c14.declared_limit_not_applied:{}", x.oracle);
        out.push(x);
    }
    out.extend(datagram_size(v));
    out
}

/// no datagram larger than the peer's declared max_udp_payload_size (MTU probes included:
/// the peer says it will not process anything larger)
pub fn datagram_size(v: &View) -> Vec<Violation> {
    let mut out = vec![];
    let o = v.out;
    for idx in 0..o.plan.conns.len() as u32 {
        for role in [Role::Client, Role::Server] {
            let Some(side) = v.side(idx, role) else { continue };
            let Some(tp) = v.peer_tp(idx, role) else { continue };
            // only datagrams sent after the parameters were received
            let t_tp = o.obs.evs.iter().find(|e| e.ep == side.ep && e.conn == side.conn && matches!(e.ev, crate::obs::Ev::TpReceived { .. })).map(|e| e.seq);
            let Some(t_tp) = t_tp else { continue };
            if let Some(d) = o.obs.tx_dgrams.iter().find(|d| d.ep == side.ep && d.conn == side.conn && d.seq > t_tp && d.bytes.len() as u64 > tp.max_udp_payload_size) {
                out.push(viol(
                    "c14.datagram_exceeds_declared_max_udp_payload_size",
                    "datagram_gt_max_udp_payload_size",
                    format!("conn {idx} {role:?}: sent a {}-byte datagram at {} us although the peer declared max_udp_payload_size = {}", d.bytes.len(), d.t_ns / 1000, tp.max_udp_payload_size),
                ));
            }
        }
    }
    out
}

/// the complete rule catalogue (fault_enumeration): index = seed mod len
pub fn catalogue(for_client_block: bool) -> Vec<TpRule> {
    use tp::*;
    let mut v = vec![];
    let set = |id: u64, value: u64| TpRule::Set { id, value };
    // numeric bounds: bound-1, bound, bound+1
    for val in [0, 19, 20, 21, 255] {
        v.push(set(ACK_DELAY_EXPONENT, val));
    }
    for val in [0, 1, (1 << 14) - 1, 1 << 14, (1 << 14) + 1, wire::VARINT_MAX] {
        v.push(set(MAX_ACK_DELAY, val));
    }
    for val in [0, 1199, 1200, 1201, 1472, 65527, 65528] {
        v.push(set(MAX_UDP_PAYLOAD_SIZE, val));
    }
    for val in [0, 1, 2, 3, 1 << 20] {
        v.push(set(ACTIVE_CONNECTION_ID_LIMIT, val));
    }
    for id in [INITIAL_MAX_STREAMS_BIDI, INITIAL_MAX_STREAMS_UNI] {
        for val in [0, 1, (1 << 60) - 1, 1 << 60, (1 << 60) + 1, wire::VARINT_MAX] {
            v.push(set(id, val));
        }
    }
    for id in [INITIAL_MAX_DATA, INITIAL_MAX_STREAM_DATA_BIDI_LOCAL, INITIAL_MAX_STREAM_DATA_BIDI_REMOTE, INITIAL_MAX_STREAM_DATA_UNI, MAX_IDLE_TIMEOUT] {
        for val in [0, 1, 63, 64, 16383, 16384, 1 << 30, wire::VARINT_MAX] {
            v.push(set(id, val));
        }
    }
    // duplicates and removals
    for id in [MAX_IDLE_TIMEOUT, MAX_UDP_PAYLOAD_SIZE, INITIAL_MAX_DATA, INITIAL_MAX_STREAMS_BIDI, ACK_DELAY_EXPONENT, MAX_ACK_DELAY, ACTIVE_CONNECTION_ID_LIMIT, INITIAL_SCID] {
        v.push(TpRule::Duplicate { id });
    }
    for id in [MAX_IDLE_TIMEOUT, INITIAL_MAX_DATA, INITIAL_MAX_STREAMS_BIDI, INITIAL_MAX_STREAMS_UNI, ACTIVE_CONNECTION_ID_LIMIT, INITIAL_SCID, ORIGINAL_DCID] {
        v.push(TpRule::Remove { id });
    }
    // unknown and GREASE ids with various lengths
    for (id, len) in [(31 * 3 + 27, 0usize), (31 * 1000 + 27, 1), (31 * 77 + 27, 17), (0x3f, 4), (0x4000, 300), (0x7fff_ffff, 2), (wire::VARINT_MAX, 0)] {
        v.push(TpRule::Raw { id, bytes: vec![0xA5; len] });
    }
    // connection id parameters
    v.push(TpRule::SetBytes { id: INITIAL_SCID, bytes: vec![1, 2, 3, 4, 5, 6, 7, 8] });
    v.push(TpRule::SetBytes { id: INITIAL_SCID, bytes: vec![] });
    v.push(TpRule::SetBytes { id: INITIAL_SCID, bytes: vec![9; 21] });
    if for_client_block {
        // server-only parameters sent by a client
        v.push(TpRule::Raw { id: ORIGINAL_DCID, bytes: vec![1; 8] });
        v.push(TpRule::Raw { id: RETRY_SCID, bytes: vec![2; 8] });
        v.push(TpRule::Raw { id: STATELESS_RESET_TOKEN, bytes: vec![3; 16] });
        let mut pa = vec![0u8; 4 + 2 + 16 + 2];
        pa.push(8);
        pa.extend_from_slice(&[4; 8]);
        pa.extend_from_slice(&[5; 16]);
        v.push(TpRule::Raw { id: PREFERRED_ADDRESS, bytes: pa });
    } else {
        v.push(TpRule::SetBytes { id: ORIGINAL_DCID, bytes: vec![7; 8] });
        v.push(TpRule::SetBytes { id: ORIGINAL_DCID, bytes: vec![] });
        v.push(TpRule::Raw { id: RETRY_SCID, bytes: vec![2; 8] });
        v.push(TpRule::SetBytes { id: STATELESS_RESET_TOKEN, bytes: vec![3; 15] });
        v.push(TpRule::SetBytes { id: STATELESS_RESET_TOKEN, bytes: vec![3; 17] });
        v.push(TpRule::SetBytes { id: STATELESS_RESET_TOKEN, bytes: vec![3; 16] });
    }
    // malformed encodings
    v.push(TpRule::SetBytes { id: MAX_IDLE_TIMEOUT, bytes: vec![0x40, 0x25] }); // non-minimal but valid varint
    v.push(TpRule::SetBytes { id: MAX_IDLE_TIMEOUT, bytes: vec![0x25, 0x00] }); // trailing byte
    v.push(TpRule::SetBytes { id: INITIAL_MAX_DATA, bytes: vec![] }); // empty integer
    v.push(TpRule::SetBytes { id: INITIAL_MAX_DATA, bytes: vec![0xc0] }); // truncated varint
    v.push(TpRule::Raw { id: DISABLE_ACTIVE_MIGRATION, bytes: vec![] });
    v.push(TpRule::Raw { id: DISABLE_ACTIVE_MIGRATION, bytes: vec![1] });
    for by in [1, 2, 3, 5, 9, 17] {
        v.push(TpRule::Truncate { by });
    }
    v.push(TpRule::Reverse);
    v
}
