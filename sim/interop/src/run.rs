//! E5: executes one Plan.  A real s2n-quic endpoint (full stack, real s2n-tls) and a real
//! quiche connection (BoringSSL) are two hosts on the deterministic testing IO provider.

use crate::{
    clock,
    net::{now_ns, NetState, SharedNet, SimNet},
    obs::{EventTap, Obs, SharedObs},
    plan::*,
    providers::{RetryLimiter, SimCidFormat, SimRandom, SimTokenGen},
    qhost,
};
use bytes::Bytes;
use core::{
    future::Future,
    pin::Pin,
    task::{Context, Poll},
    time::Duration,
};
use s2n_quic::{
    client::Connect,
    connection::{Handle, StreamAcceptor},
    provider::{
        congestion_controller as cc,
        io::testing::{self as io, primary, spawn, Executor},
        tls::default as tls,
    },
    stream::{PeerStream, ReceiveStream, SendStream},
    Client, Connection, Server,
};
use s2n_quic_core::{crypto::tls::testing::certificates, inet::SocketAddress};
use simkit::{hashn, payload_check, payload_fill};
use std::{
    collections::BTreeMap,
    sync::{Arc, Mutex},
    task::Waker,
};

pub const ALPN: &[u8] = b"h3";

// ---------------------------------------------------------------------------------------
// application-side log (both implementations)

#[derive(Clone, Debug, Default)]
pub struct StreamRes {
    pub planned: u64,
    /// sender side
    pub written: u64,
    pub fin_sent: bool,
    pub send_err: Option<String>,
    /// receiver side
    pub read: u64,
    pub eof: bool,
    pub recv_err: Option<String>,
    /// first mismatching stream offset
    pub mismatch: Option<(u64, String)>,
    pub t_eof_ns: u64,
}

#[derive(Clone, Debug, Default)]
pub struct S2nApp {
    pub connect_err: Option<String>,
    pub t_connected_ns: Option<u64>,
    pub t_close_called_ns: Option<u64>,
    pub accept_end: Option<String>,
    pub open_err: Option<String>,
    pub unexpected_streams: Vec<u64>,
    pub t_done_ns: Option<u64>,
}

#[derive(Clone, Debug, Default)]
pub struct QErr {
    pub is_app: bool,
    pub code: u64,
    pub reason: String,
}

#[derive(Clone, Debug, Default)]
pub struct QApp {
    pub created: bool,
    pub established: bool,
    pub t_established_ns: Option<u64>,
    pub t_close_called_ns: Option<u64>,
    pub t_closed_ns: Option<u64>,
    pub peer_error: Option<QErr>,
    pub local_error: Option<QErr>,
    pub timed_out: bool,
    pub is_closed: bool,
    pub recv_errs: BTreeMap<String, u64>,
    pub send_errs: BTreeMap<String, u64>,
    pub unexpected_streams: Vec<u64>,
    pub stats: BTreeMap<&'static str, u64>,
    pub peer_tp: Option<String>,
    pub retry_sent: bool,
    pub cids_issued: u64,
    pub zero_len_cid: bool,
    pub clock_checks: u64,
    pub timeouts_fired: u64,
}

#[derive(Default, Debug)]
pub struct AppLog {
    /// keyed by (stream id, sender side index: 0 = s2n, 1 = quiche)
    pub streams: BTreeMap<(u64, u64), StreamRes>,
    pub s2n: S2nApp,
    pub q: QApp,
    pub last_progress_ns: u64,
    /// stream bytes read by either application after the first fault fired
    pub bytes_after_fault: u64,
    pub bytes_read: u64,
    pub capped: Vec<String>,
    pub pending: BTreeMap<String, (&'static str, u64)>,
    pub harness_errors: Vec<String>,
    /// quiche `log` lines / app notes (only kept in `show`/replay mode)
    pub notes: Vec<String>,
    pub keep_notes: bool,
}

impl AppLog {
    pub fn stream(&mut self, id: u64, sender: Side) -> &mut StreamRes {
        self.streams.entry((id, sender.idx())).or_default()
    }
    pub fn note(&mut self, s: String) {
        if self.keep_notes {
            self.notes.push(format!("{:>10.3}ms {s}", now_ns() as f64 / 1e6));
        }
    }
}

pub type SharedApp = Arc<Mutex<AppLog>>;

/// bookkeeping shared by every read on either side
pub fn on_read(app: &SharedApp, net: &SharedNet, id: u64, sender: Side, data_key: u64, off: u64, data: &[u8]) {
    let bad = payload_check(data_key, 0, id, sender.idx(), off, data);
    let faulted = net.lock().unwrap().first_fault_ns.is_some();
    let mut a = app.lock().unwrap();
    a.last_progress_ns = now_ns();
    a.bytes_read += data.len() as u64;
    if faulted {
        a.bytes_after_fault += data.len() as u64;
    }
    let s = a.stream(id, sender);
    s.read = off + data.len() as u64;
    if let Some(i) = bad {
        if s.mismatch.is_none() {
            s.mismatch = Some((off + i as u64, format!("got {:#04x} at chunk offset {i} (chunk len {})", data[i], data.len())));
        }
    }
}

// ---------------------------------------------------------------------------------------
// harness-level coordination between the two applications (stands in for an application
// protocol saying "I have everything"): flags + wakers

#[derive(Default)]
struct CoordInner {
    s2n_done: bool,
    q_done: bool,
    /// the s2n side has no connection (any more)
    s2n_closed: bool,
    wakers: Vec<Waker>,
}

#[derive(Clone, Default)]
pub struct Coord(Arc<Mutex<CoordInner>>);

impl Coord {
    fn set(&self, f: impl FnOnce(&mut CoordInner)) {
        let mut g = self.0.lock().unwrap();
        f(&mut g);
        for w in g.wakers.drain(..) {
            w.wake();
        }
    }
    pub fn set_s2n_done(&self) {
        self.set(|c| c.s2n_done = true)
    }
    pub fn set_q_done(&self) {
        self.set(|c| c.q_done = true)
    }
    pub fn set_s2n_closed(&self) {
        self.set(|c| c.s2n_closed = true)
    }
    pub fn s2n_done(&self) -> bool {
        self.0.lock().unwrap().s2n_done
    }
    pub fn q_done(&self) -> bool {
        self.0.lock().unwrap().q_done
    }
    pub fn s2n_closed(&self) -> bool {
        self.0.lock().unwrap().s2n_closed
    }
    /// registers the waker (call from a poll function that returns Pending afterwards)
    pub fn register(&self, cx: &mut Context<'_>) {
        let mut g = self.0.lock().unwrap();
        if !g.wakers.iter().any(|w| w.will_wake(cx.waker())) {
            g.wakers.push(cx.waker().clone());
        }
    }
    pub fn version(&self) -> (bool, bool, bool) {
        let g = self.0.lock().unwrap();
        (g.s2n_done, g.q_done, g.s2n_closed)
    }
    async fn wait(&self, pred: impl Fn(&CoordInner) -> bool) {
        core::future::poll_fn(|cx| {
            let mut g = self.0.lock().unwrap();
            if pred(&g) {
                Poll::Ready(())
            } else {
                g.wakers.push(cx.waker().clone());
                Poll::Pending
            }
        })
        .await
    }
}

/// count-down latch
#[derive(Default)]
struct LatchInner {
    remaining: u64,
    wakers: Vec<Waker>,
}
#[derive(Clone, Default)]
struct Latch(Arc<Mutex<LatchInner>>);
impl Latch {
    fn new(n: u64) -> Self {
        let l = Latch::default();
        l.0.lock().unwrap().remaining = n;
        l
    }
    fn done(&self) {
        let mut g = self.0.lock().unwrap();
        g.remaining = g.remaining.saturating_sub(1);
        if g.remaining == 0 {
            for w in g.wakers.drain(..) {
                w.wake();
            }
        }
    }
    async fn wait(&self) {
        core::future::poll_fn(|cx| {
            let mut g = self.0.lock().unwrap();
            if g.remaining == 0 {
                Poll::Ready(())
            } else {
                g.wakers.push(cx.waker().clone());
                Poll::Pending
            }
        })
        .await
    }
}

pub async fn sleep_us(us: u64) {
    if us > 0 {
        io::time::delay(Duration::from_micros(us)).await;
    }
}

/// run `f` until done or until the virtual-time cap; a capped task is recorded
pub fn capped<F>(name: String, cap_ns: u64, app: SharedApp, f: F) -> impl Future<Output = ()> + Send
where
    F: Future<Output = ()> + Send + 'static,
{
    async move {
        let now = now_ns();
        let mut timer = Box::pin(io::time::delay(Duration::from_nanos(cap_ns.saturating_sub(now))));
        let mut f = Box::pin(f);
        let hit = core::future::poll_fn(|cx| {
            if f.as_mut().poll(cx).is_ready() {
                return Poll::Ready(false);
            }
            if timer.as_mut().poll(cx).is_ready() {
                return Poll::Ready(true);
            }
            Poll::Pending
        })
        .await;
        // timers also fire when the executor shuts down: only a real cap expiry counts
        if hit && now_ns() + 1_000_000 >= cap_ns {
            app.lock().unwrap().capped.push(name);
        }
    }
}

/// pending-operation bookkeeping around an s2n-quic API call
async fn op<T>(app: &SharedApp, name: &str, what: &'static str, f: impl Future<Output = T>) -> T {
    app.lock().unwrap().pending.insert(name.to_string(), (what, now_ns()));
    let r = f.await;
    let mut a = app.lock().unwrap();
    a.pending.remove(name);
    a.last_progress_ns = now_ns();
    r
}

// ---------------------------------------------------------------------------------------
// s2n-quic application

#[derive(Clone)]
struct Env {
    plan: Arc<Plan>,
    app: SharedApp,
    net: SharedNet,
    coord: Coord,
    cap_ns: u64,
    /// units of s2n-side stream tasks
    latch: Latch,
    /// released when the s2n side observes the end of the connection
    closed: Latch,
}

async fn send_task(env: Env, mut s: SendStream, id: u64, total: u64, chunk: u32) {
    let name = format!("s2n/s{id}/send");
    env.app.lock().unwrap().stream(id, Side::S2n).planned = total;
    let mut written = 0u64;
    let mut err = None;
    while written < total {
        let n = (chunk.max(1) as u64).min(total - written) as usize;
        let mut buf = vec![0u8; n];
        payload_fill(env.plan.data_key, 0, id, Side::S2n.idx(), written, &mut buf);
        match op(&env.app, &name, "send", s.send(Bytes::from(buf))).await {
            Ok(()) => {
                written += n as u64;
                env.app.lock().unwrap().stream(id, Side::S2n).written = written;
            }
            Err(e) => {
                err = Some(format!("{e:?}"));
                break;
            }
        }
    }
    if err.is_none() {
        match s.finish() {
            Ok(()) => env.app.lock().unwrap().stream(id, Side::S2n).fin_sent = true,
            Err(e) => err = Some(format!("{e:?}")),
        }
    }
    if let Some(e) = err {
        env.app.lock().unwrap().stream(id, Side::S2n).send_err = Some(e);
    }
    drop(s);
}

async fn recv_task(env: Env, mut r: ReceiveStream, id: u64) {
    let name = format!("s2n/s{id}/recv");
    let mut read = 0u64;
    let mut chunks = 0u32;
    let (every, pause) = (env.plan.s2n.read_pause_every, env.plan.s2n.read_pause_us);
    loop {
        if every > 0 && chunks > 0 && chunks % every == 0 {
            sleep_us(pause).await;
        }
        match op(&env.app, &name, "receive", r.receive()).await {
            Ok(Some(chunk)) => {
                on_read(&env.app, &env.net, id, Side::Quiche, env.plan.data_key, read, &chunk);
                read += chunk.len() as u64;
                chunks += 1;
            }
            Ok(None) => {
                let mut a = env.app.lock().unwrap();
                let s = a.stream(id, Side::Quiche);
                s.eof = true;
                s.t_eof_ns = now_ns();
                break;
            }
            Err(e) => {
                env.app.lock().unwrap().stream(id, Side::Quiche).recv_err = Some(format!("{e:?}"));
                break;
            }
        }
    }
}

fn spawn_stream_tasks(env: &Env, id: u64, p: &StreamPlan, send: Option<SendStream>, recv: Option<ReceiveStream>) {
    if let Some(s) = send {
        let total = if p.opener == Side::S2n { p.fwd } else { p.rev };
        let e = env.clone();
        let chunk = p.chunk;
        primary::spawn(capped(format!("s2n/s{id}/send"), env.cap_ns, env.app.clone(), async move {
            let latch = e.latch.clone();
            send_task(e, s, id, total, chunk).await;
            latch.done();
        }));
    }
    if let Some(r) = recv {
        let e = env.clone();
        primary::spawn(capped(format!("s2n/s{id}/recv"), env.cap_ns, env.app.clone(), async move {
            let latch = e.latch.clone();
            recv_task(e, r, id).await;
            latch.done();
        }));
    }
}

fn units(p: &StreamPlan) -> u64 {
    if p.bidi {
        2
    } else {
        1
    }
}

async fn opener_task(env: Env, mut handle: Handle) {
    let ids = stream_ids(&env.plan);
    let mine: Vec<&(u64, StreamPlan)> = ids.iter().filter(|(_, p)| p.opener == Side::S2n).collect();
    let mut failed_at = None;
    for (k, (id, p)) in mine.iter().enumerate() {
        sleep_us(p.open_delay_us).await;
        if p.bidi {
            match op(&env.app, "s2n/opener", "open_bidi", handle.open_bidirectional_stream()).await {
                Ok(s) => {
                    if s.id() != *id {
                        env.app.lock().unwrap().harness_errors.push(format!("s2n opened stream {} where {} was planned", s.id(), id));
                    }
                    let (r, s) = s.split();
                    spawn_stream_tasks(&env, *id, p, Some(s), Some(r));
                }
                Err(e) => {
                    env.app.lock().unwrap().s2n.open_err = Some(format!("{e:?}"));
                    failed_at = Some(k);
                    break;
                }
            }
        } else {
            match op(&env.app, "s2n/opener", "open_uni", handle.open_send_stream()).await {
                Ok(s) => {
                    if s.id() != *id {
                        env.app.lock().unwrap().harness_errors.push(format!("s2n opened stream {} where {} was planned", s.id(), id));
                    }
                    spawn_stream_tasks(&env, *id, p, Some(s), None);
                }
                Err(e) => {
                    env.app.lock().unwrap().s2n.open_err = Some(format!("{e:?}"));
                    failed_at = Some(k);
                    break;
                }
            }
        }
    }
    if let Some(k) = failed_at {
        for (_, p) in &mine[k..] {
            for _ in 0..units(p) {
                env.latch.done();
            }
        }
    }
}

async fn acceptor_task(env: Env, mut acceptor: StreamAcceptor) {
    let by_id: BTreeMap<u64, StreamPlan> =
        stream_ids(&env.plan).into_iter().filter(|(_, p)| p.opener == Side::Quiche).collect();
    let mut accepted = std::collections::BTreeSet::new();
    loop {
        // not wrapped in `op`: waiting for the peer to open a stream (or to close) is not a
        // pending operation of the s2n application
        match acceptor.accept().await {
            Ok(Some(stream)) => {
                let id = stream.id();
                env.app.lock().unwrap().last_progress_ns = now_ns();
                let Some(p) = by_id.get(&id) else {
                    env.app.lock().unwrap().s2n.unexpected_streams.push(id);
                    continue;
                };
                accepted.insert(id);
                match stream {
                    PeerStream::Bidirectional(s) => {
                        let (r, s) = s.split();
                        spawn_stream_tasks(&env, id, p, Some(s), Some(r));
                    }
                    PeerStream::Receive(r) => spawn_stream_tasks(&env, id, p, None, Some(r)),
                }
            }
            Ok(None) => {
                env.app.lock().unwrap().s2n.accept_end = Some("closed".into());
                break;
            }
            Err(e) => {
                env.app.lock().unwrap().s2n.accept_end = Some(format!("{e:?}"));
                break;
            }
        }
    }
    // streams the peer never opened (from this side's point of view): release our units
    for (id, p) in &by_id {
        if !accepted.contains(id) {
            for _ in 0..units(p) {
                env.latch.done();
            }
        }
    }
    env.closed.done();
    env.coord.set_s2n_closed();
}

async fn drive_s2n(env: Env, conn: Connection) {
    env.app.lock().unwrap().s2n.t_connected_ns = Some(now_ns());
    let (handle, acceptor) = conn.split();
    primary::spawn(capped("s2n/opener".into(), env.cap_ns, env.app.clone(), opener_task(env.clone(), handle.clone())));
    // not primary: if the peer never opens its streams the run still ends
    spawn(capped("s2n/acceptor".into(), env.cap_ns, env.app.clone(), acceptor_task(env.clone(), acceptor)));

    async fn either(a: impl Future<Output = ()>, b: impl Future<Output = ()>) {
        let mut a = Box::pin(a);
        let mut b = Box::pin(b);
        core::future::poll_fn(|cx| {
            if a.as_mut().poll(cx).is_ready() || b.as_mut().poll(cx).is_ready() {
                Poll::Ready(())
            } else {
                Poll::Pending
            }
        })
        .await
    }

    env.latch.wait().await;
    env.coord.set_s2n_done();
    if env.plan.close_by == Side::S2n {
        // close once the peer has everything too (or the connection ended anyway)
        either(env.coord.wait(|c| c.q_done), env.closed.wait()).await;
        env.app.lock().unwrap().s2n.t_close_called_ns = Some(now_ns());
        handle.close((env.plan.close_code as u32).into());
    } else {
        env.closed.wait().await;
    }
    env.app.lock().unwrap().s2n.t_done_ns = Some(now_ns());
    drop(handle);
}

fn limits_of(l: &S2nCfg) -> s2n_quic::provider::limits::Limits {
    let mut x = s2n_quic::provider::limits::Limits::new();
    macro_rules! set {
        ($cond:expr, $m:ident, $v:expr) => {
            if $cond {
                x = x.$m($v).expect(stringify!($m));
            }
        };
    }
    set!(l.data_window > 0, with_data_window, l.data_window);
    set!(l.bidi_local_window > 0, with_bidirectional_local_data_window, l.bidi_local_window);
    set!(l.bidi_remote_window > 0, with_bidirectional_remote_data_window, l.bidi_remote_window);
    set!(l.uni_window > 0, with_unidirectional_data_window, l.uni_window);
    set!(true, with_max_open_local_bidirectional_streams, l.max_local_bidi);
    set!(true, with_max_open_remote_bidirectional_streams, l.max_remote_bidi);
    set!(true, with_max_open_local_unidirectional_streams, l.max_local_uni);
    set!(true, with_max_open_remote_unidirectional_streams, l.max_remote_uni);
    set!(true, with_max_idle_timeout, Duration::from_millis(l.idle_timeout_ms));
    set!(true, with_max_ack_delay, Duration::from_millis(l.max_ack_delay_ms));
    set!(true, with_ack_elicitation_interval, l.ack_elicitation_interval);
    set!(true, with_max_ack_ranges, l.ack_ranges_limit);
    set!(true, with_max_active_connection_ids, l.max_active_cids);
    set!(l.max_send_buffer > 0, with_max_send_buffer_size, l.max_send_buffer);
    set!(true, with_initial_round_trip_time, Duration::from_millis(l.initial_rtt_ms.max(1)));
    set!(true, with_stream_batch_size, l.stream_batch);
    x
}

fn io_of(handle: &io::Handle, e: &S2nCfg) -> io::Io {
    handle
        .builder()
        .with_max_mtu(e.max_mtu)
        .with_base_mtu(e.base_mtu)
        .with_initial_mtu(e.initial_mtu)
        .build()
        .unwrap()
}

macro_rules! build_endpoint {
    ($builder:expr, $tls:expr, $plan:expr, $handle:expr, $obs:expr) => {{
        let plan: &Plan = $plan;
        let e = &plan.s2n;
        $builder
            .with_io(io_of($handle, e))
            .unwrap()
            .with_tls($tls)
            .unwrap()
            .with_event(EventTap { obs: $obs.clone() })
            .unwrap()
            .with_random(SimRandom::new(hashn(plan.rand_key, &[0x52])))
            .unwrap()
            .with_limits(limits_of(e))
            .unwrap()
            .with_connection_id(SimCidFormat { len: e.cid_len as usize, key: hashn(plan.rand_key, &[0xc1d]), counter: 0 })
            .unwrap()
            .with_stateless_reset_token(SimTokenGen { key: hashn(plan.rand_key, &[0x7e5e7]) })
            .unwrap()
    }};
}

fn start_server(plan: &Plan, handle: &io::Handle, obs: &SharedObs) -> Server {
    let tls = tls::Server::builder()
        .with_application_protocols([ALPN].iter())
        .unwrap()
        .with_certificate(certificates::CERT_PKCS1_PEM, certificates::KEY_PKCS1_PEM)
        .unwrap()
        .build()
        .unwrap();
    let b = build_endpoint!(Server::builder(), tls, plan, handle, obs);
    let b = b.with_endpoint_limits(RetryLimiter { retry: plan.s2n.retry }).unwrap();
    if plan.s2n.cc == 1 {
        b.with_congestion_controller(cc::Bbr::default()).unwrap().start().unwrap()
    } else {
        b.with_congestion_controller(cc::Cubic::default()).unwrap().start().unwrap()
    }
}

fn start_client(plan: &Plan, handle: &io::Handle, obs: &SharedObs) -> Client {
    let tls = tls::Client::builder()
        .with_application_protocols([ALPN].iter())
        .unwrap()
        .with_certificate(certificates::CERT_PKCS1_PEM)
        .unwrap()
        .build()
        .unwrap();
    let b = build_endpoint!(Client::builder(), tls, plan, handle, obs);
    if plan.s2n.cc == 1 {
        b.with_congestion_controller(cc::Bbr::default()).unwrap().start().unwrap()
    } else {
        b.with_congestion_controller(cc::Cubic::default()).unwrap().start().unwrap()
    }
}

// ---------------------------------------------------------------------------------------

thread_local! {
    static LAST_PANIC: std::cell::RefCell<Option<String>> = const { std::cell::RefCell::new(None) };
}

pub fn install_panic_hook() {
    std::panic::set_hook(Box::new(|info| {
        let bt = std::backtrace::Backtrace::force_capture();
        let msg = format!("{info}\n{bt}");
        LAST_PANIC.with(|p| *p.borrow_mut() = Some(msg));
    }));
}

pub struct RunOutput {
    pub plan: Plan,
    pub app: AppLog,
    pub obs: Obs,
    pub net: NetState,
    pub end_ns: u64,
    pub panic: Option<String>,
    pub rand_drawn: u64,
}

#[derive(Clone, Copy, Default)]
pub struct RunOpts {
    /// keep quiche log lines and the s2n frame tail (show / replay)
    pub verbose: bool,
}

/// Execute a plan. Never panics: panics inside the simulation are caught and reported.
pub fn execute(plan: &Plan, opts: RunOpts) -> RunOutput {
    let app: SharedApp = Default::default();
    let obs: SharedObs = Default::default();
    let net: SharedNet = Default::default();
    app.lock().unwrap().keep_notes = opts.verbose;
    obs.lock().unwrap().keep_tail = opts.verbose;
    let end_ns = Arc::new(Mutex::new(0u64));

    LAST_PANIC.with(|p| *p.borrow_mut() = None);
    clock::seed_rand(Some(hashn(plan.rand_key, &[0x9c])));
    crate::qlog::set_sink(if opts.verbose { Some(app.clone()) } else { None });
    let result = {
        let (app, obs, net, end_ns) = (app.clone(), obs.clone(), net.clone(), end_ns.clone());
        let plan = plan.clone();
        std::panic::catch_unwind(std::panic::AssertUnwindSafe(move || run_inner(&plan, app, obs, net, end_ns)))
    };
    crate::qlog::set_sink(None);
    let rand_drawn = clock::rand_drawn();
    clock::seed_rand(None);
    clock::set_virtual_now(None);
    let panic = match result {
        Ok(()) => None,
        Err(e) => {
            let short = if let Some(s) = e.downcast_ref::<String>() {
                s.clone()
            } else if let Some(s) = e.downcast_ref::<&str>() {
                s.to_string()
            } else {
                "panic".to_string()
            };
            let full = LAST_PANIC.with(|p| p.borrow_mut().take());
            Some(full.unwrap_or(short))
        }
    };
    fn take<T: Default>(m: &Mutex<T>) -> T {
        std::mem::take(&mut *m.lock().unwrap())
    }
    let end = *end_ns.lock().unwrap();
    RunOutput { plan: plan.clone(), app: take(&app), obs: take(&obs), net: take(&net), end_ns: end, panic, rand_drawn }
}

fn run_inner(plan: &Plan, app: SharedApp, obs: SharedObs, net: SharedNet, end_ns: Arc<Mutex<u64>>) {
    let simnet = SimNet::new(plan, net.clone());
    let mut executor = Executor::new(simnet, plan.seed);
    let handle = executor.handle().clone();
    let cap_ns = plan.time_cap_us * 1000;
    let coord = Coord::default();
    let planp = Arc::new(plan.clone());

    executor.enter(|| {
        let s2n_units: u64 = plan.streams.iter().map(units).sum();
        let env = Env {
            plan: planp.clone(),
            app: app.clone(),
            net: net.clone(),
            coord: coord.clone(),
            cap_ns,
            latch: Latch::new(s2n_units),
            closed: Latch::new(1),
        };
        match plan.role {
            Role::S2nServer => {
                let mut server = start_server(plan, &handle, &obs);
                let server_addr: SocketAddress = server.local_addr().unwrap().into();
                net.lock().unwrap().hosts.push((server_addr, Dir::S2C));
                // quiche client host
                let sock = handle.builder().with_max_mtu(2000).build().unwrap().socket();
                let qaddr: SocketAddress = sock.local_addr().unwrap().into();
                net.lock().unwrap().hosts.push((qaddr, Dir::C2S));
                let q = qhost::QHost::new(planp.clone(), app.clone(), net.clone(), coord.clone(), sock, Some(server_addr.into()));
                primary::spawn(capped("quiche/host".into(), cap_ns, app.clone(), q.run(cap_ns)));
                // s2n accept loop (not primary)
                let app2 = app.clone();
                spawn(async move {
                    let mut first = true;
                    while let Some(connection) = server.accept().await {
                        if !first {
                            app2.lock().unwrap().harness_errors.push("s2n server accepted a second connection".into());
                            continue;
                        }
                        first = false;
                        primary::spawn(capped("s2n/conn".into(), cap_ns, app2.clone(), drive_s2n(env.clone(), connection)));
                    }
                });
            }
            Role::S2nClient => {
                // quiche server host first (so that it owns the first generated address)
                let sock = handle.builder().with_max_mtu(2000).build().unwrap().socket();
                let qaddr: SocketAddress = sock.local_addr().unwrap().into();
                net.lock().unwrap().hosts.push((qaddr, Dir::S2C));
                let client = start_client(plan, &handle, &obs);
                let caddr: SocketAddress = client.local_addr().unwrap().into();
                net.lock().unwrap().hosts.push((caddr, Dir::C2S));
                let q = qhost::QHost::new(planp.clone(), app.clone(), net.clone(), coord.clone(), sock, None);
                primary::spawn(capped("quiche/host".into(), cap_ns, app.clone(), q.run(cap_ns)));
                let app2 = app.clone();
                primary::spawn(capped("s2n/conn".into(), cap_ns, app.clone(), async move {
                    let connect = Connect::new(std::net::SocketAddr::from(qaddr)).with_server_name("localhost");
                    match op(&app2, "s2n/connect", "connect", client.connect(connect)).await {
                        Ok(connection) => drive_s2n(env, connection).await,
                        Err(e) => {
                            {
                                let mut a = app2.lock().unwrap();
                                a.s2n.connect_err = Some(format!("{e:?}"));
                                a.s2n.t_done_ns = Some(now_ns());
                            }
                            env.coord.set_s2n_closed();
                        }
                    }
                    // keep the endpoint alive (closing state, acknowledgements) until the run ends
                    spawn(async move {
                        let _client = client;
                        core::future::pending::<()>().await;
                    });
                }));
            }
        }
    });

    executor.run();
    *end_ns.lock().unwrap() = executor.enter(now_ns);
}

/// wakes when any of: coordination flags change
pub struct CoordChanged {
    pub coord: Coord,
    pub seen: (bool, bool, bool),
}
impl Future for CoordChanged {
    type Output = ();
    fn poll(self: Pin<&mut Self>, cx: &mut Context<'_>) -> Poll<()> {
        if self.coord.version() != self.seen {
            return Poll::Ready(());
        }
        self.coord.register(cx);
        if self.coord.version() != self.seen {
            return Poll::Ready(());
        }
        Poll::Pending
    }
}
