//! linksim: E2 component simulators (DESIGN 2.3) - `linksim check C09|C10|C15 ...`
//! CLI contract: see simkit (exit 0 held / 1 violation + VIOLATION line / 2 harness error).

mod c15;
mod drv;
mod link;

fn main() {
    let args: Vec<String> = std::env::args().skip(1).collect();
    let Some(a) = simkit::parse_check_args(&args) else {
        eprintln!("usage: linksim check <C09|C10|C15> [--tier quick|thorough] [--seed N] [--runs N] [--budget-s S] [--threads N] [--replay FILE]");
        std::process::exit(2);
    };
    let code = match a.property.as_str() {
        "C15" => drv::check(&c15::C15, &a),
        "C10" => drv::check(&link::LinkEngine::c10(), &a),
        "C09" => drv::check(&link::LinkEngine::c09(), &a),
        other => {
            eprintln!("HARNESS-ERROR: linksim has no check for {other}");
            2
        }
    };
    std::process::exit(code);
}
