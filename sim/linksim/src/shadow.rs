//! Shadow model: RFC 9002 transcribed from the RFC text (sections 5.2, 5.3, 6.1.2, 6.2.1,
//! 7.6.1 and appendix A.7), NOT from s2n-quic code.  Integer nanoseconds, exact rounding
//! (multiply first), so it differs from the implementation's divide-first arithmetic by a few
//! nanoseconds per step; comparisons use 1 us tolerance.
//!
//! RFC options mirrored from the implementation (each is a MAY/SHOULD in the RFC):
//!  * 5.3 "MAY ignore the acknowledgment delay for Initial packets" - taken.
//!  * 5.3 "prior to handshake confirmation, an endpoint MAY ignore RTT samples if adjusting
//!    the RTT sample for acknowledgment delay causes the sample to be less than the min_rtt" -
//!    taken (latest_rtt and min_rtt are still updated).
//!  * 5.2 "SHOULD set the min_rtt to the newest RTT sample after persistent congestion is
//!    established ... allows a connection to reset its estimate of min_rtt and smoothed_rtt":
//!    the first sample after persistent congestion re-initialises min_rtt, smoothed_rtt, rttvar.
//!  * appendix A.7 subtracts ack_delay when `latest_rtt >= min_rtt + ack_delay`; the prose of
//!    5.3 only forbids subtracting when the result would be smaller than min_rtt.  At exact
//!    equality both outcomes are accepted (the shadow follows the implementation and counts it).

use std::time::Duration;

const MS: u64 = 1_000_000;
const TOL_NS: u64 = 1_000;

#[derive(Clone)]
pub struct ShadowRtt {
    pub latest_ns: u64,
    pub min_ns: u64,
    pub srtt_ns: u64,
    pub rttvar_ns: u64,
    pub max_ack_delay_ns: u64,
    pub first_sample_at_us: Option<u64>,
    /// range of raw samples since the estimator was (re)initialised
    pub lo_ns: u64,
    pub hi_ns: u64,
    pub samples: u64,
}

impl std::fmt::Debug for ShadowRtt {
    fn fmt(&self, f: &mut std::fmt::Formatter) -> std::fmt::Result {
        write!(
            f,
            "shadow{{latest={}us min={}us srtt={}us rttvar={}us mad={}us n={}}}",
            self.latest_ns / 1000,
            self.min_ns / 1000,
            self.srtt_ns / 1000,
            self.rttvar_ns / 1000,
            self.max_ack_delay_ns / 1000,
            self.samples
        )
    }
}

#[derive(Default)]
pub struct Verdict {
    pub mismatch: Option<String>,
    pub range: Option<String>,
    pub equality_edge: bool,
}

impl ShadowRtt {
    /// RFC 9002 5.3 / 6.2.2: smoothed_rtt = kInitialRtt, rttvar = kInitialRtt / 2
    pub fn new(initial_rtt_us: u64, max_ack_delay_us: u64) -> Self {
        let i = initial_rtt_us * 1000;
        ShadowRtt { latest_ns: i, min_ns: i, srtt_ns: i, rttvar_ns: i / 2, max_ack_delay_ns: max_ack_delay_us * 1000, first_sample_at_us: None, lo_ns: u64::MAX, hi_ns: 0, samples: 0 }
    }

    pub fn on_persistent_congestion(&mut self) {
        self.first_sample_at_us = None;
    }

    /// appendix A.7 UpdateRtt.  `real` = (latest, min, smoothed, rttvar) of the implementation
    /// after the same sample.
    pub fn on_sample(&mut self, now_us: u64, sample_us: u64, ack_delay_us: u64, handshake_confirmed: bool, is_initial: bool, real: (Duration, Duration, Duration, Duration)) -> Verdict {
        let mut v = Verdict::default();
        let real_ns = (real.0.as_nanos() as u64, real.1.as_nanos() as u64, real.2.as_nanos() as u64, real.3.as_nanos() as u64);
        self.latest_ns = sample_us * 1000;
        self.samples += 1;
        if self.first_sample_at_us.is_none() {
            self.first_sample_at_us = Some(now_us);
            self.min_ns = self.latest_ns;
            self.srtt_ns = self.latest_ns;
            self.rttvar_ns = self.latest_ns / 2;
            self.lo_ns = self.latest_ns;
            self.hi_ns = self.latest_ns;
        } else {
            self.lo_ns = self.lo_ns.min(self.latest_ns);
            self.hi_ns = self.hi_ns.max(self.latest_ns);
            self.min_ns = self.min_ns.min(self.latest_ns);
            let mut ack_delay = ack_delay_us * 1000;
            if is_initial {
                ack_delay = 0;
            }
            if handshake_confirmed {
                ack_delay = ack_delay.min(self.max_ack_delay_ns);
            }
            // candidate outcomes: (adjusted sample or None = sample ignored, is the s2n choice at the
            // equality edge)
            let plain = if handshake_confirmed { Some(self.latest_ns) } else { None };
            let mut cands: Vec<(Option<u64>, bool)> = vec![];
            if self.latest_ns > self.min_ns + ack_delay {
                cands.push((Some(self.latest_ns - ack_delay), false));
            } else if self.latest_ns == self.min_ns + ack_delay && ack_delay > 0 {
                // equality edge: the pseudocode subtracts, the prose does not require it
                cands.push((Some(self.latest_ns - ack_delay), false));
                cands.push((plain, true));
            } else {
                cands.push((plain, false));
            }
            let eval = |adj: Option<u64>| -> (u64, u64) {
                match adj {
                    None => (self.srtt_ns, self.rttvar_ns),
                    Some(adjusted) => {
                        let sample_var = self.srtt_ns.abs_diff(adjusted);
                        (((7 * self.srtt_ns as u128 + adjusted as u128) / 8) as u64, ((3 * self.rttvar_ns as u128 + sample_var as u128) / 4) as u64)
                    }
                }
            };
            let mut best: Option<(u64, (u64, u64), bool)> = None;
            for (adj, edge) in cands {
                let (s, r) = eval(adj);
                let d = s.abs_diff(real_ns.2) + r.abs_diff(real_ns.3);
                if best.as_ref().is_none_or(|b| d < b.0) {
                    best = Some((d, (s, r), edge));
                }
            }
            let (_, (s, r), edge) = best.unwrap();
            v.equality_edge = edge;
            self.srtt_ns = s;
            self.rttvar_ns = r;
        }
        let names = ["latest_rtt", "min_rtt", "smoothed_rtt", "rttvar"];
        let mine = [self.latest_ns, self.min_ns, self.srtt_ns, self.rttvar_ns];
        let theirs = [real_ns.0, real_ns.1, real_ns.2, real_ns.3];
        for i in 0..4 {
            if mine[i].abs_diff(theirs[i]) > TOL_NS {
                v.mismatch = Some(format!(
                    "after sample {sample_us}us (ack_delay {ack_delay_us}us, handshake_confirmed={handshake_confirmed}, initial_space={is_initial}): {} = {}ns, RFC 9002 A.7 gives {}ns; implementation (latest,min,smoothed,rttvar)={theirs:?}ns shadow={mine:?}ns",
                    names[i], theirs[i], mine[i]
                ));
                break;
            }
        }
        // property statement: "RTT estimates stay within the range of the samples observed"
        if real_ns.1.abs_diff(self.lo_ns) > TOL_NS {
            v.range = Some(format!("min_rtt={}ns but the smallest sample since (re)initialisation is {}ns", real_ns.1, self.lo_ns));
        } else if real_ns.2 + TOL_NS < self.lo_ns || real_ns.2 > self.hi_ns + TOL_NS {
            // adjusted samples lie in [min_rtt, latest_rtt], so the average cannot leave the range
            // of the raw samples
            v.range = Some(format!("smoothed_rtt={}ns outside the range of samples [{}, {}]ns", real_ns.2, self.lo_ns, self.hi_ns));
        }
        v
    }

    /// RFC 9002 6.2.1: PTO = smoothed_rtt + max(4*rttvar, kGranularity) + max_ack_delay
    /// (max_ack_delay only for the application data space), in microseconds, before backoff
    pub fn pto_us(&self, app_space: bool) -> u64 {
        let mut p = self.srtt_ns + (4 * self.rttvar_ns).max(MS);
        if app_space {
            p += self.max_ack_delay_ns;
        }
        p / 1000
    }

    /// RFC 9002 6.1.2: max(kTimeThreshold * max(smoothed_rtt, latest_rtt), kGranularity)
    pub fn loss_delay_ns(&self) -> u64 {
        let m = self.srtt_ns.max(self.latest_ns);
        (m + m / 8).max(MS)
    }

    /// RFC 9002 7.6.1: (smoothed_rtt + max(4*rttvar, kGranularity) + max_ack_delay) * 3
    pub fn persistent_duration_ns(&self) -> u64 {
        (self.srtt_ns + (4 * self.rttvar_ns).max(MS) + self.max_ack_delay_ns) * 3
    }
}
