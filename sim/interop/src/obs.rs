//! s2n-quic side observation: event subscriber with virtual timestamps (after qsim/src/obs.rs,
//! reduced to what the C07 oracles and reach probes need).

use s2n_quic::provider::event::{self, events};
use std::{
    collections::BTreeMap,
    sync::{Arc, Mutex},
};

#[derive(Clone, Copy, Debug, PartialEq, Eq, serde::Serialize)]
pub enum CloseKind {
    /// closed without error (local application close or peer NO_ERROR close)
    Closed,
    Transport,
    Application,
    StatelessReset,
    IdleTimerExpired,
    NoValidPath,
    MaxHandshakeDurationExceeded,
    ImmediateClose,
    EndpointClosing,
    Other,
}

#[derive(Clone, Debug)]
pub struct Closed {
    /// endpoint-internal connection id (creation order)
    pub id: u64,
    pub t_ns: u64,
    pub kind: CloseKind,
    pub code: Option<u64>,
    pub local: bool,
    pub text: String,
}

pub fn classify_close(error: &s2n_quic_core::connection::Error) -> (CloseKind, Option<u64>, bool) {
    use s2n_quic_core::{connection::Error as E, endpoint::Location};
    let loc = |i: &Location| matches!(i, Location::Local);
    match error {
        E::Closed { initiator, .. } => (CloseKind::Closed, None, loc(initiator)),
        E::Transport { code, initiator, .. } => (CloseKind::Transport, Some(code.as_u64()), loc(initiator)),
        E::Application { error, initiator, .. } => (CloseKind::Application, Some(u64::from(**error)), loc(initiator)),
        E::StatelessReset { .. } => (CloseKind::StatelessReset, None, false),
        E::IdleTimerExpired { .. } => (CloseKind::IdleTimerExpired, None, true),
        E::NoValidPath { .. } => (CloseKind::NoValidPath, None, true),
        E::MaxHandshakeDurationExceeded { .. } => (CloseKind::MaxHandshakeDurationExceeded, None, true),
        E::ImmediateClose { .. } => (CloseKind::ImmediateClose, None, true),
        E::EndpointClosing { .. } => (CloseKind::EndpointClosing, None, true),
        _ => (CloseKind::Other, None, true),
    }
}

#[derive(Default, Debug)]
pub struct Obs {
    /// connection_closed events (one per connection the endpoint had)
    pub closed: Vec<Closed>,
    pub attempt_failed: Vec<String>,
    pub counts: BTreeMap<&'static str, u64>,
    pub dropped: BTreeMap<String, u64>,
    pub max_pto_count: u32,
    pub max_mtu: u16,
    pub peer_tp: Option<String>,
    pub connections: u64,
    /// last frames of interest, for reports (bounded)
    pub tail: std::collections::VecDeque<String>,
    pub keep_tail: bool,
}

impl Obs {
    fn bump(&mut self, k: &'static str) {
        *self.counts.entry(k).or_insert(0) += 1;
    }
    fn note(&mut self, t_ns: u64, s: String) {
        if self.keep_tail {
            if self.tail.len() >= 400 {
                self.tail.pop_front();
            }
            self.tail.push_back(format!("{:>10.3}ms {s}", t_ns as f64 / 1e6));
        }
    }
}

pub type SharedObs = Arc<Mutex<Obs>>;

pub struct EventTap {
    pub obs: SharedObs,
}

fn t_of(meta: &events::ConnectionMeta) -> u64 {
    meta.timestamp.duration_since_start().as_nanos() as u64
}

fn frame_name(f: &events::Frame, sent: bool) -> Option<&'static str> {
    use events::Frame as F;
    Some(match (f, sent) {
        (F::MaxData { .. }, true) => "tx_max_data",
        (F::MaxData { .. }, false) => "rx_max_data",
        (F::MaxStreamData { .. }, true) => "tx_max_stream_data",
        (F::MaxStreamData { .. }, false) => "rx_max_stream_data",
        (F::MaxStreams { .. }, true) => "tx_max_streams",
        (F::MaxStreams { .. }, false) => "rx_max_streams",
        (F::DataBlocked { .. }, true) => "tx_data_blocked",
        (F::DataBlocked { .. }, false) => "rx_data_blocked",
        (F::StreamDataBlocked { .. }, true) => "tx_stream_data_blocked",
        (F::StreamDataBlocked { .. }, false) => "rx_stream_data_blocked",
        (F::StreamsBlocked { .. }, true) => "tx_streams_blocked",
        (F::StreamsBlocked { .. }, false) => "rx_streams_blocked",
        (F::NewConnectionId { .. }, true) => "tx_new_connection_id",
        (F::NewConnectionId { .. }, false) => "rx_new_connection_id",
        (F::RetireConnectionId { .. }, true) => "tx_retire_connection_id",
        (F::RetireConnectionId { .. }, false) => "rx_retire_connection_id",
        (F::PathChallenge { .. }, true) => "tx_path_challenge",
        (F::PathChallenge { .. }, false) => "rx_path_challenge",
        (F::PathResponse { .. }, true) => "tx_path_response",
        (F::PathResponse { .. }, false) => "rx_path_response",
        (F::ConnectionClose { .. }, true) => "tx_connection_close",
        (F::ConnectionClose { .. }, false) => "rx_connection_close",
        (F::HandshakeDone { .. }, true) => "tx_handshake_done",
        (F::HandshakeDone { .. }, false) => "rx_handshake_done",
        (F::NewToken { .. }, true) => "tx_new_token",
        (F::NewToken { .. }, false) => "rx_new_token",
        (F::ResetStream { .. }, true) => "tx_reset_stream",
        (F::ResetStream { .. }, false) => "rx_reset_stream",
        (F::StopSending { .. }, true) => "tx_stop_sending",
        (F::StopSending { .. }, false) => "rx_stop_sending",
        (F::Ping { .. }, true) => "tx_ping",
        (F::Ping { .. }, false) => "rx_ping",
        _ => return None,
    })
}

impl event::Subscriber for EventTap {
    type ConnectionContext = ();

    fn create_connection_context(
        &mut self,
        _meta: &events::ConnectionMeta,
        _info: &events::ConnectionInfo,
    ) -> Self::ConnectionContext {
        self.obs.lock().unwrap().connections += 1;
    }

    fn on_connection_closed(&mut self, _c: &mut (), meta: &events::ConnectionMeta, e: &events::ConnectionClosed) {
        let (kind, code, local) = classify_close(&e.error);
        let mut o = self.obs.lock().unwrap();
        let t = t_of(meta);
        o.note(t, format!("s2n connection_closed {:?}", e.error));
        o.closed.push(Closed { id: meta.id, t_ns: t, kind, code, local, text: format!("{:?}", e.error) });
    }

    fn on_packet_lost(&mut self, _c: &mut (), meta: &events::ConnectionMeta, e: &events::PacketLost) {
        let mut o = self.obs.lock().unwrap();
        o.bump(if e.is_mtu_probe { "s2n_mtu_probe_lost" } else { "s2n_packet_lost" });
        o.note(t_of(meta), format!("s2n packet_lost {:?} bytes {}", e.packet_header, e.bytes_lost));
    }

    fn on_recovery_metrics(&mut self, _c: &mut (), _meta: &events::ConnectionMeta, e: &events::RecoveryMetrics) {
        let mut o = self.obs.lock().unwrap();
        if e.pto_count > o.max_pto_count {
            o.max_pto_count = e.pto_count;
        }
    }

    fn on_frame_sent(&mut self, _c: &mut (), meta: &events::ConnectionMeta, e: &events::FrameSent) {
        let mut o = self.obs.lock().unwrap();
        if let Some(n) = frame_name(&e.frame, true) {
            o.bump(n);
        }
        if matches!(e.frame, events::Frame::ConnectionClose { .. })
            && matches!(e.packet_header, events::PacketHeader::Initial { .. } | events::PacketHeader::Handshake { .. })
        {
            o.bump("tx_connection_close_long_header");
        }
        if o.keep_tail && !matches!(e.frame, events::Frame::Padding { .. }) {
            o.note(t_of(meta), format!("s2n tx {:?} {:?}", e.packet_header, e.frame));
        }
    }

    fn on_frame_received(&mut self, _c: &mut (), meta: &events::ConnectionMeta, e: &events::FrameReceived) {
        let mut o = self.obs.lock().unwrap();
        if let Some(n) = frame_name(&e.frame, false) {
            o.bump(n);
        }
        if o.keep_tail && !matches!(e.frame, events::Frame::Padding { .. }) {
            o.note(t_of(meta), format!("s2n rx {:?} {:?}", e.packet_header, e.frame));
        }
    }

    fn on_packet_dropped(&mut self, _c: &mut (), meta: &events::ConnectionMeta, e: &events::PacketDropped) {
        let s = format!("{:?}", e.reason);
        let reason = s.split([' ', '{']).next().unwrap_or("").to_string();
        let mut o = self.obs.lock().unwrap();
        o.note(t_of(meta), format!("s2n packet_dropped {s}"));
        *o.dropped.entry(format!("packet:{reason}")).or_insert(0) += 1;
    }

    fn on_datagram_dropped(&mut self, _c: &mut (), meta: &events::ConnectionMeta, e: &events::DatagramDropped) {
        let s = format!("{:?}", e.reason);
        let reason = s.split([' ', '{']).next().unwrap_or("").to_string();
        let mut o = self.obs.lock().unwrap();
        o.note(t_of(meta), format!("s2n datagram_dropped {s}"));
        *o.dropped.entry(format!("datagram:{reason}")).or_insert(0) += 1;
    }

    fn on_duplicate_packet(&mut self, _c: &mut (), _meta: &events::ConnectionMeta, _e: &events::DuplicatePacket) {
        self.obs.lock().unwrap().bump("s2n_duplicate_packet");
    }

    fn on_mtu_updated(&mut self, _c: &mut (), meta: &events::ConnectionMeta, e: &events::MtuUpdated) {
        let mut o = self.obs.lock().unwrap();
        o.bump("s2n_mtu_updated");
        if e.mtu > o.max_mtu {
            o.max_mtu = e.mtu;
        }
        o.note(t_of(meta), format!("s2n mtu_updated {} cause {:?}", e.mtu, e.cause));
    }

    fn on_transport_parameters_received(
        &mut self,
        _c: &mut (),
        _meta: &events::ConnectionMeta,
        e: &events::TransportParametersReceived,
    ) {
        let mut o = self.obs.lock().unwrap();
        o.peer_tp = Some(format!("{:?}", e.transport_parameters));
    }

    fn on_key_update(&mut self, _c: &mut (), _meta: &events::ConnectionMeta, _e: &events::KeyUpdate) {
        self.obs.lock().unwrap().bump("s2n_key_update");
    }

    fn on_endpoint_connection_attempt_failed(
        &mut self,
        _meta: &events::EndpointMeta,
        e: &events::EndpointConnectionAttemptFailed,
    ) {
        self.obs.lock().unwrap().attempt_failed.push(format!("{:?}", e.error));
    }

    fn on_endpoint_datagram_dropped(&mut self, _meta: &events::EndpointMeta, e: &events::EndpointDatagramDropped) {
        let s = format!("{:?}", e.reason);
        let reason = s.split([' ', '{']).next().unwrap_or("").to_string();
        *self.obs.lock().unwrap().dropped.entry(format!("endpoint:{reason}")).or_insert(0) += 1;
    }
}
