//! Link-time interposition of `clock_gettime`: code without a clock seam (`Entry::age()` in the
//! path-secret map reads `std::time::Instant`) sees this thread's virtual offset added to
//! CLOCK_MONOTONIC.  The offset only ever grows (monotonic time never goes backwards) and is
//! per thread, so simulation threads and the wall-clock watchdog are unaffected.

use std::cell::Cell;

thread_local! {
    static OFFSET_NS: Cell<i64> = const { Cell::new(0) };
}

pub fn advance(d: std::time::Duration) {
    OFFSET_NS.with(|o| o.set(o.get() + d.as_nanos() as i64));
}

/// # Safety
/// same contract as clock_gettime(2)
#[no_mangle]
pub unsafe extern "C" fn clock_gettime(clk: libc::clockid_t, ts: *mut libc::timespec) -> libc::c_int {
    let r = libc::syscall(libc::SYS_clock_gettime, clk as libc::c_long, ts) as libc::c_int;
    if r == 0 && (clk == libc::CLOCK_MONOTONIC || clk == libc::CLOCK_MONOTONIC_RAW || clk == libc::CLOCK_BOOTTIME) && !ts.is_null() {
        let off = OFFSET_NS.with(|o| o.get());
        if off != 0 {
            let t = &mut *ts;
            let total = t.tv_sec as i128 * 1_000_000_000 + t.tv_nsec as i128 + off as i128;
            t.tv_sec = (total / 1_000_000_000) as libc::time_t;
            t.tv_nsec = (total % 1_000_000_000) as libc::c_long;
        }
    }
    r
}
