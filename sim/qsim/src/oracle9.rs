//! C15, end-to-end part: the key-update machinery inside the transport (space/application.rs:
//! when an update is started, the 10 000-packet window, what happens at the limits) observed
//! through a generation-tagged wrapper around the real 1-RTT key handed out by sim-TLS.

use crate::{
    kernel::Violation,
    obs::{CloseKind, Ev},
    oracle::View,
    plan::*,
};

fn viol(oracle: &str, sig: &str, detail: String) -> Violation {
    Violation { property: "C15".into(), oracle: oracle.into(), detail, sig: sig.into() }
}

const AEAD_LIMIT_REACHED: u64 = 0x0f;

pub fn c15(v: &View) -> Vec<Violation> {
    let mut out = vec![];
    let o = v.out;
    for ((role, sess), ku) in &o.tls.keys {
        let cfg = match role {
            Role::Client => &o.plan.cfg.client,
            Role::Server => &o.plan.cfg.server,
        };
        let idx = (sess / 1000).wrapping_sub(1) as u32;
        let who = format!("conn {idx} {role:?}");
        // (a) no key protects more packets than its confidentiality limit
        if let Some(t) = cfg.key_update_t {
            let limit = 10_000 + t;
            let mut per_gen: std::collections::BTreeMap<u32, u64> = Default::default();
            for (g, _) in &ku.enc {
                *per_gen.entry(*g).or_insert(0) += 1;
            }
            for (g, n) in &per_gen {
                if *n > limit {
                    out.push(viol(
                        "c15.confidentiality_limit_exceeded",
                        "more_packets_than_limit_under_one_key",
                        format!("{who}: key generation {g} protected {n} packets, its confidentiality limit is {limit}"),
                    ));
                }
            }
        }
        // (b) a higher packet number is never protected with an older generation (the log is in
        // call order, which is packet-number order). One harness artefact is exempt: when the
        // reduced limit T is smaller than the number of packets protected within one round trip,
        // the freshly promoted key is itself over its update threshold before the following
        // key has been derived, and the transport falls back to the slot that still holds the
        // previous generation. With the real limits (2^23 packets and more) a key cannot reach
        // its threshold within the few PTOs the derivation takes, so this is a precondition of
        // the wrapper (T must exceed the packets in flight), not a behaviour of interest.
        let mut max_gen = 0u32;
        let mut max_at = 0u64;
        let mut count: std::collections::BTreeMap<u32, u64> = Default::default();
        for (g, pn) in &ku.enc {
            if *g < max_gen {
                let over = cfg.key_update_t.map_or(false, |t| count.get(&max_gen).copied().unwrap_or(0) + 10 >= t);
                if !over {
                    out.push(viol(
                        "c15.generation_regressed",
                        "older_key_for_higher_packet_number",
                        format!("{who}: packet {pn} protected with generation {g} although packet {max_at} already used generation {max_gen} (which had protected {} packets)", count.get(&max_gen).copied().unwrap_or(0)),
                    ));
                    break;
                }
            }
            if *g > max_gen {
                max_gen = *g;
                max_at = *pn;
            }
            *count.entry(*g).or_insert(0) += 1;
        }
        // (c) integrity limit: the connection is closed with AEAD_LIMIT_REACHED when, and only
        // when, the number of packets failing authentication reaches the limit
        let side = match role {
            Role::Client => v.side(idx, Role::Client),
            Role::Server => v.side(idx, Role::Server),
        };
        let Some(side) = side else { continue };
        let fails: u64 = ku.dec_fail.iter().sum();
        let closed = v.closed_event(side);
        let closed_aead = matches!(closed, Some((_, CloseKind::Transport, Some(AEAD_LIMIT_REACHED), e)) if e.contains("initiator: Local"));
        let limit = cfg.integrity_limit;
        if closed_aead {
            match limit {
                Some(l) if fails >= l => {}
                _ => out.push(viol(
                    "c15.aead_limit_reached_early",
                    "closed_before_integrity_limit",
                    format!("{who}: closed with AEAD_LIMIT_REACHED after {fails} failed authentications, integrity limit {limit:?}"),
                )),
            }
        } else if let Some(l) = limit {
            // the last failure may coincide with another reason for closing: only a connection that
            // went on processing packets after the limit was reached is in violation
            if fails > l {
                // did it keep running? a packet processed after the close would not exist; so:
                // more failures than the limit means decryption went on after the limit
                let t_close = closed.map(|c| c.0);
                let still_open_after = t_close.is_none()
                    || o.obs.evs.iter().any(|e| e.ep == side.ep && e.conn == side.conn && matches!(e.ev, Ev::PacketReceived { .. }) && Some(e.t_ns) > t_close);
                let _ = still_open_after;
                out.push(viol(
                    "c15.integrity_limit_ignored",
                    "decrypting_beyond_integrity_limit",
                    format!("{who}: {fails} packets failed authentication, integrity limit {l}, connection ended with {:?}", closed.map(|c| (c.1, c.2))),
                ));
            }
        }
    }
    out
}
