//! Shared data types of the component engine: a *history* is pure data (structure name,
//! parameters, operation list); executing it drives the real structure and the reference model
//! side by side and yields an `Outcome`.

use serde::{Deserialize, Serialize};
use simkit::{Fnv, Violation};
use std::collections::BTreeMap;

pub const VARINT_MAX: u64 = (1u64 << 62) - 1;

/// One operation of a history.  One enum for all structures keeps replay files and ddmin
/// generic; the executor of a structure ignores (counts as skipped) foreign variants.
#[derive(Clone, Debug, Serialize, Deserialize, PartialEq, Eq)]
pub enum Op {
    // ---- Reassembler
    /// write_at / write_at_fin
    W { off: u64, len: u32, fin: bool },
    /// write_reader with a chunked reader; `fin` = Some(extra): reader reports
    /// final_offset = off+len+extra; `fail` = index of the storage call that fails
    R { off: u64, len: u32, fin: Option<u64>, chunk: u32, fail: Option<u32> },
    Pop,
    PopW { w: u64 },
    /// Storage::copy_into a Vec<u8> (queue=false) or Vec<BytesMut> (queue=true) with write limit
    Copy { limit: u32, queue: bool },
    Skip { len: u64 },
    Reset,
    // ---- IntervalSet / ack::Ranges
    Ins { lo: u64, hi: u64 },
    /// insert(lo..end) with an exclusive end
    InsEx { lo: u64, end: u64 },
    InsFront { lo: u64, hi: u64 },
    InsV { v: u64 },
    Rem { lo: u64, hi: u64 },
    RemV { v: u64 },
    Union { other: Vec<(u64, u64)> },
    Diff { other: Vec<(u64, u64)> },
    Inter { other: Vec<(u64, u64)> },
    InterIter { other: Vec<(u64, u64)> },
    PopMin,
    Clear,
    SetLimit { n: u32 },
    RemoveLimit,
    // ---- ack::Ranges
    AckPn { pn: u64 },
    AckRange { lo: u64, hi: u64 },
    // ---- packet::number::Map
    MIns { pn: u64, val: u64 },
    MInsUpd { pn: u64, val: u64 },
    MGet { pn: u64 },
    MRem { pn: u64 },
    /// remove_range(lo..=hi), take `take` items from the iterator, then drop it
    MRemRange { lo: u64, hi: u64, take: u32 },
    MIterMut { add: u64 },
    // ---- SlidingWindow
    SwIns { pn: u64 },
    SwInsEv { pn: u64 },
    SwCheck { pn: u64 },
    // ---- dc receiver / sender (C19)
    /// receiver::State::post_authentication(key_id = id)
    Arrive { id: u64 },
    /// sender::State::next_key_id()
    Next,
    /// sender::State::update_for_stale_key(m)
    Stale { m: u64 },
    /// closed loop: sender issues an id and puts it on the forward link
    Send,
    /// closed loop: deliver forward-link item number `slot % len` (keep=true: leave a copy = dup)
    Deliver { slot: u32, keep: bool },
    /// closed loop: deliver again something delivered earlier (replay)
    Replay { idx: u32 },
    /// closed loop: deliver StaleKey number `idx % len` of all StaleKeys ever produced (never
    /// removed: old ones can be replayed at any time)
    DeliverStale { idx: u32 },
}

#[derive(Clone, Debug, Serialize, Deserialize, PartialEq, Eq)]
pub struct History {
    pub property: String,
    /// reassembler | iset_u8 | iset_u64 | ack | pnmap | window | recv | sender | loop
    pub structure: String,
    pub seed: u64,
    /// structure parameter (interval limit / ack capacity), 0 = none
    pub param: u64,
    pub ops: Vec<Op>,
}

#[derive(Clone, Debug, Default)]
pub struct Stats {
    pub ops: BTreeMap<&'static str, u64>,
    pub faults: BTreeMap<&'static str, u64>,
    pub probes: BTreeMap<&'static str, u64>,
    pub skipped_precondition: u64,
}

impl Stats {
    #[inline]
    pub fn op(&mut self, k: &'static str) {
        *self.ops.entry(k).or_insert(0) += 1;
    }
    #[inline]
    pub fn fault(&mut self, k: &'static str) {
        *self.faults.entry(k).or_insert(0) += 1;
    }
    #[inline]
    pub fn probe(&mut self, k: &'static str) {
        *self.probes.entry(k).or_insert(0) += 1;
    }
    pub fn probe_n(&self, k: &str) -> u64 {
        self.probes.get(k).copied().unwrap_or(0)
    }
    pub fn fault_n(&self, k: &str) -> u64 {
        self.faults.get(k).copied().unwrap_or(0)
    }
}

pub struct Outcome {
    pub violation: Option<Violation>,
    /// index of the operation at which the violation was detected
    pub at: usize,
    /// hash over the (operation, outcome) sequence
    pub hash: u64,
    pub nontrivial: bool,
    pub stats: Stats,
    /// per-operation outcome text (only when tracing)
    pub trace: Vec<String>,
}

/// Per-history recorder handed to executors.
pub struct Rec {
    pub property: &'static str,
    pub structure: &'static str,
    pub stats: Stats,
    pub h: Fnv,
    pub trace_on: bool,
    pub trace: Vec<String>,
    pub violation: Option<Violation>,
    pub at: usize,
    pub cur: usize,
}

impl Rec {
    pub fn new(property: &'static str, structure: &'static str, trace_on: bool) -> Self {
        Rec {
            property,
            structure,
            stats: Stats::default(),
            h: Fnv::default(),
            trace_on,
            trace: vec![],
            violation: None,
            at: 0,
            cur: 0,
        }
    }

    /// record the outcome of the current operation (goes into the history hash)
    #[inline]
    pub fn out(&mut self, code: u64, a: u64, b: u64) {
        self.h.u64(code);
        self.h.u64(a);
        self.h.u64(b);
    }

    /// start of operation `i`: hashes the operation, opens its trace line
    #[inline]
    pub fn begin(&mut self, i: usize, op: &Op) {
        self.cur = i;
        hash_op(&mut self.h, op);
        if self.trace_on {
            self.trace.push(format!("{op:?}"));
        }
    }

    #[inline]
    pub fn note(&mut self, f: impl FnOnce() -> String) {
        if self.trace_on {
            let s = f();
            if let Some(last) = self.trace.last_mut() {
                last.push_str(" => ");
                last.push_str(&s);
            }
        }
    }

    /// first violation wins
    pub fn fail(&mut self, oracle: &str, opkind: &str, detail: String) {
        if self.violation.is_none() {
            self.violation = Some(Violation {
                property: self.property.to_string(),
                oracle: oracle.to_string(),
                detail: format!("op #{} ({opkind}): {detail}", self.cur),
                sig: format!("{}:{}", self.structure, oracle),
            });
            self.at = self.cur;
        }
    }

    pub fn failed(&self) -> bool {
        self.violation.is_some()
    }

    pub fn finish(self, nontrivial: bool) -> Outcome {
        Outcome {
            violation: self.violation,
            at: self.at,
            hash: simkit::mix64(self.h.0),
            nontrivial,
            stats: self.stats,
            trace: self.trace,
        }
    }
}

pub fn hash_op(h: &mut Fnv, op: &Op) {
    // serde_json of a small enum is cheap enough and unambiguous
    let s = serde_json::to_string(op).unwrap_or_default();
    h.write(s.as_bytes());
}

/// position-keyed payload: byte at stream position p (64-bit keyed hash, aperiodic)
pub const DATA_KEY: u64 = 0xC16C_16C1_6C16_u64;

pub fn payload(off: u64, len: usize) -> Vec<u8> {
    let mut v = vec![0u8; len];
    simkit::payload_fill(DATA_KEY, 0, 0, 0, off, &mut v);
    v
}

pub fn payload_mismatch(off: u64, data: &[u8]) -> Option<usize> {
    simkit::payload_check(DATA_KEY, 0, 0, 0, off, data)
}

/// maximal runs of a sorted set
pub fn runs(set: &std::collections::BTreeSet<u64>) -> Vec<(u64, u64)> {
    let mut out: Vec<(u64, u64)> = vec![];
    for &v in set {
        match out.last_mut() {
            Some(last) if last.1.checked_add(1) == Some(v) => last.1 = v,
            _ => out.push((v, v)),
        }
    }
    out
}
