//! Brute-force linearizability check of a recorded history (invoke/return stamped with a
//! global sequence number) against a sequential model, <= 16 operations.
//!
//! Soundness of the memoisation: for both models used here the model state after a set S of
//! linearised operations *whose recorded results were all matched* is a function of S alone
//! (receiver: accepted = ids answered Ok in S, max = largest of them; sender: counter = max of
//! returned id + 1 and stale values in S), so a set that failed once fails always.

#[derive(Clone, Debug, PartialEq, Eq)]
pub struct Op {
    pub thread: u8,
    pub inv: u64,
    pub ret: u64,
    /// operation name: `post`, `next`, `stale`
    pub name: String,
    pub arg: u64,
    /// recorded result: post -> 0 Ok / 1 AlreadyExists / 2 Unknown; next -> id; stale -> 0
    pub res: u64,
}

#[allow(dead_code)]
pub fn render(ops: &[Op]) -> String {
    ops.iter().map(|o| format!("{},{},{},{},{},{}", o.thread, o.inv, o.ret, o.name, o.arg, o.res)).collect::<Vec<_>>().join(";")
}

pub fn parse(s: &str) -> Option<Vec<Op>> {
    let mut v = vec![];
    for part in s.split(';').filter(|p| !p.is_empty()) {
        let f: Vec<&str> = part.split(',').collect();
        if f.len() != 6 {
            return None;
        }
        v.push(Op {
            thread: f[0].parse().ok()?,
            inv: f[1].parse().ok()?,
            ret: f[2].parse().ok()?,
            name: f[3].to_string(),
            arg: f[4].parse().ok()?,
            res: f[5].parse().ok()?,
        });
    }
    Some(v)
}

pub trait Model: Clone {
    fn step(&mut self, op: &Op) -> u64;
}

pub const KEY_ID_MAX: u64 = (1 << 62) - 1;
pub const WINDOW: u64 = 896;

/// `receiver::State`: set of accepted ids + highest accepted id (C19 statement)
#[derive(Clone, Default)]
pub struct ReceiverModel {
    pub max: Option<u64>,
    pub accepted: std::collections::BTreeSet<u64>,
}

impl Model for ReceiverModel {
    fn step(&mut self, op: &Op) -> u64 {
        let id = op.arg;
        if id == KEY_ID_MAX {
            return 2;
        }
        let new_max = self.max.map_or(id, |m| m.max(id));
        if new_max - id >= WINDOW {
            return 2;
        }
        if !self.accepted.insert(id) {
            return 1;
        }
        self.max = Some(new_max);
        0
    }
}

/// `sender::State`: a counter; `next` returns it and adds one, `stale(m)` raises it to m
#[derive(Clone, Default)]
pub struct SenderModel {
    pub next: u64,
}

impl Model for SenderModel {
    fn step(&mut self, op: &Op) -> u64 {
        match op.name.as_str() {
            "next" => {
                let v = self.next;
                self.next += 1;
                v
            }
            _ => {
                self.next = self.next.max(op.arg);
                0
            }
        }
    }
}

/// Some(order) = a witness linearisation (indices into `ops`), None = not linearizable
pub fn linearize<M: Model>(ops: &[Op], init: M) -> Option<Vec<usize>> {
    assert!(ops.len() <= 16);
    let mut dead = std::collections::HashSet::new();
    let mut order = vec![];
    if dfs(ops, 0, init, &mut dead, &mut order) {
        Some(order)
    } else {
        None
    }
}

fn dfs<M: Model>(ops: &[Op], done: u32, state: M, dead: &mut std::collections::HashSet<u32>, order: &mut Vec<usize>) -> bool {
    if done.count_ones() as usize == ops.len() {
        return true;
    }
    if dead.contains(&done) {
        return false;
    }
    // an operation may be linearised next iff no other pending operation returned before it
    // was invoked (real-time order)
    let min_ret = ops.iter().enumerate().filter(|(i, _)| done & (1 << i) == 0).map(|(_, o)| o.ret).min().unwrap();
    for (i, op) in ops.iter().enumerate() {
        if done & (1 << i) != 0 || op.inv > min_ret {
            continue;
        }
        let mut s = state.clone();
        if s.step(op) == op.res {
            order.push(i);
            if dfs(ops, done | (1 << i), s, dead, order) {
                return true;
            }
            order.pop();
        }
    }
    dead.insert(done);
    false
}
