//! Plan = everything that decides one execution (pure data, serialisable = replay file).

use crate::kernel::Rng;
use serde::{Deserialize, Serialize};

#[derive(Clone, Debug, Serialize, Deserialize, PartialEq)]
pub struct Plan {
    pub seed: u64,
    pub property: String,
    pub family: String,
    pub cfg: Config,
    pub conns: Vec<ConnScript>,
    pub faults: Vec<Fault>,
    pub delay_key: u64,
    pub yield_key: u64,
    pub data_key: u64,
    pub rand_key: u64,
    /// virtual time cap for the run (microseconds)
    pub time_cap_us: u64,
    /// after this instant the network is perfect (finite-fault families)
    pub faults_end_us: Option<u64>,
    /// unattributable datagrams injected by a third host
    #[serde(default)]
    pub attacker: Vec<AttackerDatagram>,
}

#[derive(Clone, Debug, Serialize, Deserialize, PartialEq)]
pub struct Config {
    pub server: EndpointCfg,
    pub client: EndpointCfg,
    /// 0 = AES128-GCM, 1 = AES256-GCM, 2 = CHACHA20-POLY1305
    pub cipher: u8,
    pub cert_size: u32,
    pub base_delay_us: u64,
    pub jitter_us: u64,
    /// datagrams larger than this are dropped by the path
    pub path_mtu: u16,
    /// max datagrams the network releases per step per host (0 = unlimited)
    pub net_batch: u32,
    /// after a NAT rebinding the old binding keeps forwarding to the client (additive plans)
    #[serde(default)]
    pub nat_keeps_old_mapping: bool,
}

#[derive(Clone, Debug, Serialize, Deserialize, PartialEq)]
pub struct EndpointCfg {
    pub limits: LimitsCfg,
    pub base_mtu: u16,
    pub initial_mtu: u16,
    pub max_mtu: u16,
    /// 0 = cubic, 1 = bbr
    pub cc: u8,
    pub cid_len: u8,
    pub cid_lifetime_ms: Option<u64>,
    pub rotate_handshake_cid: bool,
    pub tx_ring: Option<u32>,
    pub rx_ring: Option<u32>,
    /// server only: always answer the first Initial with a Retry
    pub retry: bool,
    /// sim-TLS: rewrite this endpoint's own transport parameter block before sending it
    pub tp_rule: Option<TpRule>,
    /// sim-TLS wrapper key: confidentiality limit reported = 10_000 + T
    pub key_update_t: Option<u64>,
    pub integrity_limit: Option<u64>,
    /// byzantine rules applied to this endpoint's outgoing cleartext
    #[serde(default)]
    pub byz: Vec<ByzRule>,
    /// buggify: flatten scatter buffer in the tx interceptor
    pub flatten_tx: bool,
}

#[derive(Clone, Debug, Serialize, Deserialize, PartialEq)]
pub struct LimitsCfg {
    pub data_window: u64,
    pub bidi_local_window: u64,
    pub bidi_remote_window: u64,
    pub uni_window: u64,
    pub max_local_bidi: u64,
    pub max_remote_bidi: u64,
    pub max_local_uni: u64,
    pub max_remote_uni: u64,
    pub idle_timeout_ms: u64,
    pub max_ack_delay_ms: u64,
    pub ack_elicitation_interval: u8,
    pub ack_ranges_limit: u8,
    pub max_active_cids: u64,
    pub max_send_buffer: u32,
    pub initial_rtt_ms: u64,
    pub handshake_ms: u64,
    pub migration: bool,
    pub stream_batch: u8,
    pub packet_buffer: u32,
}

impl Default for LimitsCfg {
    fn default() -> Self {
        // mirrors s2n-quic's defaults
        LimitsCfg {
            data_window: 0, // 0 = leave the library default
            bidi_local_window: 0,
            bidi_remote_window: 0,
            uni_window: 0,
            max_local_bidi: 100,
            max_remote_bidi: 100,
            max_local_uni: 100,
            max_remote_uni: 100,
            idle_timeout_ms: 30_000,
            max_ack_delay_ms: 25,
            ack_elicitation_interval: 2,
            ack_ranges_limit: 10,
            max_active_cids: 3,
            max_send_buffer: 0,
            initial_rtt_ms: 333,
            handshake_ms: 10_000,
            migration: true,
            stream_batch: 1,
            packet_buffer: 0,
        }
    }
}

impl Default for EndpointCfg {
    fn default() -> Self {
        EndpointCfg {
            limits: LimitsCfg::default(),
            base_mtu: 1228,
            initial_mtu: 1228,
            max_mtu: 1500,
            cc: 0,
            cid_len: 16,
            cid_lifetime_ms: None,
            rotate_handshake_cid: true,
            tx_ring: None,
            rx_ring: None,
            retry: false,
            tp_rule: None,
            key_update_t: None,
            integrity_limit: None,
            byz: vec![],
            flatten_tx: false,
        }
    }
}

impl Default for Config {
    fn default() -> Self {
        Config {
            server: EndpointCfg::default(),
            client: EndpointCfg::default(),
            cipher: 0,
            cert_size: 1000,
            base_delay_us: 20_000,
            jitter_us: 0,
            path_mtu: 1500,
            net_batch: 0,
            nat_keeps_old_mapping: false,
        }
    }
}

#[derive(Clone, Copy, Debug, Serialize, Deserialize, PartialEq, Eq, Hash, PartialOrd, Ord)]
pub enum Role {
    Client,
    Server,
}
impl Role {
    pub fn peer(self) -> Role {
        match self {
            Role::Client => Role::Server,
            Role::Server => Role::Client,
        }
    }
    pub fn idx(self) -> u64 {
        match self {
            Role::Client => 0,
            Role::Server => 1,
        }
    }
}

#[derive(Clone, Debug, Serialize, Deserialize, PartialEq)]
pub struct ConnScript {
    pub start_us: u64,
    pub streams: Vec<StreamPlan>,
    pub close: CloseSpec,
    /// NAT rebinding / migration events of this client: (time, new port offset)
    #[serde(default)]
    pub rebinds: Vec<u64>,
    /// enable keep alive on the client
    #[serde(default)]
    pub keep_alive: bool,
    /// additional one-way latency of this client's path: [initial, after rebind 0, after rebind 1, ...]
    #[serde(default)]
    pub path_delays_us: Vec<u64>,
}

#[derive(Clone, Debug, Serialize, Deserialize, PartialEq)]
pub enum CloseSpec {
    /// client closes with an application code once every stream task of the connection is done
    AfterAll { by: Role, code: u32 },
    /// application close at a fixed time by one side, whatever is in flight
    At { us: u64, by: Role, code: u32 },
    /// never close explicitly: handles are dropped when the stream tasks are done
    DropHandles,
}

#[derive(Clone, Debug, Serialize, Deserialize, PartialEq)]
pub struct StreamPlan {
    pub opener: Role,
    pub bidi: bool,
    pub open_delay_us: u64,
    /// opener -> acceptor
    pub fwd: SendScript,
    pub fwd_recv: RecvScript,
    /// acceptor -> opener (bidi only)
    pub rev: Option<SendScript>,
    pub rev_recv: Option<RecvScript>,
}

#[derive(Clone, Copy, Debug, Serialize, Deserialize, PartialEq)]
pub enum SendMode {
    Send,
    Vectored(u8),
    SendData,
    AsyncWrite,
}

#[derive(Clone, Debug, Serialize, Deserialize, PartialEq)]
pub enum SendEnd {
    Finish,
    /// close().await : finish + wait for ack
    Close,
    /// reset once `at` bytes were handed to the stream
    Reset { at: u64, code: u32 },
    /// drop the handle without finishing (library finishes implicitly)
    DropHandle,
}

#[derive(Clone, Debug, Serialize, Deserialize, PartialEq)]
pub struct SendScript {
    pub total: u64,
    /// chunk sizes, cycled
    pub chunks: Vec<u32>,
    pub mode: SendMode,
    pub end: SendEnd,
    /// (chunk index, sleep microseconds)
    pub pauses: Vec<(u32, u64)>,
    /// flush after every n-th chunk (0 = never)
    pub flush_every: u32,
}

#[derive(Clone, Copy, Debug, Serialize, Deserialize, PartialEq)]
pub enum RecvMode {
    Receive,
    Vectored(u8),
    AsyncRead(u32),
}

#[derive(Clone, Debug, Serialize, Deserialize, PartialEq)]
pub struct RecvScript {
    pub mode: RecvMode,
    /// issue STOP_SENDING once this many bytes were read
    pub stop_at: Option<(u64, u32)>,
    pub pauses: Vec<(u32, u64)>,
    /// sleep before the first read
    pub start_delay_us: u64,
    /// abandon the stream (drop the handle without calling stop_sending) once this many bytes
    /// were read, after sleeping for the given time (so that the rest has arrived meanwhile)
    #[serde(default)]
    pub drop_at: Option<(u64, u64)>,
}

#[derive(Clone, Copy, Debug, Serialize, Deserialize, PartialEq, Eq, Hash, PartialOrd, Ord)]
pub enum Dir {
    /// datagrams sent by a client
    C2S,
    /// datagrams sent by the server
    S2C,
}

#[derive(Clone, Debug, Serialize, Deserialize, PartialEq)]
pub struct Fault {
    pub when: When,
    pub action: Action,
}

#[derive(Clone, Debug, Serialize, Deserialize, PartialEq)]
pub enum When {
    /// n-th datagram (0-based) emitted in that direction
    Nth { dir: Dir, n: u64 },
    /// every datagram emitted in the direction inside the time window whose stateless hash
    /// falls below rate (per mille)
    Window { dir: Option<Dir>, from_us: u64, to_us: u64, permille: u32, key: u64 },
}

#[derive(Clone, Debug, Serialize, Deserialize, PartialEq)]
pub enum Action {
    Drop,
    /// deliver k extra copies, each delayed by extra_us more than the previous
    Dup { k: u8, extra_us: u64 },
    /// add delay (reorders behind later datagrams)
    Delay { us: u64 },
    /// flip the listed bit positions (mod length); deliver instead of original
    Corrupt { bits: Vec<u32>, also_original: bool },
    /// truncate to n bytes (or len-n when from_end)
    Truncate { n: u32, from_end: bool, also_original: bool },
    /// append n pseudo-random bytes
    Extend { n: u32, also_original: bool },
    /// front half of this datagram + back half of the previous one in the same direction
    Splice { at: u32, also_original: bool },
    /// deliver another copy `after_us` later (replay)
    Replay { after_us: u64, from_other_addr: bool },
    /// set ECN CE on delivery
    EcnCe,
    /// deliver, in addition to the original, a bit-flipped copy that claims to come from another
    /// (spoofed, per-datagram distinct) source address
    SpoofedCorrupt { bits: Vec<u32> },
    /// hold every datagram for the destination host for `us`, then burst
    Stall { us: u64 },
}

#[derive(Clone, Debug, Serialize, Deserialize, PartialEq)]
pub struct AttackerDatagram {
    pub at_us: u64,
    pub to_server: bool,
    pub kind: AttackKind,
    pub len: u32,
    pub key: u64,
}

#[derive(Clone, Copy, Debug, Serialize, Deserialize, PartialEq)]
pub enum AttackKind {
    Garbage,
    ShortHeaderUnknownCid,
    LongHeaderUnknownVersion,
    VersionNegotiation,
    InitialVersionZero,
    /// spoofed as coming from the genuine peer address (server side only sees client 0)
    GarbageFromPeerAddr,
}

#[derive(Clone, Debug, Serialize, Deserialize, PartialEq)]
pub struct ByzRule {
    /// apply at the n-th application-space packet this endpoint sends on a connection
    pub at_packet: u64,
    pub conn: u32,
    pub kind: ByzKind,
}

#[derive(Clone, Debug, Serialize, Deserialize, PartialEq)]
pub enum ByzKind {
    /// STREAM frame for an open peer-readable stream at offset = stream credit + delta
    StreamBeyondStreamCredit {
        delta: u64,
        /// send an empty STREAM frame with FIN whose final size lies beyond the credit instead of
        /// one byte of data
        #[serde(default)]
        empty_fin: bool,
    },
    /// STREAM frame such that the connection credit is exceeded
    StreamBeyondConnCredit {
        delta: u64,
        #[serde(default)]
        empty_fin: bool,
    },
    StreamAtMaxOffset,
    /// stream id beyond MAX_STREAMS
    StreamIdBeyondLimit { bidi: bool, by: u64 },
    DataAfterFin,
    ChangedFinalSize { shrink: bool },
    ResetOtherFinalSize,
    /// STREAM frame on a uni stream that the victim itself opened (receive-only for us)
    StreamOnPeerSendOnly,
    MaxStreamDataForUnopenedLocal,
    StopSendingForUnopenedLocal,
    ResetForUnopenedLocal,
    MaxStreamsTooLarge { bidi: bool },
    NewCidRetirePriorGtSeq,
    NewCidBadLen { len: u8 },
    NewCidDupSeqOtherCid,
    RetireUnissuedSeq { by: u64 },
    HandshakeDoneFromClient,
    NewTokenFromClient,
    AckNeverSent { ahead: u64 },
    UnknownFrameType { ty: u64 },
    /// frame that is illegal in the Initial/Handshake space (acts on that space)
    AppFrameInHandshakeSpace { initial: bool },
    CryptoBeyondBuffer,
}

#[derive(Clone, Debug, Serialize, Deserialize, PartialEq)]
pub enum TpRule {
    /// set numeric parameter `id` to `value` (replace or insert)
    Set { id: u64, value: u64 },
    /// append raw parameter (id, bytes)
    Raw { id: u64, bytes: Vec<u8> },
    /// duplicate parameter id (if present)
    Duplicate { id: u64 },
    Remove { id: u64 },
    /// overwrite a connection id parameter with other bytes
    SetBytes { id: u64, bytes: Vec<u8> },
    Truncate { by: u32 },
    Reverse,
    /// several at once
    Multi(Vec<TpRule>),
}

pub fn rng_for(seed: u64, stream: u64) -> Rng {
    Rng::new(crate::kernel::hashn(seed, &[stream]))
}
