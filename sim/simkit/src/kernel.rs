//! Simulation kernel: seeded PRNG, stateless hashes, payload oracle, plan minimisation.
//!
//! One integer (VERIF_SEED) -> one `Plan` (pure data) -> one execution.  Execution itself
//! consumes no PRNG stream: all per-event choices are stateless hashes of plan keys.

use serde::{Deserialize, Serialize};

#[inline]
pub fn mix64(mut z: u64) -> u64 {
    z = z.wrapping_add(0x9e3779b97f4a7c15);
    z = (z ^ (z >> 30)).wrapping_mul(0xbf58476d1ce4e5b9);
    z = (z ^ (z >> 27)).wrapping_mul(0x94d049bb133111eb);
    z ^ (z >> 31)
}

/// stateless hash of a key and a list of words
#[inline]
pub fn hashn(key: u64, parts: &[u64]) -> u64 {
    let mut h = mix64(key ^ 0x5851f42d4c957f2d);
    for p in parts {
        h = mix64(h ^ p.wrapping_mul(0xd6e8feb86659fd93)).rotate_left(23) ^ *p;
        h = mix64(h);
    }
    h
}

#[derive(Clone, Debug)]
pub struct Rng(pub u64);

impl Rng {
    pub fn new(seed: u64) -> Self {
        Rng(mix64(seed ^ 0xa076_1d64_78bd_642f))
    }
    #[inline]
    pub fn next(&mut self) -> u64 {
        self.0 = self.0.wrapping_add(0x9e3779b97f4a7c15);
        let mut z = self.0;
        z = (z ^ (z >> 30)).wrapping_mul(0xbf58476d1ce4e5b9);
        z = (z ^ (z >> 27)).wrapping_mul(0x94d049bb133111eb);
        z ^ (z >> 31)
    }
    /// uniform in 0..n (n>0)
    #[inline]
    pub fn below(&mut self, n: u64) -> u64 {
        if n == 0 {
            return 0;
        }
        self.next() % n
    }
    #[inline]
    pub fn range(&mut self, lo: u64, hi_incl: u64) -> u64 {
        lo + self.below(hi_incl - lo + 1)
    }
    #[inline]
    pub fn chance(&mut self, num: u64, den: u64) -> bool {
        self.below(den) < num
    }
    pub fn pick<T: Clone>(&mut self, xs: &[T]) -> T {
        xs[self.below(xs.len() as u64) as usize].clone()
    }
    pub fn fork(&mut self) -> Rng {
        Rng::new(self.next())
    }
    /// log-uniform-ish size in [lo, hi]
    pub fn size(&mut self, lo: u64, hi: u64) -> u64 {
        if hi <= lo {
            return lo;
        }
        let bits_lo = 64 - lo.max(1).leading_zeros() as u64;
        let bits_hi = 64 - hi.leading_zeros() as u64;
        let b = self.range(bits_lo, bits_hi);
        let top = if b >= 64 { u64::MAX } else { (1u64 << b) - 1 };
        let bot = if b <= 1 { 0 } else { 1u64 << (b - 1) };
        let v = self.range(bot, top.max(bot));
        v.clamp(lo, hi)
    }
    pub fn fill(&mut self, out: &mut [u8]) {
        for c in out.chunks_mut(8) {
            let v = self.next().to_le_bytes();
            c.copy_from_slice(&v[..c.len()]);
        }
    }
}

/// Payload oracle: byte at offset `off` of stream `stream` of connection `conn` in direction
/// `dir`.  Aperiodic over 2^64: every 8-byte word is an independent keyed hash of its index.
#[inline]
pub fn payload_word(key: u64, conn: u64, stream: u64, dir: u64, word: u64) -> [u8; 8] {
    hashn(key, &[conn, stream, dir, word]).to_le_bytes()
}

pub fn payload_fill(key: u64, conn: u64, stream: u64, dir: u64, off: u64, out: &mut [u8]) {
    let mut o = off;
    let mut i = 0;
    while i < out.len() {
        let w = payload_word(key, conn, stream, dir, o >> 3);
        let s = (o & 7) as usize;
        let n = (8 - s).min(out.len() - i);
        out[i..i + n].copy_from_slice(&w[s..s + n]);
        i += n;
        o += n as u64;
    }
}

/// returns the index of the first mismatching byte, if any
pub fn payload_check(
    key: u64,
    conn: u64,
    stream: u64,
    dir: u64,
    off: u64,
    data: &[u8],
) -> Option<usize> {
    let mut o = off;
    let mut i = 0;
    while i < data.len() {
        let w = payload_word(key, conn, stream, dir, o >> 3);
        let s = (o & 7) as usize;
        let n = (8 - s).min(data.len() - i);
        if data[i..i + n] != w[s..s + n] {
            for k in 0..n {
                if data[i + k] != w[s + k] {
                    return Some(i + k);
                }
            }
        }
        i += n;
        o += n as u64;
    }
    None
}

/// FNV-1a 64 over bytes (for log hashes; not security relevant)
#[derive(Clone, Copy, Debug)]
pub struct Fnv(pub u64);
impl Default for Fnv {
    fn default() -> Self {
        Fnv(0xcbf29ce484222325)
    }
}
impl Fnv {
    #[inline]
    pub fn write(&mut self, b: &[u8]) {
        for x in b {
            self.0 ^= *x as u64;
            self.0 = self.0.wrapping_mul(0x100000001b3);
        }
    }
    #[inline]
    pub fn u64(&mut self, v: u64) {
        self.write(&v.to_le_bytes());
    }
}

pub fn hash_bytes(b: &[u8]) -> u64 {
    let mut f = Fnv::default();
    f.write(b);
    mix64(f.0)
}

#[derive(Clone, Debug, Serialize, Deserialize, PartialEq, Eq)]
pub struct Violation {
    pub property: String,
    pub oracle: String,
    pub detail: String,
    /// signature used to match known findings (stable across seeds)
    pub sig: String,
}

/// ddmin over a list: returns a minimal sublist (1-minimal w.r.t. chunk removal) for which
/// `fails` still holds. `fails` must be deterministic.
pub fn ddmin<T: Clone>(items: &[T], mut fails: impl FnMut(&[T]) -> bool) -> Vec<T> {
    let mut cur: Vec<T> = items.to_vec();
    if cur.is_empty() {
        return cur;
    }
    if fails(&[]) {
        return vec![];
    }
    let mut n = 2usize;
    while cur.len() >= 2 {
        let chunk = cur.len().div_ceil(n);
        let mut reduced = false;
        let mut i = 0;
        while i < cur.len() {
            let mut cand = Vec::with_capacity(cur.len());
            cand.extend_from_slice(&cur[..i]);
            cand.extend_from_slice(&cur[(i + chunk).min(cur.len())..]);
            if !cand.is_empty() && fails(&cand) {
                cur = cand;
                n = n.saturating_sub(1).max(2);
                reduced = true;
                break;
            }
            i += chunk;
        }
        if !reduced {
            if n >= cur.len() {
                break;
            }
            n = (n * 2).min(cur.len());
        }
    }
    if cur.len() == 1 && fails(&[]) {
        return vec![];
    }
    cur
}
