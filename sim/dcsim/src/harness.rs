//! Check driver: seeded batches over std threads (one bach runtime per run), determinism
//! self-check, minimisation, replay, evidence.

use crate::{gen, mapdrv, oracle, plan::*, run, trace};
use serde_json::{json, Value};
use simkit::{ddmin, CheckArgs, Violation};
use std::{
    collections::{BTreeMap, BTreeSet},
    sync::{
        atomic::{AtomicBool, AtomicU64, Ordering},
        Arc, Mutex,
    },
    time::{Duration, Instant},
};

pub struct Outcome {
    pub violations: Vec<Violation>,
    pub observations: Vec<Violation>,
    pub summary: oracle::Summary,
    pub out: run::RunOut,
}

/// outcome-level findings that, in a C18 run, are attributed to forgeries by a differential run
const OUTCOME_ORACLES: &[&str] = &["c18.error_under_finite_faults", "c18.hang", "c18.eof_short", "c18.payload_mismatch", "c18.stream_identity", "c18.livelock"];

pub fn run_plan(plan: &Plan) -> Outcome {
    let out = run::execute(plan);
    let oracle::Verdict { mut violations, mut observations } = oracle::evaluate(plan, &out);
    let summary = oracle::summarize(plan, &out);
    // C18 differential attribution: does a failed outcome go away when the forged copies are
    // withheld (the originals they replaced are dropped instead)?  If so a forged datagram was
    // acted upon.
    let is_outcome = |v: &Violation| OUTCOME_ORACLES.contains(&v.oracle.as_str());
    if plan.property == "C18" && !plan.forge_as_drop && !plan.forges.is_empty() && (violations.iter().any(is_outcome) || observations.iter().any(is_outcome)) {
        let mut p2 = plan.clone();
        p2.forge_as_drop = true;
        let out2 = run::execute(&p2);
        let v2 = oracle::evaluate(&p2, &out2);
        if !v2.violations.iter().any(is_outcome) && !v2.observations.iter().any(is_outcome) {
            let pos = if out.stats.forged_first_flight > 0 { "first_flight" } else { "mid_stream" };
            let mut moved = vec![];
            observations.retain(|v| {
                if is_outcome(v) {
                    moved.push(v.clone());
                    false
                } else {
                    true
                }
            });
            violations.extend(moved);
            for v in violations.iter_mut() {
                if is_outcome(v) {
                    v.detail = format!("[{}; absent when the forged copies are withheld] {}", v.oracle, v.detail);
                    let what = if v.oracle.ends_with("hang") || v.oracle.ends_with("livelock") {
                        "hang"
                    } else if v.oracle.ends_with("error_under_finite_faults") {
                        "error"
                    } else {
                        "data"
                    };
                    v.oracle = "c18.forged_packet_changes_outcome".into();
                    v.sig = format!("{pos}:{what}");
                }
            }
        }
    }
    Outcome { violations, observations, summary, out }
}

fn with_capture<R>(f: impl FnOnce() -> R) -> R {
    let _g = trace::install();
    f()
}

// ------------------------------------------------------------------------------------------
// minimisation

thread_local! {
    static MIN_DEADLINE: std::cell::Cell<Option<Instant>> = const { std::cell::Cell::new(None) };
}

fn still_fails(plan: &Plan, oracle_id: &str, budget: &mut u32) -> bool {
    if *budget == 0 || MIN_DEADLINE.with(|d| d.get()).map_or(false, |d| Instant::now() > d) {
        return false;
    }
    *budget -= 1;
    run_plan(plan).violations.iter().any(|v| v.oracle == oracle_id)
}

/// minimisation bounded by a number of runs and (optionally) a wall-clock deadline
pub fn minimise_until(plan: &Plan, oracle_id: &str, deadline: Option<Instant>) -> Plan {
    MIN_DEADLINE.with(|d| d.set(deadline));
    let r = minimise(plan, oracle_id);
    MIN_DEADLINE.with(|d| d.set(None));
    r
}

pub fn minimise(plan: &Plan, oracle_id: &str) -> Plan {
    let mut budget = 150u32;
    let mut cur = plan.clone();
    // 1. fault list
    let faults = cur.faults.clone();
    let min = ddmin(&faults, |fs| {
        let mut p = cur.clone();
        p.faults = fs.to_vec();
        still_fails(&p, oracle_id, &mut budget)
    });
    {
        let mut p = cur.clone();
        p.faults = min;
        if p != cur && still_fails(&p, oracle_id, &mut budget) {
            cur = p;
        }
    }
    // 2. forgeries
    let forges = cur.forges.clone();
    let min = ddmin(&forges, |fs| {
        let mut p = cur.clone();
        p.forges = fs.to_vec();
        still_fails(&p, oracle_id, &mut budget)
    });
    {
        let mut p = cur.clone();
        p.forges = min;
        if p != cur && still_fails(&p, oracle_id, &mut budget) {
            cur = p;
        }
    }
    // 3. vanish
    if cur.vanish.is_some() {
        let mut p = cur.clone();
        p.vanish = None;
        if still_fails(&p, oracle_id, &mut budget) {
            cur = p;
        }
    }
    // 4. fewer clients / streams
    while cur.clients.len() > 1 {
        let mut reduced = false;
        for i in (0..cur.clients.len()).rev() {
            let mut p = cur.clone();
            p.clients.remove(i);
            if still_fails(&p, oracle_id, &mut budget) {
                cur = p;
                reduced = true;
                break;
            }
        }
        if !reduced {
            break;
        }
    }
    for ci in 0..cur.clients.len() {
        loop {
            let n = cur.clients[ci].streams.len();
            if n <= 1 {
                break;
            }
            let mut reduced = false;
            for si in (0..n).rev() {
                let mut p = cur.clone();
                p.clients[ci].streams.remove(si);
                if still_fails(&p, oracle_id, &mut budget) {
                    cur = p;
                    reduced = true;
                    break;
                }
            }
            if !reduced {
                break;
            }
        }
    }
    // 5. smaller sizes, simpler scripts
    for ci in 0..cur.clients.len() {
        for si in 0..cur.clients[ci].streams.len() {
            for which in 0..2 {
                for _ in 0..8 {
                    let mut p = cur.clone();
                    let s = &mut p.clients[ci].streams[si];
                    let h = if which == 0 { &mut s.req } else { &mut s.resp };
                    if h.total == 0 {
                        break;
                    }
                    h.total /= 2;
                    if let Some(d) = h.r_drop_at.as_mut() {
                        *d = (*d).min(h.total);
                    }
                    if still_fails(&p, oracle_id, &mut budget) {
                        cur = p;
                    } else {
                        break;
                    }
                }
            }
            let mut p = cur.clone();
            let s = &mut p.clients[ci].streams[si];
            s.open_delay_us = 0;
            for h in [&mut s.req, &mut s.resp] {
                h.w_pauses.clear();
                h.r_pauses.clear();
            }
            if p != cur && still_fails(&p, oracle_id, &mut budget) {
                cur = p;
            }
            let mut p = cur.clone();
            let s = &mut p.clients[ci].streams[si];
            for h in [&mut s.req, &mut s.resp] {
                h.r_drop_at = None;
                h.finish = 0;
            }
            s.resp_start = 0;
            if p != cur && still_fails(&p, oracle_id, &mut budget) {
                cur = p;
            }
        }
    }
    // 6. configuration towards defaults
    let tries: Vec<Box<dyn Fn(&mut Plan)>> = vec![
        Box::new(|p| p.cfg.yield_key = 0),
        Box::new(|p| p.cfg.jitter_us = 0),
        Box::new(|p| p.cfg.base_delay_us = 500),
        Box::new(|p| p.cfg.server_mtu = 1500),
        Box::new(|p| {
            for c in &mut p.clients {
                c.mtu = 1500
            }
        }),
    ];
    for t in tries {
        let mut p = cur.clone();
        t(&mut p);
        if p != cur && still_fails(&p, oracle_id, &mut budget) {
            cur = p;
        }
    }
    cur
}

// ------------------------------------------------------------------------------------------
// replay

fn fault_trace(out: &run::RunOut, max: usize) -> Vec<Value> {
    out.log
        .iter()
        .filter(|r| r.fate != crate::link::FATE_DELIVERED || r.label != crate::link::LABEL_GENUINE)
        .take(max)
        .map(|r| {
            json!({
                "t_us": r.t_send_ns / 1000,
                "dir": if r.dir == 0 { "c2s" } else { "s2c" },
                "ord": r.ord,
                "len": r.len,
                "kind": crate::link::kind_name(r.kind),
                "fate": (["delivered", "drop", "blackhole", "vanished", "replaced"][r.fate as usize]),
                "label": (["genuine", "dup", "forged"][r.label as usize]),
                "note": r.note,
            })
        })
        .collect()
}

fn summarize(plan: &Plan, o: &Outcome) -> Value {
    let actors: Vec<Value> = o
        .out
        .app
        .actors
        .iter()
        .map(|(k, a)| json!({"client": k.0, "stream": k.1, "role": run::role_name(k.2), "bytes": a.bytes, "end": a.end, "t_end_us": a.t_end_ns / 1000}))
        .collect();
    json!({
        "seed": plan.seed,
        "family": plan.family,
        "clients": plan.clients.len(),
        "streams": plan.n_streams(),
        "bytes_planned": plan.total_bytes(),
        "mtu": {"server": plan.cfg.server_mtu, "clients": plan.clients.iter().map(|c| c.mtu).collect::<Vec<_>>()},
        "base_delay_us": plan.cfg.base_delay_us,
        "jitter_us": plan.cfg.jitter_us,
        "faults_planned": plan.faults,
        "vanish": plan.vanish,
        "forges_planned": plan.forges.len(),
        "faults_fired": o.out.stats.fired,
        "fault_trace_head": fault_trace(&o.out, 12),
        "datagrams": o.out.log.len(),
        "packet_kinds": o.out.stats.kinds_seen,
        "probes": o.summary.probes,
        "app_results": actors,
        "sim_time_ms": o.out.end_ns / 1_000_000,
        "trace_hash": format!("{:016x}", o.summary.hash),
        "violations": o.violations.len(),
    })
}

pub fn replay(path: &str) -> i32 {
    let Ok(s) = std::fs::read_to_string(path) else {
        eprintln!("HARNESS-ERROR: cannot read {path}");
        return 2;
    };
    let doc: Value = match serde_json::from_str(&s) {
        Ok(d) => d,
        Err(e) => {
            eprintln!("HARNESS-ERROR: {path}: {e}");
            return 2;
        }
    };
    if doc["engine"] == "mapdrv" {
        return mapdrv::replay(&doc, path);
    }
    let plan: Plan = match serde_json::from_value(doc["plan"].clone()) {
        Ok(p) => p,
        Err(e) => {
            eprintln!("HARNESS-ERROR: {path}: plan: {e}");
            return 2;
        }
    };
    let o = with_capture(|| run_plan(&plan));
    println!("replay {path}: trace_hash={:016x} (recorded {})", o.summary.hash, doc["trace_hash"]);
    let known = simkit::load_known();
    let mut code = 0;
    for v in &o.violations {
        if v.oracle.starts_with("harness.") {
            eprintln!("HARNESS-ERROR: {}", v.detail);
            return 2;
        }
        if let Some(k) = simkit::is_known(&known, v) {
            println!("KNOWN-FINDING: property={} {}", v.property, k.text);
        } else {
            println!("violation: {} {} :: {}", v.property, v.oracle, v.detail);
            println!("VIOLATION property={} replay={}", v.property, path);
            code = 1;
        }
    }
    for v in &o.observations {
        println!("observation (not a violation): {} :: {}", v.oracle, v.detail);
    }
    if o.violations.is_empty() {
        println!("replay: no violation");
    }
    code
}

// ------------------------------------------------------------------------------------------
// determinism

/// hashes of the first `n` seeds (two runs each, in this process)
pub fn selfcheck_hashes(property: &str, base: u64, n: u64) -> Vec<(u64, u64, u64)> {
    selfcheck_hashes_threads(property, base, n, 16)
}

/// the same over a pool of `threads` workers (each plan runs twice, back to back, on one worker)
pub fn selfcheck_hashes_threads(property: &str, base: u64, n: u64, threads: usize) -> Vec<(u64, u64, u64)> {
    let next = AtomicU64::new(0);
    let out: Mutex<Vec<(u64, u64, u64)>> = Mutex::new(vec![]);
    std::thread::scope(|s| {
        for _ in 0..threads.max(1).min(n.max(1) as usize) {
            s.spawn(|| {
                with_capture(|| loop {
                    let i = next.fetch_add(1, Ordering::Relaxed);
                    if i >= n {
                        break;
                    }
                    let seed = base.wrapping_add(i);
                    let plan = gen::plan_for(property, seed);
                    let a = run_plan(&plan).summary.hash;
                    let b = run_plan(&plan).summary.hash;
                    out.lock().unwrap().push((seed, a, b));
                })
            });
        }
    });
    let mut v = out.into_inner().unwrap();
    v.sort();
    v
}

/// re-executes this binary (`dcsim hashes <ID> <base> <n>`) and parses `seed hash` lines
fn child_hashes(property: &str, base: u64, n: u64) -> Result<BTreeMap<u64, u64>, String> {
    let exe = std::env::current_exe().map_err(|e| e.to_string())?;
    let out = std::process::Command::new(exe)
        .args(["hashes", property, &base.to_string(), &n.to_string()])
        .output()
        .map_err(|e| e.to_string())?;
    if !out.status.success() {
        return Err(format!("child exited with {:?}", out.status.code()));
    }
    let mut m = BTreeMap::new();
    for l in String::from_utf8_lossy(&out.stdout).lines() {
        let mut it = l.split_whitespace();
        if let (Some("H"), Some(s), Some(h)) = (it.next(), it.next(), it.next()) {
            if let (Ok(s), Ok(h)) = (s.parse::<u64>(), u64::from_str_radix(h, 16)) {
                m.insert(s, h);
            }
        }
    }
    Ok(m)
}

// ------------------------------------------------------------------------------------------
// batch

#[derive(Default)]
struct Agg {
    runs: u64,
    sim_ns: u128,
    nontrivial: BTreeSet<u64>,
    all_sigs: BTreeSet<u64>,
    faults: BTreeMap<String, u64>,
    probes: BTreeMap<String, u64>,
    probe_runs: BTreeMap<String, u64>,
    kinds: BTreeMap<String, u64>,
    forged_by_kind: BTreeMap<String, u64>,
    forged_by_mutation: BTreeMap<String, u64>,
    families: BTreeMap<String, u64>,
    violations: Vec<(u64, Violation)>,
    samples: Vec<Value>,
    sample_fams: BTreeSet<String>,
    bytes_read: u64,
    datagrams: u64,
    end_kinds: BTreeMap<String, u64>,
    max_vanish_err_delay_ms: u64,
    observations: BTreeMap<String, u64>,
    observation_samples: Vec<Value>,
    max_datagram: u32,
}

fn end_class(e: &str) -> String {
    if let Some(rest) = e.strip_prefix("err:") {
        let mut it = rest.splitn(2, ':');
        let kind = it.next().unwrap_or("");
        let msg: String = it.next().unwrap_or("").chars().take(48).collect();
        format!("err:{kind}:{msg}")
    } else {
        e.to_string()
    }
}

pub fn check(a: &CheckArgs) -> i32 {
    let t0 = Instant::now();
    let property = a.property.as_str();
    let thorough = a.thorough();
    // quick: a fixed number of seeds (verdict independent of machine load) under a generous
    // wall-clock budget; thorough: budget bound
    let budget = a.budget(600);
    let max_runs = a.runs.unwrap_or(if thorough { u64::MAX } else { 2000 });

    // ---- global wall-clock watchdog (covers the self-check phase as well): a run that never
    // returns (e.g. an endless loop inside one poll) is a harness error, never a verdict
    {
        let limit = budget + Duration::from_secs(if thorough { 420 } else { 180 });
        std::thread::spawn(move || loop {
            std::thread::sleep(Duration::from_secs(1));
            if t0.elapsed() > limit {
                eprintln!("HARNESS-ERROR: check exceeded its wall-clock watchdog ({} s): a simulation run did not return", limit.as_secs());
                std::process::exit(2);
            }
        });
    }

    // ---- determinism self-check: N seeds x 2 in-process runs x 1 fresh process
    let det_n: u64 = if thorough { 48 } else { 16 };
    let local = selfcheck_hashes(property, a.seed, det_n);
    let mut det_inproc_equal = 0;
    for (seed, h1, h2) in &local {
        if h1 == h2 {
            det_inproc_equal += 1;
        } else {
            eprintln!("HARNESS-ERROR: plan for seed {seed} is not reproducible in-process ({h1:016x} vs {h2:016x})");
            return 2;
        }
    }
    let mut det_xproc_equal = 0;
    match child_hashes(property, a.seed, det_n) {
        Ok(m) => {
            for (seed, h1, _) in &local {
                match m.get(seed) {
                    Some(h) if h == h1 => det_xproc_equal += 1,
                    other => {
                        eprintln!("HARNESS-ERROR: plan for seed {seed} is not reproducible across processes ({h1:016x} vs {other:x?})");
                        return 2;
                    }
                }
            }
        }
        Err(e) => {
            eprintln!("HARNESS-ERROR: determinism child process failed: {e}");
            return 2;
        }
    }

    // ---- direct map driver (C18 only)
    let mut map_part = None;
    let mut map_violations: Vec<(u64, Violation)> = vec![];
    if property == "C18" {
        let mb = if thorough { Duration::from_secs(budget.as_secs() / 6) } else { Duration::from_secs(8) };
        let r = mapdrv::batch(a.seed, mb, a.threads);
        map_violations = r.violations.clone();
        map_part = Some(r);
    }

    let next = Arc::new(AtomicU64::new(0));
    let stop = Arc::new(AtomicBool::new(false));
    let agg = Arc::new(Mutex::new(Agg::default()));
    let started: Arc<Mutex<BTreeMap<usize, (u64, Instant)>>> = Default::default();

    std::thread::scope(|s| {
        for w in 0..a.threads {
            let next = next.clone();
            let stop = stop.clone();
            let agg = agg.clone();
            let started = started.clone();
            let base = a.seed;
            s.spawn(move || {
                let _g = trace::install();
                loop {
                    if stop.load(Ordering::Relaxed) {
                        break;
                    }
                    let i = next.fetch_add(1, Ordering::Relaxed);
                    if i >= max_runs {
                        break;
                    }
                    let seed = base.wrapping_add(i);
                    started.lock().unwrap().insert(w, (seed, Instant::now()));
                    if std::env::var("VERIF_TRACE_SEEDS").is_ok() {
                        eprintln!("start seed {seed} on worker {w}");
                    }
                    let plan = gen::plan_for(property, seed);
                    let t_run = Instant::now();
                    let o = run_plan(&plan);
                    if t_run.elapsed() > Duration::from_secs(3) && std::env::var("VERIF_TRACE_SLOW").is_ok() {
                        eprintln!("slow run: seed {seed} family {} wall {:?} sim {} ms datagrams {}", plan.family, t_run.elapsed(), o.out.end_ns / 1_000_000, o.out.log.len());
                    }
                    started.lock().unwrap().remove(&w);
                    let mut g = agg.lock().unwrap();
                    g.runs += 1;
                    g.sim_ns += o.out.end_ns as u128;
                    g.all_sigs.insert(o.summary.sig);
                    if o.summary.nontrivial {
                        g.nontrivial.insert(o.summary.sig);
                    }
                    *g.families.entry(plan.family.clone()).or_insert(0) += 1;
                    g.bytes_read += o.summary.bytes_read;
                    g.datagrams += o.out.log.len() as u64;
                    for (k, n) in &o.out.stats.fired {
                        *g.faults.entry(k.clone()).or_insert(0) += n;
                    }
                    for (k, n) in &o.summary.probes {
                        *g.probes.entry(k.clone()).or_insert(0) += n;
                        *g.probe_runs.entry(k.clone()).or_insert(0) += 1;
                    }
                    for (k, n) in &o.out.stats.kinds_seen {
                        *g.kinds.entry(k.clone()).or_insert(0) += n;
                    }
                    for (k, n) in &o.out.stats.forged_by_kind {
                        *g.forged_by_kind.entry(k.clone()).or_insert(0) += n;
                    }
                    for (k, n) in &o.out.stats.forged_by_mutation {
                        *g.forged_by_mutation.entry(k.clone()).or_insert(0) += n;
                    }
                    for a in o.out.app.actors.values() {
                        *g.end_kinds.entry(end_class(&a.end)).or_insert(0) += 1;
                    }
                    if let Some(tv) = o.out.vanish_t_ns {
                        for (k, a) in &o.out.app.actors {
                            if (k.2 == run::ROLE_CR || k.2 == run::ROLE_CW) && a.end.starts_with("err:") && a.t_end_ns > tv {
                                let ip = o.out.client_ips.get(k.0 as usize).cloned().flatten();
                                let last_rx = ip.and_then(|ip| o.out.last_rx_ns.get(&ip.to_string()).copied()).unwrap_or(0);
                                let base = a.last_op_start_ns.max(last_rx).max(tv);
                                let d = a.t_end_ns.saturating_sub(base) / 1_000_000;
                                if d > g.max_vanish_err_delay_ms {
                                    g.max_vanish_err_delay_ms = d;
                                }
                            }
                        }
                    }
                    if g.samples.len() < 5 && o.summary.nontrivial && o.violations.is_empty() && (!g.sample_fams.contains(&plan.family) || g.runs > 200) {
                        g.sample_fams.insert(plan.family.clone());
                        let mut sm = summarize(&plan, &o);
                        if g.samples.is_empty() {
                            sm["full_plan"] = serde_json::to_value(&plan).unwrap();
                        }
                        g.samples.push(sm);
                    }
                    for v in &o.violations {
                        g.violations.push((seed, v.clone()));
                    }
                    for v in &o.observations {
                        *g.observations.entry(v.oracle.clone()).or_insert(0) += 1;
                        if g.observation_samples.len() < 4 {
                            g.observation_samples.push(json!({"seed": seed, "oracle": v.oracle, "detail": v.detail}));
                        }
                    }
                    g.max_datagram = g.max_datagram.max(o.out.stats.max_len[0]).max(o.out.stats.max_len[1]);
                }
            });
        }
        // budget + wall-clock watchdog
        let stop2 = stop.clone();
        let started2 = started.clone();
        let next2 = next.clone();
        s.spawn(move || loop {
            std::thread::sleep(Duration::from_millis(100));
            // stop launching a little before the budget ends: runs in flight need time to finish
            if t0.elapsed() + Duration::from_secs(if thorough { 20 } else { 8 }) > budget {
                stop2.store(true, Ordering::Relaxed);
            }
            let g = started2.lock().unwrap();
            for (_, (seed, t)) in g.iter() {
                if t.elapsed() > Duration::from_secs(300) {
                    eprintln!("HARNESS-ERROR: run with seed {seed} exceeded the wall-clock watchdog (300 s)");
                    std::process::exit(2);
                }
            }
            if g.is_empty() && (stop2.load(Ordering::Relaxed) || next2.load(Ordering::Relaxed) >= max_runs) {
                break;
            }
        });
    });

    let mut g = std::mem::take(&mut *agg.lock().unwrap());
    let batch_wall = t0.elapsed().as_secs_f64();

    // harness errors are never violations
    if let Some((seed, v)) = g.violations.iter().find(|(_, v)| v.oracle.starts_with("harness.")) {
        eprintln!("HARNESS-ERROR: seed {seed}: {}", v.detail);
        return 2;
    }

    g.violations.extend(map_violations.iter().cloned());
    let mut by_oracle: BTreeMap<String, u64> = BTreeMap::new();
    for (_, v) in &g.violations {
        *by_oracle.entry(format!("{} [{}]", v.oracle, v.sig)).or_insert(0) += 1;
    }
    if std::env::var("VERIF_SIGS").is_ok() {
        for (seed, v) in &g.violations {
            println!("sigseed {seed} {} [{}]", v.oracle, v.sig);
        }
    }
    for (k, n) in &by_oracle {
        println!("violations by oracle: {k}: {n}");
    }
    let mut replays = vec![];
    let (exit, new_violations, known_seen) = simkit::triage(property, &g.violations, |seed, v| {
        if v.oracle.starts_with("c18.map.") {
            let path = mapdrv::write_replay(seed, v);
            replays.push(path.clone());
            return path;
        }
        let original = gen::plan_for(property, seed);
        // minimisation is time-boxed: quick 6 s per reported oracle, thorough 120 s
        let deadline = Instant::now() + Duration::from_secs(if thorough { 120 } else { 6 });
        let (min, o) = with_capture(|| {
            let min = minimise_until(&original, &v.oracle, Some(deadline));
            let o = run_plan(&min);
            if o.violations.iter().any(|x| x.oracle == v.oracle) {
                (min, o)
            } else {
                let o = run_plan(&original);
                (original.clone(), o)
            }
        });
        let mv = o.violations.iter().find(|x| x.oracle == v.oracle).cloned().unwrap_or(v.clone());
        let doc = json!({
            "engine": "dcsim",
            "property": property,
            "seed": seed,
            "violation": mv,
            "trace_hash": format!("{:016x}", o.summary.hash),
            "plan": min,
            "original_plan": original,
            "fault_trace": fault_trace(&o.out, 64),
            "app_results": summarize(&min, &o)["app_results"],
            "replay": format!("dcsim check {property} --replay <this file>"),
        });
        let path = simkit::write_replay_doc(property, &seed.to_string(), &doc);
        replays.push(path.clone());
        path
    });

    // one (unminimised) replay per further (oracle, signature) pair, so that every class listed in
    // `violations_by_oracle_and_sig` can be reproduced
    let known = simkit::load_known();
    let mut seen_pairs: BTreeSet<(String, String)> = BTreeSet::new();
    let mut extra_replays: Vec<Value> = vec![];
    for (seed, v) in &g.violations {
        if v.oracle.starts_with("c18.map.") || simkit::is_known(&known, v).is_some() {
            continue;
        }
        if !seen_pairs.insert((v.oracle.clone(), v.sig.clone())) || seen_pairs.len() > 12 {
            continue;
        }
        let name = format!("{seed}-{}", v.oracle.replace('.', "_"));
        let plan = gen::plan_for(property, *seed);
        let doc = json!({"engine": "dcsim", "property": property, "seed": seed, "violation": v, "plan": plan, "note": "unminimised plan = f(seed)"});
        let path = simkit::write_replay_doc(property, &format!("{name}-{}", v.sig.replace([':', '<', '>', '='], "_")), &doc);
        extra_replays.push(json!({"oracle": v.oracle, "sig": v.sig, "seed": seed, "replay": path}));
    }

    let wall = t0.elapsed().as_secs_f64();
    let runs_per_hour = if batch_wall > 0.0 { g.runs as f64 * 3600.0 / batch_wall } else { 0.0 };
    let rule = match property {
        "C18" => "plan = f(seed): request/response workload + positional forgeries (byte flip per region, truncate, extend, foreign tag, splice, foreign credentials, synthesised secret-control) in families forge / forge_forget; non-trivial = at least one forged datagram that differs from its original was delivered AND stream bytes were read after the first fault; distinct = hash of the per-datagram (direction, fate, label, kind) sequence plus delivery order. Map driver cases are counted separately (coverage.map_driver).",
        _ => "plan = f(seed): families clean (1/20), sparse loss (1/20: short exchanges, 1-5 single losses at low ordinals, a stream error is a verdict), finite faults (6/10), peer vanished (3/10); non-trivial = (clean/finite) at least one fault fired AND stream bytes were read after it, (vanish) the vanish point was reached while a client task was still running; distinct = hash of the per-datagram (direction, fate, label, kind) sequence plus delivery order",
    };
    let mut coverage = json!({
        "evaluations": g.runs,
        "distinct_nontrivial": g.nontrivial.len(),
        "rule": rule,
        "samples": g.samples,
        "distinct_traces": g.all_sigs.len(),
        "runs_per_hour": runs_per_hour as u64,
        "runs_per_s": (g.runs as f64 / batch_wall.max(0.001)) as u64,
        "seeds": format!("{}..{}", a.seed, a.seed.wrapping_add(g.runs)),
        "sim_time_total_s": (g.sim_ns / 1_000_000_000) as u64,
        "stream_bytes_read": g.bytes_read,
        "datagrams": g.datagrams,
        "families": g.families,
        "faults_fired": g.faults,
        "packet_kinds_on_wire": g.kinds,
        "reach_probes": g.probes,
        "reach_probe_runs": g.probe_runs,
        "app_result_classes": g.end_kinds,
        "max_error_delay_after_vanish_ms": g.max_vanish_err_delay_ms,
        "largest_datagram_bytes": g.max_datagram,
        "observations_not_violations": {"counts": g.observations, "samples": g.observation_samples,
            "note": "streams that ended in an error although only finite faults (loss/dup/reorder/short blackhole) were injected; tolerated by the property (deliver exactly or fail promptly), listed for triage"},
        "components": {
            "real": ["s2n-quic-dc stream send/recv state machines and workers (UDP, bach environment)", "dc packet encoders/decoders (stream, control, secret-control)", "dc crypto (aws-lc AEAD/HMAC), key schedule", "path::secret::Map, entries, sender/receiver key-id state, socket pool + router + accept queue"],
            "stub": ["dc handshake (PSK over QUIC + s2n-tls) replaced by the map's public dc::Endpoint/dc::Path callbacks driven with a plan-derived TLS exporter (simulator and map driver); the pair test_insert_pair inserts first is superseded before any stream opens", "network (bach net + /verif link allocator)", "clock and executor (bach virtual time, single thread)", "map control socket (real std::net::UdpSocket in the crate: StaleKey/ReplayDetected leave the simulation unobserved)"]
        },
        "determinism_selfcheck": {"seeds": det_n, "in_process_rerun_equal": det_inproc_equal, "fresh_process_equal": det_xproc_equal},
        "known_findings_seen": known_seen,
        "violations_by_oracle_and_sig": by_oracle,
        "new_violations": new_violations,
        "replays": replays,
        "replay_per_oracle_and_sig": extra_replays,
    });
    if property == "C18" {
        coverage["forged_delivered_by_kind"] = json!(g.forged_by_kind);
        coverage["forged_delivered_by_mutation"] = json!(g.forged_by_mutation);
        if let Some(m) = &map_part {
            coverage["map_driver"] = m.coverage.clone();
        }
    }
    let assumptions: Vec<&str> = vec![
        "sampling, not proof: a clean batch is evidence only",
        "UDP transport only: dc over TCP is typed on tokio::net::TcpStream and bach has no TCP, so that half of C20 is not exercised",
        "the dc handshake is replaced by the dc::Path callbacks with a path secret derived from the plan (cipher suite AES_128_GCM or AES_256_GCM chosen per seed, in the simulator and in the map driver)",
        "path secrets, keys, credential ids and therefore all stream/control ciphertext are functions of the plan; the trace hash covers (time, src, dst, len, bytes, fate, app results). Only the stateless-reset token inside UnknownPathSecret packets is random (server map signer, no seam): those bytes are excluded from the hash and faults/forgeries are positional",
        "tasks are interleaved by bach's FIFO executor perturbed by planned yields and sub-microsecond delivery order; no preemption inside a poll",
        "StaleKey/ReplayDetected are sent by the map through a real OS socket and therefore never appear on the simulated wire; they are covered by the direct map driver and by synthesised forgeries only",
        "UnknownPathSecret's tag authenticates the credential id only (stateless-reset token): flips in its wire_version/queue_id bytes are not required to be rejected by the oracle; see report",
    ];
    simkit::write_evidence(a, "exploration", coverage, &assumptions, wall, new_violations);
    println!(
        "check {} tier={} seed={} runs={} distinct_nontrivial={} distinct_traces={} sim_time={}s wall={:.1}s (batch {:.1}s incl. self-checks, {:.1} runs/s) violations={} known={} determinism={}x2 in-process + fresh process equal",
        property,
        a.tier,
        a.seed,
        g.runs,
        g.nontrivial.len(),
        g.all_sigs.len(),
        g.sim_ns / 1_000_000_000,
        wall,
        batch_wall,
        g.runs as f64 / batch_wall.max(0.001),
        new_violations,
        known_seen.values().sum::<u64>(),
        det_n,
    );
    if g.runs == 0 {
        eprintln!("HARNESS-ERROR: no runs executed");
        return 2;
    }
    exit
}

pub fn main(args: &[String]) -> i32 {
    if let Some(a) = simkit::parse_check_args(args) {
        if a.property != "C18" && a.property != "C20" {
            eprintln!("dcsim: unknown property {}", a.property);
            return 2;
        }
        if let Some(p) = &a.replay {
            return replay(p);
        }
        return check(&a);
    }
    let mut it = args.iter();
    match it.next().map(|s| s.as_str()).unwrap_or("") {
        "replay" => replay(it.next().map(|s| s.as_str()).unwrap_or("")),
        "hashes" => {
            let prop = it.next().cloned().unwrap_or_default();
            let base: u64 = it.next().and_then(|s| s.parse().ok()).unwrap_or(0);
            let n: u64 = it.next().and_then(|s| s.parse().ok()).unwrap_or(8);
            let rest: Vec<String> = it.cloned().collect();
            let threads = rest.iter().position(|s| s == "--threads").and_then(|i| rest.get(i + 1)).and_then(|s| s.parse().ok()).unwrap_or(16usize);
            let mut bad = 0;
            for (seed, h1, h2) in selfcheck_hashes_threads(&prop, base, n, threads) {
                if h1 != h2 {
                    println!("MISMATCH {seed} {h1:016x} {h2:016x}");
                    bad += 1;
                } else {
                    println!("H {seed} {h1:016x}");
                }
            }
            if bad > 0 {
                2
            } else {
                0
            }
        }
        "show" => {
            let prop = it.next().cloned().unwrap_or_default();
            let arg = it.next().cloned().unwrap_or_default();
            let plan = if let Ok(seed) = arg.parse::<u64>() {
                gen::plan_for(&prop, seed)
            } else {
                let s = std::fs::read_to_string(&arg).expect("replay file");
                let doc: Value = serde_json::from_str(&s).expect("json");
                serde_json::from_value(doc["plan"].clone()).expect("plan")
            };
            let rest: Vec<String> = it.cloned().collect();
            if rest.iter().any(|s| s == "--plan") {
                println!("{}", serde_json::to_string_pretty(&plan).unwrap());
            }
            let t = Instant::now();
            let o = with_capture(|| run_plan(&plan));
            println!("family {} wall {:?} sim {} ms datagrams {} capped {} panic {:?}", plan.family, t.elapsed(), o.out.end_ns / 1_000_000, o.out.log.len(), o.out.capped, o.out.panic);
            println!("fired {:?}\nkinds {:?}\nprobes {:?}", o.out.stats.fired, o.out.stats.kinds_seen, o.summary.probes);
            println!("events {:?}\nend {:?}", o.out.events, o.out.end);
            println!("vanish_t {:?} last_rx {:?} client_ips {:?}", o.out.vanish_t_ns, o.out.last_rx_ns, o.out.client_ips);
            for (k, a) in &o.out.app.actors {
                println!("  {k:?} {} bytes={} ops={} end={:?} last_op={}@{}us t=[{}..{}]us mismatch={:?}", run::role_name(k.2), a.bytes, a.ops, a.end, a.last_op, a.last_op_start_ns / 1000, a.t_start_ns / 1000, a.t_end_ns / 1000, a.mismatch);
            }
            println!("ghosts {:?} accepted {}", o.out.app.ghosts, o.out.app.accepted);
            if rest.iter().any(|s| s == "--log") {
                for r in &o.out.log {
                    println!("  {:>10}us -> {:>10}us {} #{} len {} {} fate {} label {} known_id {} equiv {} first_flight {} pn {:?} retx {} space {} {:?}", r.t_send_ns / 1000, r.t_deliver_ns / 1000, if r.dir == 0 { "c2s" } else { "s2c" }, r.ord, r.len, crate::link::kind_name(r.kind), r.fate, r.label, r.known_id, r.equiv, r.first_flight, r.pkt.map(|p| (p.f[1], p.f[2], p.f[3])), r.retx, r.space, r.note);
                }
            }
            println!("nontrivial {} hash {:016x}", o.summary.nontrivial, o.summary.hash);
            for v in &o.violations {
                println!("violation {} :: {}", v.oracle, v.detail);
            }
            for v in &o.observations {
                println!("observation {} :: {}", v.oracle, v.detail);
            }
            println!("heap_overruns {:?} max datagram {:?}", o.out.heap_overruns, o.out.stats.max_len);
            println!("rejects: control_seen {} control_unauthenticated {} stream {}", o.out.app.rejects.control_seen, o.out.app.rejects.control.len(), o.out.app.rejects.stream.len());
            for (e, pk) in o.out.app.rejects.stream.iter().take(std::env::var("VERIF_REJECTS").ok().and_then(|s| s.parse().ok()).unwrap_or(6usize)) {
                println!("  stream reject: {e} :: {pk}");
            }
            println!("  acked identities: {}", o.out.app.rejects.acked.len());
            if let Ok(f) = std::env::var("VERIF_PASSES_PN") {
                for k in o.out.app.rejects.acked.iter().filter(|k| k.0.to_string() == f) {
                    println!("  acked {k:?}");
                }
            }
            let multi = o.out.app.rejects.passes.iter().filter(|(_, n)| **n > 1).count();
            println!("  stream processing passes: {} identities, {} processed more than once", o.out.app.rejects.passes.len(), multi);
            if let Ok(f) = std::env::var("VERIF_PASSES_PN") {
                for (k, n) in o.out.app.rejects.passes.iter().filter(|(k, _)| k.1.to_string() == f) {
                    println!("  passes {k:?} = {n}");
                }
            }
            for c in o.out.app.rejects.control.iter().take(6) {
                println!("  control reject: {c:?}");
            }
            0
        }
        "min" => {
            let prop = it.next().cloned().unwrap_or_default();
            let seed: u64 = it.next().and_then(|s| s.parse().ok()).unwrap_or(0);
            let oracle_id = it.next().cloned().unwrap_or_default();
            let original = gen::plan_for(&prop, seed);
            let (min, o) = with_capture(|| {
                let min = minimise(&original, &oracle_id);
                let o = run_plan(&min);
                (min, o)
            });
            let doc = json!({"engine": "dcsim", "property": prop, "seed": seed, "violation": o.violations.iter().find(|v| v.oracle == oracle_id), "trace_hash": format!("{:016x}", o.summary.hash), "plan": min, "original_plan": original, "fault_trace": fault_trace(&o.out, 64), "app_results": summarize(&min, &o)["app_results"]});
            let path = simkit::write_replay_doc(&prop, &format!("{seed}-min"), &doc);
            println!("minimised plan written to {path}");
            for v in &o.violations {
                println!("violation {} :: {}", v.oracle, v.detail);
            }
            0
        }
        "mapdrv" => {
            let seed: u64 = it.next().and_then(|s| s.parse().ok()).unwrap_or(1);
            let n: u64 = it.next().and_then(|s| s.parse().ok()).unwrap_or(10);
            mapdrv::show(seed, n)
        }
        _ => {
            eprintln!("usage: dcsim check <C18|C20> [--tier quick|thorough] [--seed N] [--runs N] [--budget-s S] [--threads N] [--replay F] | replay <file> | show <ID> <seed|file> [--plan] [--log] | hashes <ID> <base> <n> | mapdrv <seed> <n>");
            2
        }
    }
}
