//! Link-time seams for code that has no clock / randomness seam of its own (quiche, BoringSSL).
//!
//! * `clock_gettime`: defined here, so every statically linked caller (Rust std's
//!   `Instant::now()`, C code) binds to it.  While a thread-local virtual time is set
//!   (only around calls into quiche), CLOCK_MONOTONIC* report `BASE + virtual time`;
//!   otherwise the call is forwarded to the real function (dlsym RTLD_NEXT).
//! * `RAND_bytes`: quiche draws packet-number skips, PATH_CHALLENGE data etc. from
//!   BoringSSL's RNG.  While a thread-local seeded stream is set the bytes come from it
//!   (STUB: randomness of the third-party peer); otherwise from getrandom(2).

use std::cell::Cell;

/// virtual monotonic time = BASE_S seconds + simulated nanoseconds (Instant arithmetic inside
/// quiche may subtract durations; a large base keeps that away from zero)
pub const BASE_S: i64 = 1_000_000;

thread_local! {
    static VNOW_NS: Cell<Option<u64>> = const { Cell::new(None) };
    static RAND_STATE: Cell<Option<u64>> = const { Cell::new(None) };
    static RAND_DRAWN: Cell<u64> = const { Cell::new(0) };
}

type ClockFn = unsafe extern "C" fn(libc::clockid_t, *mut libc::timespec) -> libc::c_int;

fn real_clock_gettime() -> Option<ClockFn> {
    use std::sync::OnceLock;
    static REAL: OnceLock<usize> = OnceLock::new();
    let p = *REAL.get_or_init(|| unsafe {
        libc::dlsym(libc::RTLD_NEXT, c"clock_gettime".as_ptr()) as usize
    });
    if p == 0 {
        None
    } else {
        Some(unsafe { std::mem::transmute::<usize, ClockFn>(p) })
    }
}

/// # Safety
/// same contract as clock_gettime(2)
#[no_mangle]
pub unsafe extern "C" fn clock_gettime(id: libc::clockid_t, ts: *mut libc::timespec) -> libc::c_int {
    let monotonic = matches!(
        id,
        libc::CLOCK_MONOTONIC | libc::CLOCK_MONOTONIC_RAW | libc::CLOCK_MONOTONIC_COARSE | libc::CLOCK_BOOTTIME
    );
    if monotonic {
        // try_with: the thread-local may be gone during thread teardown
        if let Ok(Some(ns)) = VNOW_NS.try_with(|v| v.get()) {
            if !ts.is_null() {
                (*ts).tv_sec = BASE_S + (ns / 1_000_000_000) as i64;
                (*ts).tv_nsec = (ns % 1_000_000_000) as i64;
            }
            return 0;
        }
    }
    match real_clock_gettime() {
        Some(f) => f(id, ts),
        None => libc::syscall(libc::SYS_clock_gettime, id, ts) as libc::c_int,
    }
}

/// # Safety
/// `buf` must be valid for `len` bytes
#[no_mangle]
pub unsafe extern "C" fn RAND_bytes(buf: *mut u8, len: libc::size_t) -> libc::c_int {
    if len == 0 {
        return 1;
    }
    let out = std::slice::from_raw_parts_mut(buf, len);
    let seeded = RAND_STATE.try_with(|s| {
        if let Some(mut st) = s.get() {
            for c in out.chunks_mut(8) {
                st = st.wrapping_add(0x9e3779b97f4a7c15);
                let v = simkit::mix64(st).to_le_bytes();
                c.copy_from_slice(&v[..c.len()]);
            }
            s.set(Some(st));
            true
        } else {
            false
        }
    });
    if let Ok(true) = seeded {
        let _ = RAND_DRAWN.try_with(|d| d.set(d.get() + len as u64));
        return 1;
    }
    let mut off = 0;
    while off < len {
        let r = libc::getrandom(buf.add(off) as *mut libc::c_void, len - off, 0);
        if r <= 0 {
            return 0;
        }
        off += r as usize;
    }
    1
}

pub fn set_virtual_now(ns: Option<u64>) {
    VNOW_NS.with(|v| v.set(ns));
}

pub fn virtual_now() -> Option<u64> {
    VNOW_NS.with(|v| v.get())
}

pub fn seed_rand(seed: Option<u64>) {
    RAND_STATE.with(|s| s.set(seed.map(|x| simkit::mix64(x ^ 0x7a11_5eed))));
    RAND_DRAWN.with(|d| d.set(0));
}

pub fn rand_drawn() -> u64 {
    RAND_DRAWN.with(|d| d.get())
}

/// Runs `f` (a call into quiche) with `Instant::now()` == BASE + `now_ns`.
#[inline]
pub fn at<T>(now_ns: u64, f: impl FnOnce() -> T) -> T {
    let prev = VNOW_NS.with(|v| v.replace(Some(now_ns)));
    let r = f();
    VNOW_NS.with(|v| v.set(prev));
    r
}

/// Self-test used by `interop selftest` and at the start of every check.
pub fn selftest() -> Result<(), String> {
    use std::time::{Duration, Instant};
    let real0 = Instant::now();
    let a = at(5_000_000_000, Instant::now);
    let b = at(5_000_000_000, Instant::now);
    let c = at(5_000_123_456, Instant::now);
    let d = at(65_000_123_456, Instant::now);
    if a != b {
        return Err("virtual clock: two reads at the same virtual instant differ".into());
    }
    if c.duration_since(a) != Duration::from_nanos(123_456) {
        return Err(format!("virtual clock: advance 123456 ns seen as {:?}", c.duration_since(a)));
    }
    if d.duration_since(c) != Duration::from_secs(60) {
        return Err(format!("virtual clock: advance 60 s seen as {:?}", d.duration_since(c)));
    }
    let real1 = Instant::now();
    if real1.duration_since(real0) > Duration::from_secs(5) {
        return Err("real clock disturbed by the interposer".into());
    }
    // other threads are unaffected
    set_virtual_now(Some(1));
    let other = std::thread::spawn(|| (virtual_now(), Instant::now())).join().unwrap();
    set_virtual_now(None);
    if other.0.is_some() {
        return Err("virtual clock leaked into another thread".into());
    }
    // seeded randomness
    let draw = || {
        let mut x = [0u8; 24];
        unsafe { RAND_bytes(x.as_mut_ptr(), x.len()) };
        x
    };
    seed_rand(Some(7));
    let r1 = draw();
    seed_rand(Some(7));
    let r2 = draw();
    seed_rand(None);
    let r3 = draw();
    let r4 = draw();
    if r1 != r2 || r3 == r4 || r1 == r3 {
        return Err("RAND_bytes interposer: seeded stream not repeatable or unseeded stream constant".into());
    }
    Ok(())
}
