//! `s2n-quic-transport::wakeup_queue` — the module is private in its crate, so the *source
//! file itself* is compiled into the harness (`#[path]`, no copy, no edit): real code, std
//! `Mutex`/atomics.  Miri only (no shuttle hook for std primitives).
//!
//! k handle threads call `wakeup()` for r rounds each (waiting until the queue thread
//! acknowledged the previous one with `wakeup_handled()`); the queue thread parks in
//! `poll_pending_wakeups`.  Oracle: every wakeup is delivered exactly once (k*r deliveries, no
//! duplicates while one is pending) and the queue thread is always released (else deadlock).

#[allow(unexpected_cfgs, unused, clippy::all)]
#[path = "../repo/quic/s2n-quic-transport/src/wakeup_queue.rs"]
mod wakeup_queue;

use self::wakeup_queue::WakeupQueue;
use super::{ev, fail, finish, join, rt, Log, Outcome, Scenario};
use std::{
    collections::VecDeque,
    future::poll_fn,
    sync::{
        atomic::{AtomicU32, Ordering},
        Arc,
    },
    task::Poll,
};

pub fn scenarios() -> Vec<Scenario> {
    vec![Scenario::new("wakeupq.rounds", "C17", run)]
}

fn run() -> Outcome {
    let sig = "wakeupq.rounds";
    let k = rt::range(1, 2) as usize;
    let rounds = rt::range(1, 2) as u32;
    let clock = Arc::new(rt::Clock::new());
    let mut queue = WakeupQueue::<usize>::new();
    let handles: Vec<_> = (0..k).map(|i| Arc::new(queue.create_wakeup_handle(i))).collect();
    // per handle: number of wakeups acknowledged by the queue thread
    let acked: Arc<Vec<AtomicU32>> = Arc::new((0..k).map(|_| AtomicU32::new(0)).collect());

    let mut ts = vec![];
    for (i, h) in handles.iter().cloned().enumerate() {
        let (acked, mut log) = (acked.clone(), Log::new(i as u8, &clock));
        ts.push(rt::spawn(move || {
            for r in 0..rounds {
                h.wakeup();
                log.ev(ev::WAKE, r);
                while acked[i].load(Ordering::Acquire) <= r {
                    rt::spin();
                }
            }
            log
        }));
    }
    let tq = {
        let (handles, acked, mut log) = (handles.clone(), acked.clone(), Log::new(k as u8, &clock));
        rt::spawn(move || {
            let total = k as u32 * rounds;
            let mut delivered = 0u32;
            let mut swap = VecDeque::new();
            while delivered < total {
                rt::block_on(poll_fn(|cx| {
                    queue.poll_pending_wakeups(&mut swap, cx);
                    if swap.is_empty() {
                        log.ev(ev::PEND_C, delivered);
                        Poll::Pending
                    } else {
                        Poll::Ready(())
                    }
                }));
                let mut seen = vec![false; k];
                for id in swap.drain(..) {
                    if seen[id] {
                        fail("c17.wakeupq.duplicate", sig, format!("handle {id} delivered twice in one batch"));
                    }
                    seen[id] = true;
                    log.ev(ev::GOT, id as u32);
                    delivered += 1;
                    handles[id].wakeup_handled();
                    acked[id].fetch_add(1, Ordering::Release);
                }
            }
            log
        })
    };
    let mut logs = vec![];
    for t in ts {
        logs.push(join(t));
    }
    logs.push(join(tq));
    finish(format!("handles={k} rounds={rounds}"), logs, super::default_contended)
}
