//! Byzantine peer: rewrites an honest endpoint's cleartext before encryption (filled in
//! by the C04 work; the state machine lives here so the interceptor stays simple).

use crate::{obs::Space, plan::ByzRule};

pub struct ByzState {
    pub rules: Vec<ByzRule>,
    pub is_client: bool,
}

impl ByzState {
    pub fn new(rules: Vec<ByzRule>, is_client: bool) -> Self {
        ByzState { rules, is_client }
    }
    pub fn active(&self) -> bool {
        !self.rules.is_empty()
    }
    pub fn on_rx(&mut self, _conn: u64, _space: Space, _payload: &[u8]) {}
    pub fn on_tx(
        &mut self,
        _conn: u64,
        _space: Space,
        _pn: u64,
        _payload: &[u8],
        _capacity: usize,
    ) -> Option<(Vec<u8>, String)> {
        None
    }
}
