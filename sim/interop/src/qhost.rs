//! quiche as one more simulated host.  quiche is sans-IO: its socket is the testing provider's
//! `Socket`, its timer a virtual-time sleep until `conn.timeout()`, and its `Instant::now()`
//! is the interposed virtual clock (every call into quiche goes through `clock::at`).

use crate::{
    clock,
    net::{now_ns, SharedNet},
    plan::*,
    run::{on_read, Coord, CoordChanged, QErr, SharedApp, ALPN},
};
use core::{future::Future, task::Poll, time::Duration};
use s2n_quic::provider::io::testing as io;
use s2n_quic_core::{crypto::tls::testing::certificates, inet::ExplicitCongestionNotification};
use simkit::{hashn, payload_fill};
use std::{net::SocketAddr, sync::Arc, time::Instant};

/// PEM files for quiche's file-based loaders: written once per process
fn cert_files() -> &'static (String, String) {
    use std::sync::OnceLock;
    static FILES: OnceLock<(String, String)> = OnceLock::new();
    FILES.get_or_init(|| {
        let dir = std::env::temp_dir().join(format!("interop-certs-{}", std::process::id()));
        std::fs::create_dir_all(&dir).expect("temp dir for certificates");
        let c = dir.join("cert.pem");
        let k = dir.join("key.pem");
        std::fs::write(&c, certificates::CERT_PKCS1_PEM).expect("write cert");
        std::fs::write(&k, certificates::KEY_PKCS1_PEM).expect("write key");
        (c.to_string_lossy().into_owned(), k.to_string_lossy().into_owned())
    })
}

pub fn cleanup_cert_files() {
    let dir = std::env::temp_dir().join(format!("interop-certs-{}", std::process::id()));
    let _ = std::fs::remove_dir_all(dir);
}

fn cid_bytes(key: u64, n: u64, len: usize) -> Vec<u8> {
    let mut v = vec![0u8; len];
    for (i, c) in v.chunks_mut(8).enumerate() {
        let w = hashn(key, &[n, i as u64]).to_le_bytes();
        c.copy_from_slice(&w[..c.len()]);
    }
    v
}

fn config_of(plan: &Plan) -> quiche::Config {
    let q = &plan.quiche;
    let mut c = quiche::Config::new(quiche::PROTOCOL_VERSION).expect("quiche config");
    c.set_application_protos(&[ALPN]).expect("alpn");
    if plan.role == Role::S2nClient {
        let (cert, key) = cert_files();
        c.load_cert_chain_from_pem_file(cert).expect("quiche cert");
        c.load_priv_key_from_pem_file(key).expect("quiche key");
    }
    // certificate validation is not part of the property (the in-tree quiche test does the same)
    c.verify_peer(false);
    c.grease(false);
    c.set_max_idle_timeout(q.idle_timeout_ms);
    c.set_max_recv_udp_payload_size(q.max_recv_udp as usize);
    c.set_max_send_udp_payload_size(q.max_send_udp as usize);
    c.set_initial_max_data(q.initial_max_data);
    c.set_initial_max_stream_data_bidi_local(q.bidi_local);
    c.set_initial_max_stream_data_bidi_remote(q.bidi_remote);
    c.set_initial_max_stream_data_uni(q.uni);
    c.set_initial_max_streams_bidi(q.max_streams_bidi);
    c.set_initial_max_streams_uni(q.max_streams_uni);
    c.set_ack_delay_exponent(q.ack_delay_exponent);
    c.set_max_ack_delay(q.max_ack_delay_ms);
    c.set_active_connection_id_limit(q.active_cid_limit);
    c.set_disable_active_migration(q.disable_migration);
    c.set_cc_algorithm(match q.cc {
        0 => quiche::CongestionControlAlgorithm::Reno,
        1 => quiche::CongestionControlAlgorithm::CUBIC,
        _ => quiche::CongestionControlAlgorithm::Bbr2Gcongestion,
    });
    // the host loop sends as soon as quiche hands out a datagram: no pacing release times
    c.enable_pacing(false);
    c.discover_pmtu(q.discover_pmtu);
    c.set_max_connection_window(q.max_connection_window);
    c.set_max_stream_window(q.max_stream_window);
    c.set_initial_rtt(Duration::from_millis(q.initial_rtt_ms.max(1)));
    c.set_enable_send_streams_blocked(q.send_streams_blocked);
    c
}

struct QStream {
    id: u64,
    by_quiche: bool,
    /// bytes quiche sends on it (None: receive-only for quiche)
    send_total: Option<u64>,
    sent: u64,
    fin_sent: bool,
    /// bytes quiche expects (None: send-only for quiche)
    recv_expected: bool,
    read: u64,
    eof: bool,
    /// quiche-opened: first stream_send done; s2n-opened: seen
    opened: bool,
    open_delay_ns: u64,
    failed: bool,
}

pub struct QHost {
    plan: Arc<Plan>,
    app: SharedApp,
    net: SharedNet,
    coord: Coord,
    sock: io::Socket,
    local: SocketAddr,
    /// Some = quiche is the client
    peer: Option<SocketAddr>,
    streams: Vec<QStream>,
    /// earliest instant the next quiche-opened stream may be opened
    next_open_ns: u64,
    wake_ns: Option<u64>,
    t0: Option<(u64, Instant)>,
    /// server role: the client's original destination connection id
    odcid: Option<Vec<u8>>,
    iterations: u64,
}

enum Wake {
    Packet(SocketAddr, Vec<u8>),
    Timer,
    Coord,
}

impl QHost {
    pub fn new(plan: Arc<Plan>, app: SharedApp, net: SharedNet, coord: Coord, sock: io::Socket, peer: Option<SocketAddr>) -> Self {
        let local = sock.local_addr().unwrap();
        let mut streams = vec![];
        for (id, p) in stream_ids(&plan) {
            let by_quiche = p.opener == Side::Quiche;
            let send_total = if by_quiche {
                Some(p.fwd)
            } else if p.bidi {
                Some(p.rev)
            } else {
                None
            };
            let recv_expected = !by_quiche || p.bidi;
            if let Some(t) = send_total {
                app.lock().unwrap().stream(id, Side::Quiche).planned = t;
            }
            streams.push(QStream {
                id,
                by_quiche,
                send_total,
                sent: 0,
                fin_sent: false,
                recv_expected,
                read: 0,
                eof: false,
                opened: false,
                open_delay_ns: p.open_delay_us * 1000,
                failed: false,
            });
        }
        QHost { plan, app, net, coord, sock, local, peer, streams, next_open_ns: 0, wake_ns: None, t0: None, odcid: None, iterations: 0 }
    }

    /// every call into quiche happens at the current virtual instant
    fn q<T>(&mut self, f: impl FnOnce() -> T) -> T {
        let now = now_ns();
        // self-check: Instant::now() advances exactly with virtual time
        let i = clock::at(now, Instant::now);
        match self.t0 {
            None => self.t0 = Some((now, i)),
            Some((n0, i0)) => {
                if i.duration_since(i0) != Duration::from_nanos(now - n0) {
                    self.app.lock().unwrap().harness_errors.push(format!(
                        "virtual clock: Instant advanced {:?} while virtual time advanced {} ns",
                        i.duration_since(i0),
                        now - n0
                    ));
                }
            }
        }
        self.app.lock().unwrap().q.clock_checks += 1;
        clock::at(now, f)
    }

    fn note(&self, s: String) {
        self.app.lock().unwrap().note(s);
    }

    fn send_to(&self, to: SocketAddr, bytes: &[u8]) {
        let _ = self.sock.send_to(to, ExplicitCongestionNotification::NotEct, bytes.to_vec());
    }

    async fn wait(&self, timeout: Option<Duration>, cap_ns: u64) -> Wake {
        let now = now_ns();
        let mut until = cap_ns.saturating_sub(now);
        if let Some(t) = timeout {
            until = until.min(t.as_nanos() as u64);
        }
        if let Some(w) = self.wake_ns {
            until = until.min(w.saturating_sub(now));
        }
        let mut timer = Box::pin(io::time::delay(Duration::from_nanos(until)));
        let mut changed = Box::pin(CoordChanged { coord: self.coord.clone(), seen: self.coord.version() });
        core::future::poll_fn(|cx| {
            if let Poll::Ready(r) = self.sock.poll_recv_from(cx) {
                return Poll::Ready(match r {
                    Ok((from, _ecn, payload)) => Wake::Packet(from, payload),
                    // the network was closed: the executor is shutting down
                    Err(_) => Wake::Timer,
                });
            }
            if timer.as_mut().poll(cx).is_ready() {
                return Poll::Ready(Wake::Timer);
            }
            if changed.as_mut().poll(cx).is_ready() {
                return Poll::Ready(Wake::Coord);
            }
            Poll::Pending
        })
        .await
    }

    /// server role: wait for an Initial, optionally answer with Retry, then accept
    async fn accept(&mut self, config: &mut quiche::Config, cap_ns: u64) -> Option<(quiche::Connection, SocketAddr, Vec<u8>)> {
        let plan = self.plan.clone();
        let key = hashn(plan.rand_key, &[0x0c1d]);
        let mut out = vec![0u8; 2048];
        loop {
            if now_ns() >= cap_ns || self.coord.s2n_closed() {
                return None;
            }
            let (from, payload) = match self.wait(None, cap_ns).await {
                Wake::Packet(f, p) => (f, p),
                _ => continue,
            };
            let mut copy = payload.clone();
            let hdr = match self.q(|| quiche::Header::from_slice(&mut copy, quiche::MAX_CONN_ID_LEN)) {
                Ok(h) => h,
                Err(e) => {
                    self.note(format!("quiche server: unparsable first datagram: {e:?}"));
                    continue;
                }
            };
            if hdr.ty != quiche::Type::Initial {
                continue;
            }
            if !quiche::version_is_supported(hdr.version) {
                if let Ok(n) = self.q(|| quiche::negotiate_version(&hdr.scid, &hdr.dcid, &mut out)) {
                    self.send_to(from, &out[..n]);
                }
                continue;
            }
            let cid_len = plan.quiche.cid_len as usize;
            let token = hdr.token.clone().unwrap_or_default();
            let (scid, odcid) = if plan.quiche.retry {
                if token.is_empty() {
                    // stateless retry (token = tag + original dcid, as in quiche's example server)
                    let new_scid = cid_bytes(key, 100, cid_len);
                    let mut tok = b"interop".to_vec();
                    tok.extend_from_slice(&hdr.dcid);
                    let new_scid = quiche::ConnectionId::from_vec(new_scid);
                    match self.q(|| quiche::retry(&hdr.scid, &hdr.dcid, &new_scid, &tok, hdr.version, &mut out)) {
                        Ok(n) => {
                            self.send_to(from, &out[..n]);
                            self.app.lock().unwrap().q.retry_sent = true;
                        }
                        Err(e) => self.note(format!("quiche retry failed: {e:?}")),
                    }
                    continue;
                }
                if token.len() < 7 || &token[..7] != b"interop" {
                    self.note("quiche server: invalid token".into());
                    continue;
                }
                // after a Retry the client's destination id is the one we chose
                (hdr.dcid.to_vec(), Some(quiche::ConnectionId::from_vec(token[7..].to_vec())))
            } else {
                (cid_bytes(key, 0, cid_len), None)
            };
            let scid = quiche::ConnectionId::from_vec(scid);
            let local = self.local;
            match self.q(|| quiche::accept(&scid, odcid.as_ref(), local, from, config)) {
                Ok(c) => {
                    self.odcid = Some(hdr.dcid.to_vec());
                    return Some((c, from, payload));
                }
                Err(e) => {
                    self.app.lock().unwrap().harness_errors.push(format!("quiche::accept failed: {e:?}"));
                    return None;
                }
            }
        }
    }

    /// What a quiche application does before `recv`: route by destination connection id.  A
    /// datagram whose id is not (or no longer) one of this connection's source ids - e.g. a
    /// reordered packet that still carries an id the peer has retired since - is not handed to
    /// the connection (quiche's example server ignores such packets); `Connection::recv` treats
    /// an unknown id as a protocol violation because it expects this demultiplexing.
    fn routable(&mut self, conn: &mut quiche::Connection, payload: &[u8]) -> bool {
        let cid_len = self.q(|| conn.source_id().len());
        let mut copy = payload.to_vec();
        let hdr = match self.q(|| quiche::Header::from_slice(&mut copy, cid_len)) {
            Ok(h) => h,
            // let quiche count it as an invalid packet
            Err(_) => return true,
        };
        if self.q(|| conn.source_ids().any(|c| *c == hdr.dcid)) {
            return true;
        }
        // server: Initial packets keep the client-chosen id until the client has seen ours
        if let Some(od) = &self.odcid {
            if hdr.ty != quiche::Type::Short && hdr.dcid.as_ref() == od.as_slice() {
                return true;
            }
        }
        false
    }

    fn feed(&mut self, conn: &mut quiche::Connection, from: SocketAddr, mut payload: Vec<u8>) {
        if !self.routable(conn, &payload) {
            *self.app.lock().unwrap().q.recv_errs.entry("unroutable_dcid(dropped by the demultiplexer)".into()).or_insert(0) += 1;
            self.note(format!("quiche host: datagram of {} bytes for an unknown/retired connection id dropped", payload.len()));
            return;
        }
        let local = self.local;
        let r = self.q(|| conn.recv(&mut payload, quiche::RecvInfo { from, to: local }));
        match r {
            Ok(_) | Err(quiche::Error::Done) => {}
            Err(e) => {
                *self.app.lock().unwrap().q.recv_errs.entry(format!("{e:?}")).or_insert(0) += 1;
                self.note(format!("quiche recv error {e:?} (datagram of {} bytes)", payload.len()));
            }
        }
    }

    fn app_logic(&mut self, conn: &mut quiche::Connection) {
        let now = now_ns();
        let plan = self.plan.clone();
        let established = self.q(|| conn.is_established());
        if !established {
            return;
        }
        {
            let mut a = self.app.lock().unwrap();
            if !a.q.established {
                a.q.established = true;
                a.q.t_established_ns = Some(now);
                a.last_progress_ns = now;
            }
        }
        // spare connection ids
        if plan.quiche.issue_cids {
            let key = hashn(plan.rand_key, &[0x0c1d]);
            loop {
                let left = self.q(|| conn.scids_left());
                if left == 0 {
                    break;
                }
                let n = self.app.lock().unwrap().q.cids_issued + 1;
                let cid = quiche::ConnectionId::from_vec(cid_bytes(key, n, plan.quiche.cid_len as usize));
                let token = (hashn(key, &[n, 0x70]) as u128) << 64 | hashn(key, &[n, 0x71]) as u128;
                match self.q(|| conn.new_scid(&cid, token, false)) {
                    Ok(_) => self.app.lock().unwrap().q.cids_issued = n,
                    Err(e) => {
                        self.note(format!("quiche new_scid: {e:?}"));
                        break;
                    }
                }
            }
        }
        // reads
        let readable: Vec<u64> = self.q(|| conn.readable().collect());
        let mut buf = vec![0u8; plan.quiche.read_buf.max(1) as usize];
        for id in readable {
            let Some(ix) = self.streams.iter().position(|s| s.id == id && s.recv_expected) else {
                let mut a = self.app.lock().unwrap();
                if !a.q.unexpected_streams.contains(&id) {
                    a.q.unexpected_streams.push(id);
                }
                continue;
            };
            if !self.streams[ix].opened && !self.streams[ix].by_quiche {
                self.streams[ix].opened = true;
            }
            loop {
                let r = self.q(|| conn.stream_recv(id, &mut buf));
                match r {
                    Ok((n, fin)) => {
                        let off = self.streams[ix].read;
                        on_read(&self.app, &self.net, id, Side::S2n, plan.data_key, off, &buf[..n]);
                        self.streams[ix].read += n as u64;
                        if fin {
                            self.streams[ix].eof = true;
                            let mut a = self.app.lock().unwrap();
                            let s = a.stream(id, Side::S2n);
                            s.eof = true;
                            s.t_eof_ns = now;
                            break;
                        }
                        if n == 0 {
                            break;
                        }
                    }
                    Err(quiche::Error::Done) => break,
                    Err(e) => {
                        self.streams[ix].eof = true;
                        self.streams[ix].failed = true;
                        self.app.lock().unwrap().stream(id, Side::S2n).recv_err = Some(format!("{e:?}"));
                        break;
                    }
                }
            }
        }
        // writes
        self.wake_ns = None;
        let chunk = plan.quiche.send_chunk.max(1) as u64;
        for ix in 0..self.streams.len() {
            let Some(total) = self.streams[ix].send_total else { continue };
            if self.streams[ix].fin_sent {
                continue;
            }
            let id = self.streams[ix].id;
            if self.streams[ix].by_quiche && !self.streams[ix].opened {
                // open in plan order, after the planned delay
                let earlier_unopened = self.streams[..ix].iter().any(|s| s.by_quiche && !s.opened);
                if earlier_unopened {
                    continue;
                }
                let at = self.next_open_ns + self.streams[ix].open_delay_ns;
                if now < at {
                    self.wake_ns = Some(self.wake_ns.map_or(at, |w| w.min(at)));
                    continue;
                }
            } else if !self.streams[ix].opened {
                // a stream the peer opens: nothing may be sent before it exists (RFC 9000 19.8)
                continue;
            }
            loop {
                let sent = self.streams[ix].sent;
                let mut n = chunk.min(total - sent) as usize;
                // like a real quiche application, write only when the stream can take data: a
                // write attempt on a blocked stream re-arms DATA_BLOCKED / STREAM_DATA_BLOCKED,
                // and retrying on every wake-up turns that into a ping-pong storm
                if n > 0 {
                    match self.q(|| conn.stream_capacity(id)) {
                        Ok(0) => break,
                        // offering one byte more than fits keeps quiche's "blocked" signalling
                        // without generating payload that cannot be accepted anyway
                        Ok(cap) => n = n.min(cap + 1),
                        // not created yet (first write opens it) / let stream_send report it
                        Err(_) => n = n.min(65536),
                    }
                }
                let fin = sent + n as u64 == total;
                let mut data = vec![0u8; n];
                payload_fill(plan.data_key, 0, id, Side::Quiche.idx(), sent, &mut data);
                let r = self.q(|| conn.stream_send(id, &data, fin));
                match r {
                    Ok(w) => {
                        if !self.streams[ix].opened {
                            self.streams[ix].opened = true;
                            self.next_open_ns = now;
                        }
                        self.streams[ix].sent += w as u64;
                        let done = w == n && fin;
                        {
                            let mut a = self.app.lock().unwrap();
                            a.last_progress_ns = now;
                            let s = a.stream(id, Side::Quiche);
                            s.written = sent + w as u64;
                            s.fin_sent = done;
                        }
                        if done {
                            self.streams[ix].fin_sent = true;
                            break;
                        }
                        if w < n {
                            break;
                        }
                    }
                    Err(quiche::Error::Done) | Err(quiche::Error::StreamLimit) => break,
                    Err(e) => {
                        self.streams[ix].fin_sent = true;
                        self.streams[ix].failed = true;
                        self.app.lock().unwrap().stream(id, Side::Quiche).send_err = Some(format!("{e:?}"));
                        break;
                    }
                }
            }
        }
        // done?
        let all = self.streams.iter().all(|s| (s.send_total.is_none() || s.fin_sent) && (!s.recv_expected || s.eof));
        if all && !self.coord.q_done() {
            self.coord.set_q_done();
        }
        if all && plan.close_by == Side::Quiche && self.coord.s2n_done() {
            let called = self.app.lock().unwrap().q.t_close_called_ns.is_some();
            if !called {
                let r = self.q(|| conn.close(true, plan.close_code, b"planned"));
                self.note(format!("quiche close({}) -> {r:?}", plan.close_code));
                self.app.lock().unwrap().q.t_close_called_ns = Some(now);
            }
        }
    }

    fn flush(&mut self, conn: &mut quiche::Connection, out: &mut [u8]) {
        loop {
            let r = self.q(|| conn.send(out));
            match r {
                Ok((n, info)) => self.send_to(info.to, &out[..n]),
                Err(quiche::Error::Done) => break,
                Err(e) => {
                    *self.app.lock().unwrap().q.send_errs.entry(format!("{e:?}")).or_insert(0) += 1;
                    self.note(format!("quiche send error {e:?}"));
                    break;
                }
            }
        }
    }

    fn snapshot(&mut self, conn: &mut quiche::Connection) {
        let conv = |e: &quiche::ConnectionError| QErr {
            is_app: e.is_app,
            code: e.error_code,
            reason: String::from_utf8_lossy(&e.reason).into_owned(),
        };
        let (peer_error, local_error, timed_out, is_closed, established, stats, paths, tp, scid_len) = self.q(|| {
            (
                conn.peer_error().map(conv),
                conn.local_error().map(conv),
                conn.is_timed_out(),
                conn.is_closed(),
                conn.is_established(),
                conn.stats(),
                conn.path_stats().collect::<Vec<_>>(),
                conn.peer_transport_params().map(|p| format!("{p:?}")),
                conn.source_id().len(),
            )
        });
        let mut a = self.app.lock().unwrap();
        let q = &mut a.q;
        q.peer_error = peer_error;
        q.local_error = local_error;
        q.timed_out = timed_out;
        q.is_closed = is_closed;
        q.established |= established;
        q.peer_tp = tp;
        q.zero_len_cid = scid_len == 0;
        let s = &mut q.stats;
        s.insert("recv", stats.recv as u64);
        s.insert("sent", stats.sent as u64);
        s.insert("lost", stats.lost as u64);
        s.insert("spurious_lost", stats.spurious_lost as u64);
        s.insert("retrans", stats.retrans as u64);
        s.insert("stream_retrans_bytes", stats.stream_retrans_bytes);
        s.insert("data_blocked_sent", stats.data_blocked_sent_count);
        s.insert("stream_data_blocked_sent", stats.stream_data_blocked_sent_count);
        s.insert("data_blocked_recv", stats.data_blocked_recv_count);
        s.insert("stream_data_blocked_recv", stats.stream_data_blocked_recv_count);
        s.insert("streams_blocked_bidi_recv", stats.streams_blocked_bidi_recv_count);
        s.insert("streams_blocked_uni_recv", stats.streams_blocked_uni_recv_count);
        s.insert("path_challenge_rx", stats.path_challenge_rx_count);
        s.insert("paths", stats.paths_count as u64);
        s.insert("pto", paths.iter().map(|p| p.total_pto_count as u64).sum());
        s.insert("pmtu", paths.iter().map(|p| p.pmtu as u64).max().unwrap_or(0));
    }

    pub async fn run(mut self, cap_ns: u64) {
        let plan = self.plan.clone();
        // Config::new and connect/accept read the clock and the RNG as well
        let mut config = self.q(|| config_of(&plan));
        let mut out = vec![0u8; 2048];
        let mut first: Option<(SocketAddr, Vec<u8>)> = None;
        let mut conn = match self.peer {
            Some(peer) => {
                let key = hashn(plan.rand_key, &[0x0c1d]);
                let scid = quiche::ConnectionId::from_vec(cid_bytes(key, 0, plan.quiche.cid_len as usize));
                let local = self.local;
                match self.q(|| quiche::connect(Some("localhost"), &scid, local, peer, &mut config)) {
                    Ok(c) => c,
                    Err(e) => {
                        self.app.lock().unwrap().harness_errors.push(format!("quiche::connect failed: {e:?}"));
                        return;
                    }
                }
            }
            None => match self.accept(&mut config, cap_ns).await {
                Some((c, from, payload)) => {
                    first = Some((from, payload));
                    c
                }
                None => return,
            },
        };
        self.app.lock().unwrap().q.created = true;
        if let Some((from, payload)) = first.take() {
            self.feed(&mut conn, from, payload);
        }
        let mut spins = 0u32;
        loop {
            // datagrams that are already queued
            while let Ok(Some((from, _ecn, payload))) = self.sock.try_recv_from() {
                self.feed(&mut conn, from, payload);
            }
            // timers (a no-op unless one expired)
            self.q(|| conn.on_timeout());
            self.app_logic(&mut conn);
            self.flush(&mut conn, &mut out);
            if self.q(|| conn.is_closed()) {
                break;
            }
            if now_ns() >= cap_ns {
                // the wrapper's cap timer and ours fire at the same instant: record it here
                self.app.lock().unwrap().capped.push("quiche/host(loop)".into());
                break;
            }
            self.iterations += 1;
            if self.iterations % 256 == 0 {
                self.snapshot(&mut conn);
            }
            let timeout = self.q(|| conn.timeout());
            if timeout == Some(Duration::ZERO) {
                spins += 1;
                if spins > 10_000 {
                    self.app.lock().unwrap().harness_errors.push("quiche host: timeout() stays at zero".into());
                    break;
                }
                self.app.lock().unwrap().q.timeouts_fired += 1;
                continue;
            }
            spins = 0;
            match self.wait(timeout, cap_ns).await {
                Wake::Packet(from, payload) => self.feed(&mut conn, from, payload),
                Wake::Timer => {
                    self.app.lock().unwrap().q.timeouts_fired += 1;
                }
                Wake::Coord => {}
            }
        }
        let now = now_ns();
        self.snapshot(&mut conn);
        self.app.lock().unwrap().q.t_closed_ns = Some(now);
    }
}

