//! Observation of `path::secret::Map` events inside the simulation.  The maps built by
//! `stream::testing::{Client, Server}` publish to `event::tracing::Subscriber` (not replaceable
//! from outside), which emits one `tracing` event per map event with the event name as target.
//! A thread-local `tracing` subscriber counts the ones that matter here.

//!
//! It also records per-packet rejections: the receiver's `tracing::debug!(non_fatal_error = %err,
//! ?packet)` (stream/recv/state.rs) for stream packets that failed to decrypt, and the
//! `stream_control_packet_received` event with `is_authenticated = false` for control packets.

use std::{cell::RefCell, collections::BTreeMap, fmt::Write as _};
use tracing::{field::Field, span, subscriber::Interest, Event, Metadata};

thread_local! {
    static COUNTS: RefCell<BTreeMap<&'static str, u64>> = RefCell::new(BTreeMap::new());
    static REJECTS: RefCell<Rejects> = RefCell::new(Rejects::default());
}

/// per-packet authentication failures reported by the receivers during one run
#[derive(Default, Clone, Debug)]
pub struct Rejects {
    /// stream packets: (error text, Debug text of the parsed packet)
    pub stream: Vec<(String, String)>,
    /// for each entry of `stream`: had the receiving stream endpoint already published
    /// `stream_receiver_errored` (reset, replayed key, idle timeout ...) when it refused the packet?
    pub stream_receiver_dead: Vec<bool>,
    /// virtual time (ns) of each entry of `stream`
    pub stream_t_ns: Vec<u64>,
    /// refusals beyond `STREAM_REJECT_CAP` are only counted (a stalled stream can produce millions)
    pub stream_uncaptured: u64,
    /// endpoint stream spans that have published `stream_receiver_errored`
    pub errored_spans: std::collections::BTreeSet<u64>,
    /// span of the most recent `stream_packet_received` (the refusal report that follows belongs to it)
    pub last_pass_span: u64,
    /// control packets that failed authentication: (packet_number, packet_len, control_data_len)
    pub control: Vec<(u64, u64, u64)>,
    pub control_seen: u64,
    /// processing passes per (endpoint stream span, packet number, stream offset, payload length,
    /// packet length): the receiver publishes `stream_packet_received` each time it starts to
    /// process a buffered stream packet
    pub passes: BTreeMap<(u64, u64, u64, u64, u64), u32>,
    /// sequence number of the first processing pass per (packet number, stream offset, payload
    /// length, packet length): the order in which receivers actually looked at packets
    pub first_pass: BTreeMap<(u64, u64, u64, u64), u64>,
    pub seq: u64,
    /// stream packets a sender saw acknowledged (`stream_packet_acked`): (packet number, stream
    /// offset, payload length, packet length)
    pub acked: std::collections::BTreeSet<(u64, u64, u64, u64)>,
}

pub const STREAM_REJECT_CAP: usize = 50_000;
const RECV_STATE_TARGET: &str = "s2n_quic_dc::stream::recv::state";
const CONTROL_EVENT: &str = "stream_control_packet_received";
const STREAM_EVENT: &str = "stream_packet_received";
const ACKED_EVENT: &str = "stream_packet_acked";
const RECEIVER_ERRORED_EVENT: &str = "stream_receiver_errored";

thread_local! {
    static NEXT_SPAN: std::cell::Cell<u64> = const { std::cell::Cell::new(2) };
}

fn is_conn_span(meta: &Metadata<'_>) -> bool {
    meta.is_span() && meta.target() == "s2n_quic_dc" && meta.name() == "conn"
}

fn is_reject_callsite(meta: &Metadata<'_>) -> bool {
    (meta.target() == RECV_STATE_TARGET && meta.is_event() && meta.fields().field("non_fatal_error").is_some())
        || meta.target() == CONTROL_EVENT
        || meta.target() == STREAM_EVENT
        || meta.target() == ACKED_EVENT
        || meta.target() == RECEIVER_ERRORED_EVENT
        || is_conn_span(meta)
}

#[derive(Default)]
struct StreamVisitor {
    err: String,
    packet: String,
}

impl tracing::field::Visit for StreamVisitor {
    fn record_debug(&mut self, field: &Field, value: &dyn std::fmt::Debug) {
        match field.name() {
            "non_fatal_error" => {
                let _ = write!(self.err, "{value:?}");
            }
            "packet" => {
                let _ = write!(self.packet, "{value:?}");
            }
            _ => {}
        }
    }
}

/// tiny fixed buffer: the control event fires for every control packet, so no heap here
struct Small {
    buf: [u8; 24],
    len: usize,
}

impl std::fmt::Write for Small {
    fn write_str(&mut self, s: &str) -> std::fmt::Result {
        for b in s.bytes() {
            if self.len < self.buf.len() {
                self.buf[self.len] = b;
                self.len += 1;
            }
        }
        Ok(())
    }
}

#[derive(Default)]
struct ControlVisitor {
    pn: u64,
    len: u64,
    cd: u64,
    off: u64,
    plen: u64,
    auth: bool,
}

impl tracing::field::Visit for ControlVisitor {
    fn record_debug(&mut self, field: &Field, value: &dyn std::fmt::Debug) {
        let mut b = Small { buf: [0; 24], len: 0 };
        let _ = write!(b, "{value:?}");
        let txt = &b.buf[..b.len];
        let num = || txt.iter().filter(|c| c.is_ascii_digit()).fold(0u64, |a, c| a.wrapping_mul(10).wrapping_add((*c - b'0') as u64));
        match field.name() {
            "packet_number" => self.pn = num(),
            "packet_len" => self.len = num(),
            "control_data_len" => self.cd = num(),
            "stream_offset" => self.off = num(),
            "payload_len" => self.plen = num(),
            "is_authenticated" => self.auth = txt == b"true",
            _ => {}
        }
    }
}

const TARGETS: &[&str] = &[
    "unknown_path_secret_packet_received",
    "unknown_path_secret_packet_accepted",
    "unknown_path_secret_packet_rejected",
    "unknown_path_secret_packet_dropped",
    "stale_key_packet_received",
    "stale_key_packet_accepted",
    "stale_key_packet_rejected",
    "stale_key_packet_dropped",
    "replay_detected_packet_received",
    "replay_detected_packet_accepted",
    "replay_detected_packet_rejected",
    "replay_detected_packet_dropped",
    "replay_definitely_detected",
    "replay_potentially_detected",
    "path_secret_map_background_handshake_requested",
    "path_secret_map_id_entry_evicted",
    "path_secret_map_address_entry_evicted",
    "path_secret_map_entry_inserted",
    "path_secret_map_entry_replaced",
    "key_accepted",
];

fn interesting(t: &str) -> Option<&'static str> {
    TARGETS.iter().find(|x| **x == t).copied()
}

pub struct Capture;

impl tracing::Subscriber for Capture {
    fn register_callsite(&self, meta: &'static Metadata<'static>) -> Interest {
        if interesting(meta.target()).is_some() || is_reject_callsite(meta) {
            Interest::always()
        } else {
            Interest::never()
        }
    }
    fn enabled(&self, meta: &Metadata<'_>) -> bool {
        interesting(meta.target()).is_some() || is_reject_callsite(meta)
    }
    fn new_span(&self, span: &span::Attributes<'_>) -> span::Id {
        // one id per stream endpoint ("conn" span of the dc event subscriber); everything else shares 1
        if is_conn_span(span.metadata()) {
            span::Id::from_u64(NEXT_SPAN.with(|n| {
                let v = n.get();
                n.set(v + 1);
                v
            }))
        } else {
            span::Id::from_u64(1)
        }
    }
    fn record(&self, _span: &span::Id, _values: &span::Record<'_>) {}
    fn record_follows_from(&self, _span: &span::Id, _follows: &span::Id) {}
    fn event(&self, event: &Event<'_>) {
        let target = event.metadata().target();
        if let Some(t) = interesting(target) {
            COUNTS.with(|c| *c.borrow_mut().entry(t).or_insert(0) += 1);
            if t == "replay_definitely_detected" || t == "replay_potentially_detected" {
                // the key-id dedup check runs inside the first successful open of a stream endpoint:
                // the endpoint that is processing a packet right now was created from a replayed
                // key id (a second accept for the same credentials) and will refuse everything
                REJECTS.with(|r| {
                    let mut r = r.borrow_mut();
                    let s = r.last_pass_span;
                    r.errored_spans.insert(s);
                });
            }
        } else if target == CONTROL_EVENT {
            let mut v = ControlVisitor { auth: true, ..Default::default() };
            event.record(&mut v);
            REJECTS.with(|r| {
                let mut r = r.borrow_mut();
                r.control_seen += 1;
                if !v.auth {
                    r.control.push((v.pn, v.len, v.cd));
                }
            });
        } else if target == STREAM_EVENT {
            let mut v = ControlVisitor::default();
            event.record(&mut v);
            let span = event.parent().map_or(0, |p| p.into_u64());
            REJECTS.with(|r| {
                let mut r = r.borrow_mut();
                r.last_pass_span = span;
                r.seq += 1;
                let q = r.seq;
                r.first_pass.entry((v.pn, v.off, v.plen, v.len)).or_insert(q);
                *r.passes.entry((span, v.pn, v.off, v.plen, v.len)).or_insert(0) += 1;
            });
        } else if target == RECEIVER_ERRORED_EVENT {
            let span = event.parent().map_or(0, |p| p.into_u64());
            REJECTS.with(|r| {
                r.borrow_mut().errored_spans.insert(span);
            });
        } else if target == ACKED_EVENT {
            let mut v = ControlVisitor::default();
            event.record(&mut v);
            REJECTS.with(|r| {
                r.borrow_mut().acked.insert((v.pn, v.off, v.plen, v.len));
            });
        } else if target == RECV_STATE_TARGET {
            let full = REJECTS.with(|r| {
                let mut r = r.borrow_mut();
                if r.stream.len() >= STREAM_REJECT_CAP {
                    r.stream_uncaptured += 1;
                    true
                } else {
                    false
                }
            });
            if full {
                return;
            }
            let mut v = StreamVisitor::default();
            event.record(&mut v);
            if !v.err.is_empty() {
                REJECTS.with(|r| {
                    let mut r = r.borrow_mut();
                    let dead = r.errored_spans.contains(&r.last_pass_span);
                    r.stream.push((v.err, v.packet));
                    r.stream_receiver_dead.push(dead);
                    let t = bach::time::Instant::try_now().map_or(0, |i| i.elapsed_since_start().as_nanos() as u64);
                    r.stream_t_ns.push(t);
                });
            }
        }
    }
    fn enter(&self, _span: &span::Id) {}
    fn exit(&self, _span: &span::Id) {}
}

/// installs the capture subscriber as this thread's default for the lifetime of the guard
pub fn install() -> tracing::subscriber::DefaultGuard {
    tracing::subscriber::set_default(Capture)
}

pub fn reset() {
    COUNTS.with(|c| c.borrow_mut().clear());
    REJECTS.with(|r| *r.borrow_mut() = Rejects::default());
    NEXT_SPAN.with(|n| n.set(2));
}

pub fn take_rejects() -> Rejects {
    REJECTS.with(|r| std::mem::take(&mut *r.borrow_mut()))
}

pub fn take() -> BTreeMap<String, u64> {
    COUNTS.with(|c| std::mem::take(&mut *c.borrow_mut())).into_iter().map(|(k, v)| (k.to_string(), v)).collect()
}
