#!/usr/bin/env python3
"""Regenerates /verif/MANIFEST.json from the table below (single source of truth)."""
import json
props = [json.loads(l) for l in open('/verif/properties.jsonl')]
ids = [p['id'] for p in props]

SIM_NOTE = ("Trusted base: the simulator (SimNet, bach virtual time, seeded providers), the sim-TLS stub that replaces "
            "the TLS 1.3 handshake in E1 (all packet protection is real s2n-quic-crypto), and the oracles. Sampling, not proof: "
            "a clean batch is evidence only.")
COMP_NOTE = ("Trusted base: the reference models / RFC transcriptions written in /verif and the small discrete-event drivers. "
             "The real component code is driven through its public API only. Sampling, not proof.")

C = {}
def chk(pid, engine, text, note, technique, ref, level="exploration"):
    C[pid] = {
        "property_id": pid,
        "quick_cmd": f"./check {pid} --tier quick",
        "thorough_cmd": f"./check {pid} --tier thorough",
        "evidence_file": f"/verif/evidence/{pid}.json",
        "replay_cmd_template": f"./check {pid} --replay {{path}}",
        "engine": engine,
        "level_claimed": {"category": level, "text": text, "design_ref": ref},
        "level_note": note,
        "technique": technique,
    }

chk("C01", "qsim", "Seeded search over (configuration x application scripts x datagram fault plan x task schedule) with real s2n-quic client/server endpoints on the deterministic IO provider; every byte read is compared online with a 64-bit position-keyed payload oracle, clean EOF is compared with what the sender wrote.", SIM_NOTE, "deterministic simulation with fault injection (seeded plans, payload oracle)", "3.1")
chk("C02", "qsim", "Three scenario families (finite faults incl. blackholes then a healthy network; permanent blackhole; all-blocking flow-control/stream-limit configurations) decided by: no application task parked at a virtual-time cap far beyond any legitimate bound while no progress is made, every incomplete stream explained by a fault-induced connection death, failure reported within twice the endpoint's own effective idle timeout after the last processed packet. Found and repaired three liveness defects (flow-control deadlock, leaked stream, leaked connection credit); their minimised plans are replayed on every run.", SIM_NOTE + " Bounds are taken from the endpoints' own advertised values and metrics.", "deterministic simulation with fault injection (bounded liveness after faults stop, stall detection)", "3.2")
chk("C03", "qsim", "Wire monitor on the cleartext of every sent packet: per connection and role, every STREAM/RESET_STREAM end offset, connection-wide sum and stream index is compared, in event order, with the largest limits received so far (peer transport parameters as seen by sim-TLS plus MAX_* frames in processed packets).", SIM_NOTE + " Limits still in flight are not counted (sound).", "deterministic simulation with fault injection (wire-level credit accounting oracle)", "3.3")
chk("C06", "qsim", "Adversarial SimNet: bit-flipped, truncated, extended, spliced copies in addition to genuine datagrams, replays (also from a third address), duplicates, unattributable and spoofed garbage, all three cipher suites. Oracles: every processed cleartext equals a cleartext the peer produced for that (space, pn); at most one processing per (connection, space, pn); ACK ranges and ECN counts bounded by what was processed; payload oracle; in the additive family the connection must survive and complete.", SIM_NOTE, "deterministic simulation with fault injection (adversarial network, authenticity oracle on cleartext)", "3.6")
chk("C08", "qsim", "Wire monitor: ACK ranges are a subset of the packets processed before the ACK was built; every ack-eliciting packet is acknowledged within the endpoint's own max_ack_delay (immediately when out of order) with the exemptions RFC 9000 13.2.3/13.2.4 allow (evicted or pruned ranges); packet numbers strictly increase; packet-number length derived from datagram sizes satisfies RFC 9000 17.1/A.2 and the A.3 reference decoder reconstructs the number for both extreme receiver states. Two genuine defects (no immediate ACK after ACK-of-ACK pruning; ACK-only packets paced) are recorded as known findings with cause-specific signatures.", SIM_NOTE, "deterministic simulation with fault injection (wire monitor, promptness bound from the endpoint's own parameters)", "3.8")
chk("C09", "linksim", "Component-level discrete-event link simulator driving the real RttEstimator, loss::detect, Pto, SentPackets and persistent-congestion calculator through physically consistent send/ack/loss histories (reordered/duplicated/lost ACKs, outages, MTU changes), compared step by step with an RFC 9002 Appendix A transcription. One genuine defect (loss time threshold shortened by the 1 ms timer tolerance) is a known finding.", COMP_NOTE + " The recovery manager itself is private to s2n-quic-transport; its call order is transcribed by the driver (end-to-end event-shadow oracle in qsim is planned as second part).", "deterministic simulation with fault injection (simulated path, RFC 9002 shadow model)", "3.9")
chk("C10", "linksim", "Both congestion controllers driven through the CongestionController trait by a simulated sender/bottleneck/receiver (loss, ECN-CE, reordering, ACK aggregation/loss, MTU change, app-limited periods, outages, discards, datagram sizes 1200..9000); after every trait call: window >= controller minimum, no overflow, bytes_in_flight equals the shadow sum; CUBIC: loss never increases the window, one reduction per recovery period, no growth while application-limited, persistent congestion collapses to the minimum.", COMP_NOTE, "deterministic simulation with fault injection (simulated bottleneck link, invariants after every event)", "3.10")
chk("C12", "qsim", "Wire monitor per (connection, stream): every STREAM frame's bytes equal the payload oracle at those offsets (hence retransmissions equal first transmissions), FIN/RESET final-size discipline, nothing after RESET_STREAM, only CONNECTION_CLOSE after CONNECTION_CLOSE and no more close datagrams than incoming datagrams. One genuine defect (zero-length open-notify STREAM frame retransmitted after RESET_STREAM) is a known finding.", SIM_NOTE, "deterministic simulation with fault injection (wire monitor, self-consistency of sent frames)", "3.12")
chk("C15", "linksim", "Two real KeySet instances with an instrumented generation-tagged OneRttKey joined by a lossy/reordering/duplicating queue, derivation timers on a simulated clock, forged packets; per-generation use counts vs. limits, generation monotone in packet number, mutual decryptability across updates, AEAD_LIMIT_REACHED exactly at the integrity limit. Found a genuine key-phase rollback defect (delayed old-phase packet during the derivation window), repaired in /repo; its minimised history is replayed on every run.", COMP_NOTE + " The transport's 10 000-packet update window constant and the close on the wire are not reached at component level (end-to-end part with a wrapper key through sim-TLS is planned as second part).", "deterministic simulation with fault injection (two-party key-update simulator)", "3.15")
chk("C16", "comp", "Model-based operation histories (1..200 operations, offsets concentrated at slot/allocation boundaries, injected reader faults) against the real Reassembler, IntervalSet, ack::Ranges, packet number Map and SlidingWindow, compared after every operation with BTreeMap/BTreeSet reference models (content keyed by a 64-bit position hash).", COMP_NOTE + " The 'exhaustive enumeration of short sequences' clause is bounded model checking and is not done.", "deterministic simulation with fault injection (seeded model-based histories with reader faults)", "3.16")
chk("C19", "comp", "Sequential half: arrival sequences from a reordering/duplicating/replaying/jumping network model into the real receiver::State, compared per call with an exact set+window model (both directions: no duplicate accepted, no fresh in-window id refused); sender key ids strictly increasing under any interleaving of StaleKey updates. The concurrent half (thread schedules under Miri's seeded scheduler) is added as a second part when the thread engine is registered.", COMP_NOTE, "deterministic simulation with fault injection (seeded network model + reference set/window model)", "3.19")

engines = [
 {"name": "qsim", "path": "/verif/sim/qsim", "serves_properties": [p for p, c in C.items() if c["engine"] == "qsim"], "kind_free_text": "E1: real s2n-quic endpoints on bach virtual time + SimNet + sim-TLS, seeded plans, oracles over the recorded history"},
 {"name": "linksim", "path": "/verif/sim/linksim", "serves_properties": [p for p, c in C.items() if c["engine"] == "linksim"], "kind_free_text": "E2: discrete-event link / key-update simulators around real recovery, congestion-control and KeySet code"},
 {"name": "comp", "path": "/verif/sim/comp", "serves_properties": [p for p, c in C.items() if c["engine"] == "comp"], "kind_free_text": "E2: seeded model-based histories against real data structures with injected reader faults"},
]
NA_REASON = {
}
na = [{"property_id": i, "reason": NA_REASON.get(i, "not yet claimed: its check is still under construction in this session (DESIGN.md section 3 describes the planned check)")} for i in ids if i not in C]
m = {
 "version": 1,
 "setup_cmd": "cd /verif/sim && export CARGO_NET_OFFLINE=true && cargo build --release --offline -p qsim && CARGO_TARGET_DIR=/verif/sim/target-comp cargo build --release --offline -p comp && CARGO_TARGET_DIR=/verif/sim/target-linksim cargo build --release --offline -p linksim",
 "hooks": {
   "guard": "aws_s2n_quic_verif",
   "enable": "no registered check needs a hook so far (all seams used are public provider APIs); the guard is reserved for the shuttle primitive set of the C17 thread engine (RUSTFLAGS=--cfg aws_s2n_quic_verif on that harness build only)",
   "baseline_off_cmd": "cd /repo/$(cat /w/out/cargo_root.txt) && cargo nextest run --workspace --no-fail-fast --tool-config-file pb:/w/lib/nextest.toml --profile pb --test-threads 8 --offline",
   "source_commits": [],
   "add_only": True,
 },
 "engines": engines,
 "checks": [C[k] for k in sorted(C)],
 "not_applicable": na,
 "notes": "Technique family: deterministic simulation with fault injection. ./check <ID> rebuilds the serving engine(s) against /repo's working tree on every call; known findings: /verif/known_findings.json; regression plans of repaired defects: /verif/regress/<ID>/.",
}
json.dump(m, open('/verif/MANIFEST.json', 'w'), indent=1)
print("checks:", sorted(C), "na:", [x['property_id'] for x in na])
