//! C13: connection IDs are issued, routed and retired consistently (RFC 9000 5.1, 5.1.1, 5.1.2,
//! 19.15, 19.16). Everything is decided from the recorded history: the cleartext frames each side
//! sent / processed (interceptor), the datagrams each side put on / took from the simulated network
//! and the transport parameters as received.

use crate::{
    kernel::Violation,
    obs::{EpEv, Ev, Space},
    oracle::{Side, View},
    plan::*,
    wire::{self, Frame, PacketKind},
};
use std::collections::{BTreeMap, BTreeSet};

fn viol(oracle: &str, sig: &str, detail: String) -> Violation {
    Violation { property: "C13".into(), oracle: oracle.into(), detail, sig: sig.into() }
}

fn hex(b: &[u8]) -> String {
    b.iter().map(|x| format!("{x:02x}")).collect()
}

/// what one side issued to its peer
#[derive(Default, Debug, Clone)]
pub struct Issued {
    /// seq -> (cid, token, obs seq of first transmission)
    pub ids: BTreeMap<u64, (Vec<u8>, Option<[u8; 16]>, u64)>,
    /// (obs seq, retire_prior_to) of every NEW_CONNECTION_ID sent
    pub rpt_sent: Vec<(u64, u64)>,
}

fn cid_len_of(plan: &Plan, role: Role) -> usize {
    match role {
        Role::Client => plan.cfg.client.cid_len as usize,
        Role::Server => plan.cfg.server.cid_len as usize,
    }
}

/// source connection id of the first Initial/Handshake packet this side sent (sequence number 0)
fn handshake_scid(v: &View, side: Side, peer_cid_len: usize) -> Option<(Vec<u8>, u64)> {
    for d in v.out.obs.tx_dgrams.iter().filter(|d| d.ep == side.ep && d.conn == side.conn) {
        if let Ok(pk) = wire::split_datagram(&d.bytes, peer_cid_len) {
            for p in pk {
                if matches!(p.kind, PacketKind::Initial | PacketKind::Handshake) {
                    return Some((p.scid.clone(), d.seq));
                }
            }
        }
    }
    None
}

pub fn c13(v: &View) -> Vec<Violation> {
    let mut out = vec![];
    let o = v.out;
    // endpoint-wide: cid -> (conn) for the uniqueness and routing checks
    let mut ep_cids: BTreeMap<(u32, Vec<u8>), u64> = BTreeMap::new();
    // per side: issued ids
    let mut issued_by: BTreeMap<Side, Issued> = BTreeMap::new();
    // per side: obs seq at which a RETIRE_CONNECTION_ID for `seq` was first taken in
    let mut retired_at: BTreeMap<Side, BTreeMap<u64, u64>> = BTreeMap::new();

    let sides: Vec<(u32, Role, Side)> = (0..o.plan.conns.len() as u32)
        .flat_map(|idx| [Role::Client, Role::Server].into_iter().filter_map(move |r| Some((idx, r))))
        .filter_map(|(idx, r)| v.side(idx, r).map(|s| (idx, r, s)))
        .collect();

    for (idx, role, side) in &sides {
        let (idx, role, side) = (*idx, *role, *side);
        let peer_role = role.peer();
        let peer_cid_len = cid_len_of(&o.plan, peer_role);
        let my_cid_len = cid_len_of(&o.plan, role);
        let mut iss = Issued::default();
        if let Some((cid, seq)) = handshake_scid(v, side, peer_cid_len) {
            // the token of sequence number 0 travels in the server's transport parameters
            let tok = if role == Role::Server { v.peer_tp(idx, Role::Client).and_then(|p| p.stateless_reset_token) } else { None };
            iss.ids.insert(0, (cid, tok, seq));
        }
        // frames this side processed, in order: RETIRE_CONNECTION_ID (for the limit) and
        // NEW_CONNECTION_ID (what the peer really issued, as far as this side knows)
        let mut rx_retire: BTreeMap<u64, u64> = BTreeMap::new();
        let mut rx_new: Vec<(u64, u64, Vec<u8>)> = vec![]; // (obs seq, cid seq, cid)
        for (i, r) in o.obs.rx.iter().enumerate() {
            if r.ep != side.ep || r.conn != side.conn {
                continue;
            }
            let Ok(fr) = &v.rx_frames[i] else { continue };
            for f in fr {
                match f {
                    Frame::RetireConnectionId { seq } => {
                        rx_retire.entry(*seq).or_insert(r.seq);
                    }
                    Frame::NewConnectionId { seq, cid, .. } => rx_new.push((r.seq, *seq, cid.clone())),
                    _ => {}
                }
            }
        }
        let limit = v.peer_tp(idx, role).map(|p| p.active_connection_id_limit);
        let mut next_seq = 1u64;
        let mut max_rpt = 0u64;
        for (i, t) in o.obs.tx.iter().enumerate() {
            if t.ep != side.ep || t.conn != side.conn || t.byz.is_some() {
                continue;
            }
            let Ok(fr) = &v.tx_frames[i] else { continue };
            for f in fr {
                match f {
                    Frame::NewConnectionId { seq, retire_prior_to, cid, token } => {
                        // 19.15: Retire Prior To must not exceed the sequence number
                        if retire_prior_to > seq {
                            out.push(viol(
                                "c13.retire_prior_to_beyond_sequence_number",
                                "retire_prior_to_gt_seq",
                                format!("conn {idx} {role:?}: NEW_CONNECTION_ID seq {seq} carries retire_prior_to {retire_prior_to} (pn {})", t.pn),
                            ));
                        }
                        if cid.len() != my_cid_len && my_cid_len != 0 {
                            // not a violation of C13 by itself; routing below relies on the configured length
                        }
                        if let Some((c0, t0, _)) = iss.ids.get(seq) {
                            // retransmission: must repeat the same id and token
                            if c0 != cid || (t0.is_some() && *t0 != Some(*token)) {
                                out.push(viol(
                                    "c13.sequence_number_reused",
                                    "seq_reused_with_different_id",
                                    format!("conn {idx} {role:?}: seq {seq} first issued as {} now as {}", hex(c0), hex(cid)),
                                ));
                            }
                        } else {
                            if *seq != next_seq {
                                out.push(viol(
                                    "c13.sequence_numbers_not_consecutive",
                                    "seq_gap",
                                    format!("conn {idx} {role:?}: issued seq {seq}, expected {next_seq} (pn {})", t.pn),
                                ));
                            }
                            next_seq = next_seq.max(*seq + 1);
                            // pairwise distinct values and tokens within the connection
                            for (s2, (c2, t2, _)) in &iss.ids {
                                if c2 == cid {
                                    out.push(viol(
                                        "c13.duplicate_connection_id",
                                        "same_cid_two_seqs",
                                        format!("conn {idx} {role:?}: seq {s2} and {seq} share the id {}", hex(cid)),
                                    ));
                                }
                                if *t2 == Some(*token) {
                                    out.push(viol(
                                        "c13.duplicate_stateless_reset_token",
                                        "same_token_two_seqs",
                                        format!("conn {idx} {role:?}: seq {s2} and {seq} share the stateless reset token {}", hex(token)),
                                    ));
                                }
                            }
                            iss.ids.insert(*seq, (cid.clone(), Some(*token), t.seq));
                        }
                        max_rpt = max_rpt.max(*retire_prior_to);
                        iss.rpt_sent.push((t.seq, *retire_prior_to));
                        // 5.1.1: never more active ids than the peer's limit (ids below the
                        // largest retire_prior_to sent so far do not count, nor ids whose
                        // retirement this side has already taken in)
                        if let Some(limit) = limit {
                            let active: Vec<u64> = iss
                                .ids
                                .keys()
                                .copied()
                                .filter(|s| *s >= max_rpt && !rx_retire.get(s).map_or(false, |at| *at < t.seq))
                                .collect();
                            if active.len() as u64 > limit.max(2) {
                                out.push(viol(
                                    "c13.active_connection_id_limit_exceeded",
                                    "more_active_ids_than_peer_limit",
                                    format!(
                                        "conn {idx} {role:?}: after issuing seq {seq} (pn {}) the peer holds {} active ids {:?}, its active_connection_id_limit is {limit}",
                                        t.pn,
                                        active.len(),
                                        active
                                    ),
                                ));
                            }
                        }
                    }
                    Frame::RetireConnectionId { seq } => {
                        // 19.16: only retire what the peer issued: seq 0 (handshake), or a
                        // NEW_CONNECTION_ID this side processed earlier
                        let known = *seq == 0 || rx_new.iter().any(|(at, s, _)| *at < t.seq && s >= seq);
                        if !known {
                            out.push(viol(
                                "c13.retired_id_never_issued",
                                "retire_of_unissued_seq",
                                format!("conn {idx} {role:?}: RETIRE_CONNECTION_ID seq {seq} in pn {} but the peer never issued it", t.pn),
                            ));
                        }
                        // 19.16: not inside a packet addressed with the very id being retired
                        let peer_cid: Option<Vec<u8>> = if *seq == 0 {
                            None // filled below from the peer's handshake scid
                        } else {
                            rx_new.iter().find(|(at, s, _)| *at < t.seq && s == seq).map(|x| x.2.clone())
                        };
                        let peer_cid = peer_cid.or_else(|| {
                            if *seq == 0 {
                                v.side(idx, peer_role).and_then(|ps| handshake_scid(v, ps, my_cid_len)).map(|x| x.0)
                            } else {
                                None
                            }
                        });
                        if let (Some(pc), true) = (peer_cid, t.space == Space::App) {
                            if let Some(d) = o.obs.tx_dgrams.iter().find(|d| d.ep == side.ep && d.conn == side.conn && d.seq > t.seq) {
                                if let Ok(pk) = wire::split_datagram(&d.bytes, peer_cid_len) {
                                    if let Some(sp) = pk.iter().find(|p| p.kind == PacketKind::Short) {
                                        if !pc.is_empty() && sp.dcid == pc {
                                            out.push(viol(
                                                "c13.retire_frame_addressed_with_retired_id",
                                                "retire_sent_on_retired_dcid",
                                                format!("conn {idx} {role:?}: RETIRE_CONNECTION_ID seq {seq} in pn {} travels in a packet addressed to that very id {}", t.pn, hex(&pc)),
                                            ));
                                        }
                                    }
                                }
                            }
                        }
                    }
                    _ => {}
                }
            }
        }
        for (_, (cid, _, _)) in &iss.ids {
            if cid.is_empty() {
                continue;
            }
            if let Some(other) = ep_cids.insert((side.ep, cid.clone()), side.conn) {
                if other != side.conn {
                    out.push(viol(
                        "c13.connection_id_shared_between_connections",
                        "same_cid_two_connections",
                        format!("endpoint {}: id {} issued by connections {other} and {}", side.ep, hex(cid), side.conn),
                    ));
                }
            }
        }
        if std::env::var("VERIF_DEBUG_C13").is_ok() {
            for (s, (c, _, at)) in &iss.ids {
                eprintln!("issued idx {idx} {role:?} ep{} c{} seq {s} cid {} first_tx {at} retired_rx {:?}", side.ep, side.conn, hex(c), rx_retire.get(s));
            }
        }
        issued_by.insert(side, iss);
        retired_at.insert(side, rx_retire);
    }

    // ---- routing: a datagram addressed to an unretired id of a live connection goes to it ----
    // per endpoint: close time (obs seq) of each connection
    let mut closed_seq: BTreeMap<Side, u64> = BTreeMap::new();
    for e in &o.obs.evs {
        if let Ev::Closed { .. } = e.ev {
            closed_seq.entry(Side { ep: e.ep, conn: e.conn }).or_insert(e.seq);
        }
    }
    let mut by_ep: BTreeMap<u32, Vec<&crate::obs::RxDgramRec>> = BTreeMap::new();
    for d in &o.obs.rx_dgrams {
        by_ep.entry(d.ep).or_default().push(d);
    }
    for (ep, ds) in &by_ep {
        let role = if *ep == 0 { Role::Server } else { Role::Client };
        let my_len = cid_len_of(&o.plan, role);
        if my_len == 0 {
            continue;
        }
        for (k, d) in ds.iter().enumerate() {
            let next_seq = ds.get(k + 1).map_or(u64::MAX, |n| n.seq);
            if d.head.is_empty() || d.head[0] & 0x80 != 0 || d.head[0] & 0x40 == 0 || d.head.len() < 1 + my_len {
                continue; // long header / not QUIC: routing of handshakes is not the subject here
            }
            let dcid = d.head[1..1 + my_len].to_vec();
            let Some(conn) = ep_cids.get(&(*ep, dcid.clone())) else { continue };
            let side = Side { ep: *ep, conn: *conn };
            let Some(iss) = issued_by.get(&side) else { continue };
            let Some((seq, (_, _, first_tx))) = iss.ids.iter().find(|(_, x)| x.0 == dcid) else { continue };
            // the id must have been on the wire before, not yet retired, connection not closed
            if *first_tx > d.seq {
                continue;
            }
            if retired_at.get(&side).and_then(|m| m.get(seq)).map_or(false, |at| *at < d.seq) {
                continue;
            }
            if closed_seq.get(&side).map_or(false, |c| *c < d.seq) {
                continue;
            }
            // 5.1.2: once the issuer has asked for the retirement (Retire Prior To) it SHOULD, but
            // need not, keep accepting the id; s2n-quic drops it when its lifetime ends. Only ids
            // the issuer still stands behind are judged.
            if iss.rpt_sent.iter().any(|(at, rpt)| *at < d.seq && rpt > seq) {
                continue;
            }
            // (1) no packet of this datagram is handed to another connection
            if let Some(r) = o.obs.rx.iter().find(|r| r.ep == *ep && r.seq > d.seq && r.seq < next_seq && r.conn != *conn) {
                out.push(viol(
                    "c13.datagram_routed_to_wrong_connection",
                    "wrong_connection",
                    format!("endpoint {ep}: datagram addressed to id {} (seq {seq} of connection {conn}) was processed by connection {}", hex(&dcid), r.conn),
                ));
            }
            // (2) the endpoint does not treat it as unroutable
            for (s, e, _, ev) in &o.obs.ep_evs {
                if *e != *ep || *s <= d.seq || *s >= next_seq {
                    continue;
                }
                let bad = match ev {
                    EpEv::DatagramDropped { reason, .. } => reason.contains("UnknownDestinationConnectionId"),
                    // (the stateless reset itself is queued and leaves in the endpoint's transmit
                    // phase, after later datagrams have been taken in: its event cannot be
                    // attributed to one datagram and is not used)
                    _ => false,
                };
                if bad {
                    out.push(viol(
                        "c13.datagram_for_unretired_id_not_delivered",
                        "unretired_id_unroutable",
                        format!("endpoint {ep}: datagram (from port {}, {} bytes, t={} us) addressed to unretired id {} (seq {seq} of live connection {conn}) was answered with {ev:?}", d.remote_port, d.len, d.t_ns / 1000, hex(&dcid)),
                    ));
                }
            }
        }
    }
    // ---- both endpoints are honest here: neither may accuse the other of breaking the id rules ----
    for e in &o.obs.evs {
        if let Ev::Closed { kind: crate::obs::CloseKind::Transport, code: Some(code), error } = &e.ev {
            // CONNECTION_ID_LIMIT_ERROR, PROTOCOL_VIOLATION raised locally
            if (*code == 0x09 || *code == 0x0a) && error.contains("initiator: Local") {
                out.push(viol(
                    "c13.peer_accused_of_connection_id_violation",
                    &format!("local_close_code_{code:#x}"),
                    format!("endpoint {} connection {} closed the connection with transport error {code:#x}: {}", e.ep, e.conn, error.chars().take(300).collect::<String>()),
                ));
            }
        }
    }
    let _ = BTreeSet::<u8>::new();
    out
}
