//! plan = f(property, seed)

use crate::plan::*;
use simkit::{hashn, Rng};

const MIB: u64 = 1 << 20;

fn mtu(r: &mut Rng) -> u16 {
    match r.below(8) {
        0 => 1250,
        1 => 1400,
        2 => 1500,
        3 => 4000,
        4 => 8950,
        5 => 9001,
        6 => 32000,
        _ => r.range(1250, 32000) as u16,
    }
}

fn half(r: &mut Rng, max_total: u64, max_pause_us: u64, drops: bool) -> Half {
    let total = match r.below(100) {
        0..=7 => 0,
        8..=74 => r.size(1, (64 * 1024).min(max_total)),
        75..=94 => r.size((64 * 1024).min(max_total), MIB.min(max_total)),
        _ => r.size(MIB.min(max_total), max_total),
    };
    let min_io = (total / 4000).max(1);
    let min_chunk = (total / 400).max(1);
    let chunk = r.size(1, 64 * 1024).max(min_chunk).min(64 * 1024) as u32;
    let read = r.size(1, 64 * 1024).max(min_io).min(64 * 1024) as u32;
    let mut w_pauses = vec![];
    let mut r_pauses = vec![];
    if max_pause_us > 0 {
        for _ in 0..r.below(3) {
            w_pauses.push((r.below(total + 1), r.size(1, max_pause_us)));
        }
        for _ in 0..r.below(3) {
            r_pauses.push((r.below(total + 1), r.size(1, max_pause_us)));
        }
        w_pauses.sort();
        r_pauses.sort();
    }
    Half {
        total,
        chunk,
        finish: if r.chance(7, 10) { 0 } else { 1 },
        w_pauses,
        read,
        r_drop_at: if drops && r.chance(1, 7) { Some(r.below(total + 1)) } else { None },
        r_pauses,
    }
}

fn clients(r: &mut Rng, max_total: u64, budget: u64, max_pause_us: u64, drops: bool, spread_us: u64) -> Vec<ClientPlan> {
    loop {
        let nc = if r.chance(1, 4) { 2 } else { 1 };
        let mut left = 4usize;
        let mut cs = vec![];
        for i in 0..nc {
            let remaining_clients = nc - i - 1;
            let max_here = (left - remaining_clients as usize).min(4);
            let ns = r.range(1, max_here as u64) as usize;
            left -= ns;
            let mut streams = vec![];
            for _ in 0..ns {
                streams.push(StreamPlan {
                    open_delay_us: if r.chance(1, 2) { 0 } else { r.size(1, spread_us.max(2)) },
                    req: half(r, max_total, max_pause_us, drops),
                    resp: half(r, max_total, max_pause_us, drops),
                    resp_start: if r.chance(7, 10) { 0 } else { 1 },
                });
            }
            cs.push(ClientPlan { mtu: mtu(r), streams });
        }
        let total: u64 = cs.iter().flat_map(|c| c.streams.iter()).map(|s| s.req.total + s.resp.total).sum();
        if total <= budget {
            return cs;
        }
    }
}

fn cfg(r: &mut Rng) -> Cfg {
    let base = r.size(10, 50_000);
    let jitter = match r.below(4) {
        0 => 0,
        1 => base / 20,
        2 => base / 4,
        _ => base,
    };
    Cfg {
        bach_seed: r.next(),
        data_key: r.next(),
        delay_key: r.next(),
        yield_key: if r.chance(1, 4) { 0 } else { r.next() | 1 },
        server_mtu: mtu(r),
        base_delay_us: base,
        jitter_us: jitter,
        cap_s: 600,
    }
}

const RATES: [u32; 5] = [0, 5, 20, 50, 150];

fn finite_faults(r: &mut Rng, c: &Cfg, blackholes: bool) -> Vec<Fault> {
    let mut fs = vec![];
    let dir = |r: &mut Rng| r.pick(&[DIR_BOTH, DIR_BOTH, DIR_C2S, DIR_S2C]);
    let pm = r.pick(&RATES);
    if pm > 0 {
        fs.push(Fault { dir: dir(r), sel: Sel::OrdRange { from: 0, to: u64::MAX, pm, key: r.next() }, act: Act::Drop });
    }
    let pm = r.pick(&RATES);
    if pm > 0 {
        fs.push(Fault {
            dir: dir(r),
            sel: Sel::OrdRange { from: 0, to: u64::MAX, pm, key: r.next() },
            act: Act::Dup { n: r.range(1, 3) as u8, gap_us: r.size(0, c.base_delay_us * 4 + 10) },
        });
    }
    let pm = r.pick(&RATES);
    if pm > 0 {
        fs.push(Fault {
            dir: dir(r),
            sel: Sel::OrdRange { from: 0, to: u64::MAX, pm, key: r.next() },
            act: Act::Delay { us: r.size(1, c.base_delay_us * 20 + 1000) },
        });
    }
    // targeted ordinals (first flight, early acks, ...)
    for _ in 0..r.below(4) {
        let act = match r.below(3) {
            0 => Act::Drop,
            1 => Act::Dup { n: r.range(1, 2) as u8, gap_us: r.size(0, c.base_delay_us * 4 + 10) },
            _ => Act::Delay { us: r.size(1, c.base_delay_us * 20 + 1000) },
        };
        fs.push(Fault { dir: r.pick(&[DIR_C2S, DIR_S2C]), sel: Sel::Ord(r.size(0, 300)), act });
    }
    // a burst on a time window
    if r.chance(1, 4) {
        let t0 = r.size(0, c.base_delay_us * 40 + 100);
        fs.push(Fault {
            dir: dir(r),
            sel: Sel::Window { t0_us: t0, t1_us: t0 + r.size(1, c.base_delay_us * 10 + 100), pm: r.pick(&[150, 500]), key: r.next() },
            act: Act::Drop,
        });
    }
    if blackholes && r.chance(3, 10) {
        let t0 = r.size(0, c.base_delay_us * 60 + 1000);
        let dur = r.size(100, 3_000_000);
        fs.push(Fault { dir: dir(r), sel: Sel::Window { t0_us: t0, t1_us: t0 + dur, pm: 1000, key: 0 }, act: Act::Drop });
    }
    fs
}

pub fn plan_for(property: &str, seed: u64) -> Plan {
    let tag = if property == "C18" { 18 } else { 20 };
    let mut r = Rng::new(hashn(seed, &[tag]));
    let c = cfg(&mut r);
    if property == "C18" {
        return forge_plan(seed, r, c);
    }
    let fam = seed % 10;
    if fam == 0 && (seed / 10) % 2 == 1 {
        return sparse_plan(property, seed, r, c);
    }
    if fam == 0 {
        let cs = clients(&mut r, 4 * MIB, 6 * MIB, 200_000, false, 20_000);
        return Plan { seed, property: property.into(), family: "clean".into(), cfg: c, clients: cs, faults: vec![], vanish: None, forges: vec![], forge_as_drop: false };
    }
    if fam <= 6 {
        let cs = clients(&mut r, 4 * MIB, 6 * MIB, 1_000_000, true, 50_000);
        let faults = finite_faults(&mut r, &c, true);
        return Plan { seed, property: property.into(), family: "finite".into(), cfg: c, clients: cs, faults, vanish: None, forges: vec![], forge_as_drop: false };
    }
    // peer vanished
    let cs = clients(&mut r, MIB, 3 * MIB, 40_000_000, true, 200_000);
    let mut faults = vec![];
    if r.chance(1, 3) {
        let pm = r.pick(&[5u32, 20]);
        faults.push(Fault { dir: DIR_BOTH, sel: Sel::OrdRange { from: 0, to: u64::MAX, pm, key: r.next() }, act: Act::Drop });
    }
    let at = match r.below(3) {
        0 => Pos::C2sOrd(r.size(0, 400)),
        1 => Pos::S2cOrd(r.size(0, 400)),
        _ => Pos::TimeUs(r.size(0, c.base_delay_us * 100 + 1000)),
    };
    let vanish = if r.chance(6, 10) {
        Vanish::Blackhole { at, dir: r.pick(&[DIR_BOTH, DIR_BOTH, DIR_BOTH, DIR_C2S, DIR_S2C]) }
    } else {
        Vanish::Forget { at }
    };
    Plan { seed, property: property.into(), family: "vanish".into(), cfg: c, clients: cs, faults, vanish: Some(vanish), forges: vec![], forge_as_drop: false }
}

/// "sparse": small transfers, nobody drops a half early, and only a handful of single datagrams
/// (plus at most one short burst) are lost, all within the first moments of the run - the
/// situation every transport is built for.  Aimed at the trailing acknowledgements and final
/// packets of a direction (low ordinals of a short exchange): a lost last ACK must be repaired by
/// the receiver's TimeWait linger answering the sender's retransmission.  Here a stream that ends
/// in an error is a verdict (`c20.error_under_sparse_loss`), not an observation.
fn sparse_plan(property: &str, seed: u64, mut r: Rng, c: Cfg) -> Plan {
    let mut cs = clients(&mut r, 256 * 1024, 512 * 1024, 20_000, false, 20_000);
    // most exchanges short enough for one or two acknowledgements per direction
    for cl in cs.iter_mut() {
        for s in cl.streams.iter_mut() {
            if r.chance(1, 2) {
                s.req.total = r.size(0, 3000);
            }
            if r.chance(1, 2) {
                s.resp.total = r.size(0, 3000);
            }
        }
    }
    let mut faults = vec![];
    for _ in 0..r.range(1, 5) {
        faults.push(Fault { dir: r.pick(&[DIR_C2S, DIR_S2C]), sel: Sel::Ord(if r.chance(2, 3) { r.below(6) } else { r.below(40) }), act: Act::Drop });
    }
    if r.chance(1, 4) {
        let t0 = r.size(0, c.base_delay_us * 10 + 100);
        faults.push(Fault {
            dir: r.pick(&[DIR_C2S, DIR_S2C]),
            sel: Sel::Window { t0_us: t0, t1_us: t0 + r.size(1, (c.base_delay_us * 2 + 100).min(20_000)), pm: 1000, key: 0 },
            act: Act::Drop,
        });
    }
    Plan { seed, property: property.into(), family: "sparse".into(), cfg: c, clients: cs, faults, vanish: None, forges: vec![], forge_as_drop: false }
}

fn other(r: &mut Rng) -> Other {
    match r.below(5) {
        0 => Other::Prev(r.range(1, 20)),
        1 => Other::Prev(r.range(1, 3)),
        2 => Other::OtherStream,
        3 => Other::OtherConn,
        _ => Other::OtherDir,
    }
}

fn mutation(r: &mut Rng) -> Mutation {
    match r.below(100) {
        0..=49 => Mutation::Flip {
            region: r.pick(&[Region::Tag, Region::Credentials, Region::Credentials, Region::Header, Region::Header, Region::Payload, Region::AuthTag, Region::Any]),
            frac: r.below(65536) as u16,
            xor: 1u8 << r.below(8),
        },
        50..=57 => Mutation::Truncate { frac: r.below(65536) as u16 },
        58..=61 => Mutation::Extend { n: r.range(1, 40) as u8 },
        62..=71 => Mutation::TagOf(other(r)),
        72..=79 => Mutation::Splice(other(r)),
        80..=84 => Mutation::CredsOf(other(r)),
        _ => Mutation::SecretControl { kind: r.below(3) as u8, with_queue_id: r.chance(2, 3), key: r.next() },
    }
}

fn forge_plan(seed: u64, mut r: Rng, c: Cfg) -> Plan {
    let forget = seed % 10 >= 7;
    let cs = clients(&mut r, MIB, 2 * MIB, 100_000, false, if forget { 100_000 } else { 20_000 });
    let mut faults = vec![];
    if r.chance(1, 2) {
        let pm = r.pick(&[5u32, 20, 50]);
        faults.push(Fault { dir: DIR_BOTH, sel: Sel::OrdRange { from: 0, to: u64::MAX, pm, key: r.next() }, act: Act::Drop });
    }
    if r.chance(1, 4) {
        faults.push(Fault {
            dir: DIR_BOTH,
            sel: Sel::OrdRange { from: 0, to: u64::MAX, pm: 20, key: r.next() },
            act: Act::Dup { n: 1, gap_us: r.size(0, c.base_delay_us * 2 + 10) },
        });
    }
    let total: u64 = cs.iter().flat_map(|c| c.streams.iter()).map(|s| s.req.total + s.resp.total).sum();
    let est = total / 1000 + 12;
    let mut forges = vec![];
    for _ in 0..r.range(6, 28) {
        let skew = match r.below(6) {
            0 => 0,
            1 => 1,
            2 => -1,
            3 => c.base_delay_us as i64,
            4 => -(c.base_delay_us as i64) / 2,
            _ => 5 * c.base_delay_us as i64,
        };
        let (ord, kind) = match r.below(10) {
            // early datagrams (stream set-up) get extra weight
            0..=2 => (r.below(8), None),
            3..=6 => (r.size(0, est), None),
            7 => (r.size(0, est / 2 + 2), Some(0)),
            8 => (r.size(0, est / 8 + 2), Some(1)),
            _ => (r.below(4), Some(5)),
        };
        forges.push(Forge { dir: r.pick(&[DIR_C2S, DIR_S2C]), ord, kind, replace: r.chance(3, 10), skew_us: skew, mutation: mutation(&mut r) });
    }
    let vanish = if forget {
        // secret-control packets of the forget family travel server -> client
        for _ in 0..r.range(2, 6) {
            forges.push(Forge {
                dir: DIR_S2C,
                ord: r.below(3),
                kind: Some(5),
                replace: r.chance(1, 4),
                skew_us: r.pick(&[0i64, 1, -1, 50]),
                mutation: match r.below(4) {
                    0 => Mutation::Flip { region: Region::Credentials, frac: r.below(65536) as u16, xor: 1u8 << r.below(8) },
                    1 => Mutation::Flip { region: Region::AuthTag, frac: r.below(65536) as u16, xor: 1u8 << r.below(8) },
                    2 => Mutation::Flip { region: Region::Any, frac: r.below(65536) as u16, xor: 1u8 << r.below(8) },
                    _ => mutation(&mut r),
                },
            });
        }
        Some(Vanish::Forget { at: if r.chance(1, 2) { Pos::C2sOrd(r.below(40)) } else { Pos::TimeUs(r.size(0, c.base_delay_us * 20 + 100)) } })
    } else {
        None
    };
    // key-phase probes: an EXTRA copy of a mid-stream stream packet with only the KEY_PHASE bit
    // (bit 0 of the first byte) flipped, just before or after the original.  Drawn from its own
    // generator so that the rest of the plan is unchanged.
    {
        let mut k = Rng::new(hashn(seed, &[0x6b70]));
        if k.chance(2, 3) {
            for dir in [DIR_C2S, DIR_S2C] {
                if k.chance(3, 4) {
                    forges.push(Forge {
                        dir,
                        ord: k.range(1, 2 + est / 6),
                        kind: Some(0),
                        replace: false,
                        skew_us: k.pick(&[-1i64, 1, 1, (c.base_delay_us / 2) as i64, -((c.base_delay_us / 2) as i64)]),
                        mutation: Mutation::Flip { region: Region::Tag, frac: 0, xor: 0x01 },
                    });
                }
            }
        }
    }
    Plan {
        seed,
        property: "C18".into(),
        family: if forget { "forge_forget".into() } else { "forge".into() },
        cfg: c,
        clients: cs,
        faults,
        vanish,
        forges,
        forge_as_drop: false,
    }
}
