//! C19 (sequential half): dc replay window `path::secret::receiver::State` and key-id issuer
//! `path::secret::sender::State` against set models, driven by a small network model.
//!
//! Real semantics the oracle relies on:
//!  * receiver.rs:11 `WINDOW = 896`; receiver.rs:110-160 `post_authentication`: the bit index of
//!    an id is `max_seen - id` (receiver.rs:140) and an id is in memory iff that index < 896
//!    (`seen.get_mut(idx)` receiver.rs:145), so distance 895 is still judged exactly and distance
//!    896 is `Unknown` -- exactly the property's "less than 896 below".
//!  * receiver.rs:72-80: the reserved maximum id (`KeyId::MAX`) is refused with `Unknown`.
//!  * receiver.rs:54-56: `AlreadyExists` means the id *definitely* was accepted before.
//!  * receiver.rs:128-135: a forward move by more than 896 clears the window, by <= 896 shifts it.
//!  * sender.rs:37-62 `next_key_id` = fetch_update(+1) returning the previous value;
//!    sender.rs:76-79 `update_for_stale_key(m)` = fetch_max(m).
//!
//! Oracle per `post_authentication(id)` (statement of C19, nothing more):
//!  * `Ok` for an id accepted before                       -> C19.recv.duplicate_accepted
//!  * `Err` for an id never accepted, != MAX, and above or less than 896 below the highest
//!    accepted id                                            -> C19.recv.fresh_refused
//!  * `AlreadyExists` for an id never accepted             -> C19.recv.already_exists_for_unseen
//!    (an `Ok` for a never-seen id *outside* the window is not required but also not forbidden by
//!    the statement; it is recorded in the model and counted as `accepted_beyond_required`).
//! Oracle per `next_key_id()`: strictly above every id issued before (C19.send.not_increasing)
//! and not below any StaleKey minimum applied before (C19.send.below_stale_minimum).

use crate::{common::*, dcshim::Sender};
use s2n_quic_dc::{
    credentials::{Credentials, Id},
    path::secret::receiver::{self, Error as RecvError},
};
use s2n_quic_core::varint::VarInt;
use simkit::Rng;
use std::collections::BTreeSet;

const WINDOW: u64 = 896;
/// StaleKey minima are kept this far below 2^62: `next_key_id` panics by design when the counter
/// reaches the end of the id space (sender.rs:41-52), which is not what C19 is about.
const STALE_MAX: u64 = (1 << 62) - (1 << 20);

struct Exec<'r> {
    recv: receiver::State,
    send: Sender,
    cred_id: Id,
    // receiver model
    accepted: BTreeSet<u64>,
    max: Option<u64>,
    // sender model
    last_issued: Option<u64>,
    floor: u64,
    // network
    link: Vec<u64>,
    delivered: Vec<u64>,
    stale_log: Vec<u64>,
    rec: &'r mut Rec,
    reordered_accepts: u64,
    rejections: u64,
    edge_hits: u64,
    stale_effective: u64,
    issued: u64,
}

impl Exec<'_> {
    fn arrive(&mut self, id: u64, kind: &'static str) {
        let creds = Credentials { id: self.cred_id, key_id: VarInt::new(id).unwrap() };
        let got = self.recv.post_authentication(&creds);
        let seen = self.accepted.contains(&id);
        let in_reach = match self.max {
            None => true,
            Some(m) => id > m || m - id < WINDOW,
        };
        let must_accept = !seen && id != VARINT_MAX && in_reach;
        self.rec.out(0xa1, id, match got {
            Ok(()) => 0,
            Err(RecvError::AlreadyExists) => 1,
            Err(RecvError::Unknown) => 2,
        });
        self.rec.note(|| format!("{got:?}"));
        // injected network faults, classified per arrival, and probes (before the model moves)
        {
            let s = &mut self.rec.stats;
            if seen {
                s.fault("net_duplicate_or_replayed_id");
            } else if self.max.is_some_and(|m| id < m) {
                s.fault("net_reordered_id");
            } else if self.max.is_some_and(|m| id > m + 1) {
                s.fault("net_loss_or_jump_gap");
            }
            if id == VARINT_MAX {
                s.fault("net_reserved_max_id");
            }
            if let Some(m) = self.max {
                if id > m {
                    let d = id - m;
                    if d > WINDOW {
                        s.probe("recv_window_cleared_by_jump");
                    } else if d == WINDOW {
                        s.probe("recv_shift_by_exactly_896");
                    }
                    if d >= 1 << 32 {
                        s.probe("recv_jump_ge_2_pow_32");
                    }
                } else {
                    match m - id {
                        895 => s.probe("recv_arrival_at_distance_895"),
                        896 => s.probe("recv_arrival_at_distance_896"),
                        897 => s.probe("recv_arrival_at_distance_897"),
                        _ => {}
                    }
                    if (m - id == 895 || m - id == 896 || m - id == 897) && !seen {
                        self.edge_hits += 1;
                    }
                }
            }
            if id == VARINT_MAX {
                s.probe("recv_reserved_max_id_arrived");
            }
        }
        match got {
            Ok(()) => {
                if seen {
                    return self.rec.fail("C19.recv.duplicate_accepted", kind, format!("key id {id} accepted a second time (highest accepted {:?})", self.max));
                }
                if !must_accept {
                    self.rec.stats.probe("recv_accepted_beyond_required");
                }
                if self.max.is_some_and(|m| id < m) {
                    self.reordered_accepts += 1;
                    self.rec.stats.probe("recv_reordered_id_accepted");
                }
                self.accepted.insert(id);
                self.max = Some(self.max.map_or(id, |m| m.max(id)));
            }
            Err(e) => {
                if must_accept {
                    return self.rec.fail(
                        "C19.recv.fresh_refused",
                        kind,
                        format!("key id {id} was never accepted, is {} the highest accepted id {:?}, yet was refused with {e:?}", if self.max.is_some_and(|m| id < m) { format!("{} below", self.max.unwrap() - id) } else { "above".into() }, self.max),
                    );
                }
                if e == RecvError::AlreadyExists && !seen {
                    return self.rec.fail("C19.recv.already_exists_for_unseen", kind, format!("key id {id} reported AlreadyExists but was never accepted"));
                }
                self.rejections += 1;
                self.rec.stats.probe(match (e, seen) {
                    (RecvError::AlreadyExists, _) => "recv_duplicate_rejected_already_exists",
                    (RecvError::Unknown, true) => "recv_replay_beyond_window_unknown",
                    (RecvError::Unknown, false) => "recv_unseen_id_unknown",
                });
                if e == RecvError::Unknown {
                    // what the real map answers with: StaleKey{min_key_id = minimum_unseen_key_id}
                    let m = self.recv.minimum_unseen_key_id().as_u64();
                    self.stale_log.push(m);
                }
            }
        }
        self.delivered.push(id);
    }

    fn next(&mut self, kind: &'static str) -> Option<u64> {
        let id = self.send.next_key_id();
        self.rec.out(0xa2, id, 0);
        self.rec.note(|| format!("id {id}"));
        self.issued += 1;
        if let Some(last) = self.last_issued {
            if id <= last {
                self.rec.fail("C19.send.not_increasing", kind, format!("next_key_id()={id} after {last} was already issued"));
                return None;
            }
        }
        if id < self.floor {
            self.rec.fail("C19.send.below_stale_minimum", kind, format!("next_key_id()={id} although a StaleKey minimum of {} was applied before", self.floor));
            return None;
        }
        self.last_issued = Some(id);
        Some(id)
    }

    fn stale(&mut self, m: u64) {
        let expected_next = self.last_issued.map_or(0, |l| l + 1).max(self.floor);
        if m > expected_next {
            self.stale_effective += 1;
            self.rec.stats.probe("send_stale_key_raised_counter");
            if m - expected_next >= 1 << 32 {
                self.rec.stats.probe("send_stale_key_jump_ge_2_pow_32");
            }
        } else {
            self.rec.stats.probe("send_stale_key_old_value_no_effect");
            self.rec.stats.fault("stale_key_old_or_replayed_value");
        }
        self.send.update_for_stale_key(m);
        self.floor = self.floor.max(m);
        self.rec.out(0xa3, m, 0);
    }

    fn step(&mut self, op: &Op) {
        match *op {
            Op::Arrive { id } if id <= VARINT_MAX => {
                self.rec.stats.op("recv.post_authentication");
                self.arrive(id, "arrive");
            }
            Op::Next => {
                self.rec.stats.op("send.next_key_id");
                self.next("next_key_id");
            }
            Op::Stale { m } if m <= STALE_MAX => {
                self.rec.stats.op("send.update_for_stale_key");
                self.stale(m);
            }
            Op::Send => {
                self.rec.stats.op("send.next_key_id");
                if let Some(id) = self.next("send") {
                    self.link.push(id);
                }
            }
            Op::Deliver { slot, keep } if !self.link.is_empty() => {
                self.rec.stats.op("recv.post_authentication");
                let i = slot as usize % self.link.len();
                if i > 0 {
                    self.rec.stats.probe("link_reordered_delivery");
                }
                let id = if keep {
                    self.rec.stats.probe("link_duplicated_delivery");
                    self.link[i]
                } else {
                    self.link.remove(i)
                };
                self.arrive(id, "deliver");
            }
            Op::Replay { idx } if !self.delivered.is_empty() => {
                self.rec.stats.op("recv.post_authentication");
                self.rec.stats.probe("link_replayed_old_packet");
                let id = self.delivered[idx as usize % self.delivered.len()];
                self.arrive(id, "replay");
            }
            Op::DeliverStale { idx } if !self.stale_log.is_empty() => {
                self.rec.stats.op("send.update_for_stale_key");
                let i = idx as usize % self.stale_log.len();
                if i + 1 < self.stale_log.len() {
                    self.rec.stats.probe("stale_key_delivered_out_of_order_or_replayed");
                }
                let m = self.stale_log[i];
                if m <= STALE_MAX {
                    self.stale(m);
                }
            }
            _ => self.rec.stats.skipped_precondition += 1,
        }
    }
}

pub fn execute(h: &History, trace: bool) -> Outcome {
    let structure: &'static str = match h.structure.as_str() {
        "recv" => "recv",
        "sender" => "sender",
        _ => "loop",
    };
    let mut rec = Rec::new("C19", structure, trace);
    let nontrivial;
    {
        let mut e = Exec {
            recv: receiver::State::new(),
            send: Sender::new(),
            cred_id: Id::from([7u8; 16]),
            accepted: BTreeSet::new(),
            max: None,
            last_issued: None,
            floor: 0,
            link: vec![],
            delivered: vec![],
            stale_log: vec![],
            rec: &mut rec,
            reordered_accepts: 0,
            rejections: 0,
            edge_hits: 0,
            stale_effective: 0,
            issued: 0,
        };
        for (i, op) in h.ops.iter().enumerate() {
            e.rec.begin(i, op);
            e.step(op);
            if e.rec.failed() {
                break;
            }
        }
        nontrivial = match structure {
            "recv" => e.reordered_accepts >= 1 && e.rejections >= 1,
            "sender" => e.stale_effective >= 1 && e.issued >= 2,
            _ => e.reordered_accepts >= 1 && e.rejections >= 1 && e.stale_effective >= 1,
        };
        if e.edge_hits > 0 {
            e.rec.stats.probe("recv_history_hit_window_edge_with_unseen_id");
        }
    }
    rec.finish(nontrivial)
}

// ---------------------------------------------------------------------------------------
// generators

const SPANS: [u64; 6] = [1, 8, 895, 896, 897, 2000];
const JUMPS: [u64; 7] = [896, 897, 1000, 1 << 20, 1 << 32, 1 << 40, (1 << 40) - 1];

fn gen_recv(rng: &mut Rng) -> Vec<Op> {
    let n = rng.range(1, 200) as usize;
    let k0 = rng.pick(&[0u64, 0, 1, 5, 895, 896, 1000, (1 << 32) - 3, 1 << 40, VARINT_MAX - 4000]);
    let span = rng.pick(&SPANS);
    // delivery probability: dense (every id arrives) ... sparse (the <=200 arrivals spread over
    // a few thousand ids, the rest is lost)
    let keep_permille = rng.pick(&[1000u64, 1000, 500, 200, 80, 40]);
    let mut arrivals: Vec<(u64, u64, u64)> = vec![]; // (time, tie-break, id)
    let (mut id, mut t, mut seq) = (k0, 0u64, 0u64);
    while arrivals.len() < n + 8 && id < VARINT_MAX {
        if rng.chance(1, 70) {
            id = id.saturating_add(rng.pick(&JUMPS)).min(VARINT_MAX - 1);
        }
        if rng.below(1000) < keep_permille {
            arrivals.push((t + rng.below(span), seq, id));
            seq += 1;
            if rng.chance(6, 100) {
                arrivals.push((t + rng.below(2 * span + 2), seq, id));
                seq += 1;
            }
            if rng.chance(4, 100) {
                arrivals.push((t + rng.range(span, 3 * span + 50), seq, id));
                seq += 1;
            }
        }
        id += 1;
        t += 1;
    }
    arrivals.sort();
    let mut ids: Vec<u64> = arrivals.into_iter().map(|a| a.2).collect();
    ids.truncate(n);
    // stragglers placed exactly at the window edge relative to the highest id delivered so far
    let k = rng.range(0, 4);
    for _ in 0..k {
        if ids.is_empty() {
            break;
        }
        let j = rng.below(ids.len() as u64) as usize;
        let m = ids[..=j].iter().copied().max().unwrap();
        let d = rng.pick(&[894u64, 895, 895, 896, 896, 897, 898, 1, 2]);
        if m >= d {
            ids.insert(j + 1, m - d);
        }
    }
    // replays of arbitrary age and the reserved id
    let k = rng.range(0, 3);
    for _ in 0..k {
        if ids.len() < 2 {
            break;
        }
        let j = rng.below(ids.len() as u64) as usize;
        let old = ids[rng.below(j as u64 + 1) as usize];
        ids.insert(j + 1, old);
    }
    if rng.chance(1, 4) {
        let j = rng.below(ids.len() as u64 + 1) as usize;
        ids.insert(j, VARINT_MAX);
    }
    ids.truncate(200);
    ids.into_iter().map(|id| Op::Arrive { id }).collect()
}

fn gen_sender(rng: &mut Rng) -> Vec<Op> {
    let n = rng.range(1, 200) as usize;
    let mut cur = 0u64;
    let mut stale_seen: Vec<u64> = vec![];
    let mut ops = vec![];
    while ops.len() < n {
        if rng.chance(70, 100) {
            ops.push(Op::Next);
            cur += 1;
        } else {
            let m = match rng.below(10) {
                0..=2 => cur.saturating_sub(rng.range(0, 50)),
                3..=4 => cur + rng.range(0, 3),
                5 => cur + rng.range(890, 900),
                6 => cur.saturating_add(rng.pick(&JUMPS)),
                7..=8 if !stale_seen.is_empty() => stale_seen[rng.below(stale_seen.len() as u64) as usize],
                _ => rng.range(0, cur + 2000),
            }
            .min(STALE_MAX);
            stale_seen.push(m);
            cur = cur.max(m);
            ops.push(Op::Stale { m });
        }
    }
    ops
}

fn gen_loop(rng: &mut Rng) -> Vec<Op> {
    let n = rng.range(1, 200) as usize;
    let span = rng.pick(&[1u32, 2, 8, 30]);
    let mut ops = vec![];
    let mut cur = 0u64;
    while ops.len() < n {
        let op = match rng.below(100) {
            0..=39 => {
                cur += 1;
                Op::Send
            }
            40..=71 => Op::Deliver { slot: if rng.chance(6, 10) { 0 } else { rng.below(span as u64) as u32 }, keep: rng.chance(8, 100) },
            72..=75 => Op::Deliver { slot: u32::MAX, keep: false },
            76..=83 => Op::Replay { idx: rng.next() as u32 },
            84..=93 => Op::DeliverStale { idx: if rng.chance(1, 2) { u32::MAX } else { rng.next() as u32 } },
            94..=97 => {
                // authenticated but arbitrary StaleKey value (old replay, bit flip): forces the
                // ids apart so that packets still in flight fall out of the window
                let m = cur.saturating_add(rng.pick(&[1u64, 100, 890, 895, 896, 897, 900, 1 << 20, 1 << 40])).min(STALE_MAX);
                cur = cur.max(m);
                Op::Stale { m }
            }
            _ => Op::Arrive { id: rng.pick(&[0u64, VARINT_MAX, cur, cur.saturating_sub(896), cur.saturating_sub(895)]) },
        };
        ops.push(op);
    }
    ops
}

pub fn generate(seed: u64) -> History {
    let mut rng = Rng::new(seed ^ 0xc19_c19_c19);
    let (structure, ops) = match rng.below(100) {
        0..=54 => ("recv", gen_recv(&mut rng)),
        55..=69 => ("sender", gen_sender(&mut rng)),
        _ => ("loop", gen_loop(&mut rng)),
    };
    History { property: "C19".into(), structure: structure.into(), seed, param: 0, ops }
}
