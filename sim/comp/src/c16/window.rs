//! C16: `s2n_quic_core::packet::number::SlidingWindow` (duplicate window, 128 bits + right edge)
//! against `BTreeSet<u64>` of inserted packet numbers + highest inserted.
//!
//! Reference (sliding_window.rs:118-127 doc, :303-320): with right edge E (highest inserted),
//! pn > E is new; pn == E is a duplicate; E - pn >= 129 is TooOld; otherwise Duplicate iff
//! inserted before.  Errors change nothing.  `insert_with_evicted` additionally reports exactly
//! the packet numbers that were still insertable before the call and are TooOld after it
//! (sliding_window.rs:136-139).

use crate::common::*;
use s2n_quic_core::{
    packet::number::{PacketNumber, PacketNumberSpace, SlidingWindow, SlidingWindowError},
    varint::VarInt,
};
use simkit::Rng;
use std::collections::BTreeSet;

const WIDTH: u64 = 129;

fn pn(v: u64) -> PacketNumber {
    PacketNumberSpace::ApplicationData.new_packet_number(VarInt::new(v).unwrap())
}

struct Exec<'r> {
    real: SlidingWindow,
    seen: BTreeSet<u64>,
    edge: Option<u64>,
    rec: &'r mut Rec,
    dups: u64,
    too_old: u64,
    slides: u64,
}

impl Exec<'_> {
    fn verdict(&self, p: u64) -> Result<(), SlidingWindowError> {
        match self.edge {
            None => Ok(()),
            Some(e) if p > e => Ok(()),
            Some(e) if p == e => Err(SlidingWindowError::Duplicate),
            Some(e) if e - p >= WIDTH => Err(SlidingWindowError::TooOld),
            Some(_) => {
                if self.seen.contains(&p) {
                    Err(SlidingWindowError::Duplicate)
                } else {
                    Ok(())
                }
            }
        }
    }

    fn probes(&mut self, p: u64, v: &Result<(), SlidingWindowError>) {
        let s = &mut self.rec.stats;
        if let Some(e) = self.edge {
            if p > e {
                let d = p - e;
                self.slides += 1;
                if d > 128 {
                    s.probe("window_jump_gt_128");
                }
                if d == 128 || d == 129 {
                    s.probe("window_jump_exactly_128_or_129");
                }
                if d > 1 << 32 {
                    s.probe("window_jump_huge");
                }
            } else {
                match e - p {
                    127 => s.probe("window_distance_127"),
                    128 => s.probe("window_distance_128_last_in_window"),
                    129 => s.probe("window_distance_129_first_too_old"),
                    _ => {}
                }
                if v.is_ok() {
                    s.probe("window_reordered_insert_accepted");
                }
            }
        }
        match v {
            Err(SlidingWindowError::Duplicate) => {
                self.dups += 1;
                s.probe("window_duplicate_rejected");
            }
            Err(SlidingWindowError::TooOld) => {
                self.too_old += 1;
                s.probe("window_too_old_rejected");
            }
            Ok(()) => {}
        }
    }

    fn apply(&mut self, p: u64) {
        self.seen.insert(p);
        self.edge = Some(self.edge.map_or(p, |e| e.max(p)));
        // positions that can never be told apart again need not be kept
        let e = self.edge.unwrap();
        if self.seen.len() > 4096 {
            self.seen = self.seen.split_off(&e.saturating_sub(2 * WIDTH));
        }
    }

    fn step(&mut self, op: &Op) {
        match *op {
            Op::SwCheck { pn: p } if p <= VARINT_MAX => {
                self.rec.stats.op("window.check");
                let got = self.real.check(pn(p));
                let want = self.verdict(p);
                self.rec.out(0x5c, got.is_ok() as u64, matches!(got, Err(SlidingWindowError::TooOld)) as u64);
                if got != want {
                    self.rec.fail("C16.window.check", "check", format!("check({p})={got:?} reference {want:?} (right edge {:?})", self.edge));
                }
            }
            Op::SwIns { pn: p } if p <= VARINT_MAX => {
                self.rec.stats.op("window.insert");
                let got = self.real.insert(pn(p));
                let want = self.verdict(p);
                self.rec.out(0x5d, got.is_ok() as u64, matches!(got, Err(SlidingWindowError::TooOld)) as u64);
                self.rec.note(|| format!("{got:?}"));
                if got != want {
                    let oracle = match (&got, &want) {
                        (Ok(()), _) => "C16.window.duplicate_or_old_accepted",
                        (_, Ok(())) => "C16.window.new_packet_rejected",
                        _ => "C16.window.wrong_error",
                    };
                    return self.rec.fail(oracle, "insert", format!("insert({p})={got:?} reference {want:?} (right edge {:?})", self.edge));
                }
                self.probes(p, &want);
                if want.is_ok() {
                    self.apply(p);
                }
            }
            Op::SwInsEv { pn: p } if p <= VARINT_MAX => {
                self.rec.stats.op("window.insert_with_evicted");
                let got = self.real.insert_with_evicted(pn(p));
                let want = self.verdict(p);
                let got_class = got.as_ref().map(|_| ()).map_err(|e| *e);
                self.rec.out(0x5e, got_class.is_ok() as u64, matches!(got_class, Err(SlidingWindowError::TooOld)) as u64);
                if got_class != want {
                    let oracle = match (&got_class, &want) {
                        (Ok(()), _) => "C16.window.duplicate_or_old_accepted",
                        (_, Ok(())) => "C16.window.new_packet_rejected",
                        _ => "C16.window.wrong_error",
                    };
                    return self.rec.fail(oracle, "insert_with_evicted", format!("insert_with_evicted({p})={got_class:?} reference {want:?} (right edge {:?})", self.edge));
                }
                if let Ok(ev) = got {
                    // reference evicted set: insertable before (in window, not seen), TooOld after
                    let mut want_ev: Vec<u64> = vec![];
                    if let Some(e) = self.edge {
                        if p > e {
                            let from = e.saturating_sub(WIDTH - 1);
                            for q in from..e {
                                if !self.seen.contains(&q) && p - q >= WIDTH {
                                    want_ev.push(q);
                                }
                            }
                        }
                    }
                    let got_ev: Vec<u64> = ev.take(200).map(|q| q.as_u64()).collect();
                    self.rec.out(0x5f, got_ev.len() as u64, want_ev.len() as u64);
                    self.rec.note(|| format!("evicted {}", got_ev.len()));
                    if got_ev != want_ev {
                        return self.rec.fail("C16.window.evicted_set", "insert_with_evicted", format!("insert_with_evicted({p}) with right edge {:?} reports evicted {got_ev:?}, reference {want_ev:?}", self.edge));
                    }
                    if !want_ev.is_empty() {
                        self.rec.stats.probe("window_evicted_nonempty");
                    }
                }
                self.probes(p, &want);
                if want.is_ok() {
                    self.apply(p);
                }
            }
            _ => self.rec.stats.skipped_precondition += 1,
        }
    }
}

pub fn execute(h: &History, trace: bool) -> Outcome {
    let mut rec = Rec::new("C16", "window", trace);
    let nontrivial;
    {
        let mut e = Exec { real: SlidingWindow::default(), seen: BTreeSet::new(), edge: None, rec: &mut rec, dups: 0, too_old: 0, slides: 0 };
        for (i, op) in h.ops.iter().enumerate() {
            e.rec.begin(i, op);
            e.step(op);
            if e.rec.failed() {
                break;
            }
        }
        nontrivial = e.dups >= 1 && e.too_old >= 1 && e.slides >= 1;
    }
    rec.finish(nontrivial)
}

pub fn generate(seed: u64) -> History {
    let mut rng = Rng::new(seed ^ 0x5c5c_5c5c);
    let n = rng.range(1, 200) as usize;
    let mut edge: u64 = rng.pick(&[0u64, 0, 5, 128, 129, 130, 1000, (1 << 32) - 100, VARINT_MAX - 5000]);
    let mut ops = Vec::with_capacity(n);
    let mut started = false;
    while ops.len() < n {
        let p = match rng.below(100) {
            // in order
            0..=29 => edge.saturating_add(1),
            // small forward jump (loss)
            30..=39 => edge.saturating_add(rng.range(2, 20)),
            // window-width forward jumps
            40..=47 => edge.saturating_add(rng.pick(&[127u64, 128, 129, 130, 200, 255, 256])),
            // huge jump
            48..=50 => edge.saturating_add(rng.pick(&[1u64 << 20, 1 << 33, 1 << 40])),
            // reordered: inside the window, concentrated at its left edge
            51..=69 => edge.saturating_sub(rng.range(1, 126)),
            70..=84 => edge.saturating_sub(rng.pick(&[126u64, 127, 128, 129, 130, 131])),
            // far too old
            85..=88 => edge.saturating_sub(rng.range(132, 5000)),
            // duplicate of the right edge
            89..=93 => edge,
            94..=95 => 0,
            96 => VARINT_MAX,
            _ => rng.range(0, edge.saturating_add(300)),
        }
        .min(VARINT_MAX);
        let op = match rng.below(10) {
            0..=4 => Op::SwIns { pn: p },
            5..=7 => Op::SwInsEv { pn: p },
            _ => Op::SwCheck { pn: p },
        };
        if !matches!(op, Op::SwCheck { .. }) {
            if !started {
                edge = p;
                started = true;
            } else {
                edge = edge.max(p);
            }
        }
        ops.push(op);
    }
    History { property: "C16".into(), structure: "window".into(), seed, param: 0, ops }
}
