//! C11: anti-amplification accounting on the simulated network (datagram sizes per address).

use crate::{
    kernel::Violation,
    net::Label,
    obs::Space,
    oracle::View,
    plan::*,
    wire,
};
use s2n_quic_core::inet::SocketAddress;
use std::collections::BTreeMap;

fn viol(oracle: &str, sig: &str, detail: String) -> Violation {
    Violation { property: "C11".into(), oracle: oracle.into(), detail, sig: sig.into() }
}

pub fn c11(v: &View) -> Vec<Violation> {
    let mut out = vec![];
    let o = v.out;
    let Some(server) = o.server_addr else { return out };
    let attacker: Option<SocketAddress> = o.net.hosts.iter().find(|h| h.idx == u32::MAX).map(|h| h.addr);

    // ---- 1. three-times rule, per server-side connection (RFC 9000 8.1 counts the bytes
    //         "uniquely attributed to a single connection") ----
    let mut server_conns: Vec<u64> = o.obs.tx_dgrams.iter().filter(|d| d.ep == 0 && d.conn != u64::MAX).map(|d| d.conn).collect();
    server_conns.sort();
    server_conns.dedup();
    for c in server_conns {
        // peer address of this connection: the port the datagrams are sent to
        let Some(first) = o.obs.tx_dgrams.iter().find(|d| d.ep == 0 && d.conn == c) else { continue };
        let port = first.remote_port;
        let Some(caddr) = o.client_addrs.iter().copied().chain(attacker).find(|a| std::net::SocketAddr::from(*a).port() == port) else { continue };
        let t_create = o
            .obs
            .evs
            .iter()
            .filter(|e| e.ep == 0 && e.conn == c)
            .map(|e| e.t_ns)
            .chain(o.obs.rx.iter().filter(|r| r.ep == 0 && r.conn == c).map(|r| r.t_ns))
            .min()
            .unwrap_or(0);
        // the address counts as validated once the server has processed a Handshake packet on
        // this connection (RFC 9000 8.1); with Retry the token has validated it beforehand
        if o.plan.cfg.server.retry {
            continue;
        }
        let t_valid = o.obs.rx.iter().find(|r| r.ep == 0 && r.conn == c && r.space == Space::Handshake).map(|r| r.t_ns).unwrap_or(u64::MAX);
        // upper bound of what the server can have counted: everything that reached its socket
        // from that address since the connection exists
        let mut rx: Vec<(u64, usize)> = o
            .net
            .delivered
            .iter()
            .filter(|(t, dst, src, _, _)| *dst == server && *src == caddr && *t >= t_create)
            .map(|(t, _, _, len, _)| (*t, *len))
            .collect();
        rx.sort();
        let mut sent = 0usize;
        for d in o.obs.tx_dgrams.iter().filter(|d| d.ep == 0 && d.conn == c) {
            let t = d.t_ns;
            if t >= t_valid {
                break;
            }
            let received: usize = rx.iter().take_while(|(tr, _)| *tr <= t).map(|(_, l)| *l).sum();
            if sent >= 3 * received {
                // cause signature: the implementation keeps sending while ANY allowance is left
                // and forgets the excess of the last datagram (saturating counter), so the excess
                // can grow by at most one datagram per received datagram. Anything beyond that
                // bound is a different defect.
                let rounds = rx.iter().take_while(|(tr, _)| *tr <= t).count();
                let max_dgram = o.obs.tx_dgrams.iter().filter(|x| x.ep == 0 && x.conn == c).map(|x| x.bytes.len()).max().unwrap_or(1500);
                let excess = sent + d.bytes.len() - 3 * received;
                let sig = if excess <= rounds * max_dgram { "overshoot_of_last_datagram_forgotten_each_round" } else { "amplification_limit_ignored" };
                out.push(viol(
                    "c11.amplification_limit_exceeded",
                    sig,
                    format!(
                        "server connection {c} started a {}-byte datagram to its unvalidated peer (port {port}) at {} us after having sent {sent} bytes while at most {received} bytes had arrived from that address since the connection was created (3x = {})",
                        d.bytes.len(), t / 1000, 3 * received
                    ),
                ));
                break;
            }
            sent += d.bytes.len();
        }
    }

    // ---- 2. client Initial datagrams are padded to 1200 bytes ----
    for rec in o.net.log.iter().filter(|r| r.dir == Dir::C2S) {
        if Some(rec.src) == attacker {
            continue;
        }
        let Some(bytes) = &rec.bytes else { continue };
        if bytes.is_empty() || bytes[0] & 0x80 == 0 {
            continue;
        }
        let Ok(pkts) = wire::split_datagram(bytes, o.plan.cfg.server.cid_len as usize) else { continue };
        if pkts.iter().any(|p| p.kind == wire::PacketKind::Initial) && bytes.len() < 1200 {
            out.push(viol(
                "c11.client_initial_not_padded",
                "initial_padding",
                format!("client datagram #{} carrying an Initial packet is only {} bytes", rec.ordinal, bytes.len()),
            ));
            break;
        }
    }

    // ---- 3. replies to unattributable datagrams ----
    if let Some(att) = attacker {
        for host_addr in std::iter::once(server).chain(o.client_addrs.iter().copied()) {
            // triggers delivered to this host from the attacker address
            let mut triggers: Vec<(u64, usize, bool, bool)> = vec![]; // (t, len, is_vn, used)
            for (t, dst, src, len, label) in &o.net.delivered {
                if *dst == host_addr && *src == att && *label == Label::Injected {
                    triggers.push((*t, *len, false, false));
                }
            }
            // mark version negotiation triggers (long header, version 0) using the bytes sent
            let mut att_sent: BTreeMap<(u64, usize), Vec<u8>> = BTreeMap::new();
            for rec in o.net.log.iter().filter(|r| r.src == att) {
                if let Some(b) = &rec.bytes {
                    for d in &rec.deliveries {
                        att_sent.insert((d.t_us, d.len), b.clone());
                    }
                }
            }
            for tr in triggers.iter_mut() {
                if let Some(b) = att_sent.get(&(tr.0 / 1000, tr.1)) {
                    if b.len() >= 5 && b[0] & 0x80 != 0 && b[1..5] == [0, 0, 0, 0] {
                        tr.2 = true;
                    }
                }
            }
            triggers.sort();
            for rec in o.net.log.iter().filter(|r| r.src == host_addr && r.dst == att) {
                let first = rec.first_byte;
                let is_long = first & 0x80 != 0;
                let is_vn = is_long && rec.bytes.as_ref().map_or(false, |b| b.len() >= 5 && b[1..5] == [0, 0, 0, 0]);
                // greedy: earliest unused trigger that arrived before the reply and satisfies the rule
                let pos = triggers.iter().position(|(t, len, vn_trigger, used)| {
                    !*used
                        && *t <= rec.t_send_ns
                        && if is_vn { *len >= 1200 && !*vn_trigger } else if !is_long { rec.len < *len } else { rec.len <= *len }
                });
                match pos {
                    Some(p) => triggers[p].3 = true,
                    None => {
                        let kind = if is_vn { "version_negotiation" } else if !is_long { "stateless_reset" } else { "long_header" };
                        out.push(viol(
                            "c11.reply_not_smaller_than_trigger",
                            &format!("unattributable_reply:{kind}"),
                            format!(
                                "{} sent a {}-byte {kind} datagram at {} us to an address that never had a connection; no earlier unanswered trigger justifies it (triggers so far: {:?})",
                                if host_addr == server { "server".to_string() } else { "client".to_string() },
                                rec.len,
                                rec.t_send_ns / 1000,
                                triggers.iter().filter(|t| t.0 <= rec.t_send_ns).map(|t| (t.1, t.2, t.3)).collect::<Vec<_>>()
                            ),
                        ));
                        break;
                    }
                }
            }
        }
    }
    out
}
