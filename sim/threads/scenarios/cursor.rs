//! `s2n_quic_core::sync::cursor` — producer/consumer cursors over shared memory (the layout
//! the socket rings use).  `cursor.rs` uses `core::sync::atomic` directly, so under shuttle the
//! only scheduling points are the `rt::pause()` calls between API calls (interleaving at API
//! granularity); Miri interleaves and reorders inside the calls.

use super::{ev, fail, finish, join, rt, Log, Outcome, Scenario};
use s2n_quic_core::sync::{
    cursor::{Builder, Cursor},
    CachePadded,
};
use std::{cell::UnsafeCell, ptr::NonNull, sync::atomic::AtomicU32, sync::Arc};

pub fn scenarios() -> Vec<Scenario> {
    vec![Scenario::new("cursor.stream", "C17", run)]
}

struct Shared {
    producer: CachePadded<AtomicU32>,
    consumer: CachePadded<AtomicU32>,
    data: Box<[UnsafeCell<u64>]>,
}

// Safety: slot access is synchronised by the cursors (that is what is being checked)
unsafe impl Sync for Shared {}
unsafe impl Send for Shared {}

struct Half {
    cursor: Cursor<u64>,
    _mem: Arc<Shared>,
}
// Safety: each half is moved to exactly one thread
unsafe impl Send for Half {}

fn builder(mem: &Arc<Shared>, size: u32) -> Builder<u64> {
    Builder {
        producer: NonNull::from(&*mem.producer),
        consumer: NonNull::from(&*mem.consumer),
        data: NonNull::new(mem.data.as_ptr() as *mut u64).unwrap(),
        size,
    }
}

#[inline]
fn enc(i: u32) -> u64 {
    let h = (i as u64 + 1).wrapping_mul(0x9e3779b97f4a7c15) >> 32;
    (h << 32) | i as u64 | (1 << 63)
}

fn run() -> Outcome {
    let sig = "cursor.stream";
    let size = 1u32 << rt::range(0, 2);
    let total = size * rt::range(1, 3) as u32;
    let pbatch = rt::range(1, size as u64) as u32;
    let cbatch = rt::range(1, size as u64) as u32;
    let pwm = rt::range(1, size as u64) as u32;
    let cwm = rt::range(1, size as u64) as u32;
    let clock = Arc::new(rt::Clock::new());
    let mem = Arc::new(Shared {
        producer: CachePadded::new(AtomicU32::new(0)),
        consumer: CachePadded::new(AtomicU32::new(0)),
        data: (0..size).map(|_| UnsafeCell::new(0)).collect(),
    });
    let prod = Half { cursor: unsafe { builder(&mem, size).build_producer() }, _mem: mem.clone() };
    let cons = Half { cursor: unsafe { builder(&mem, size).build_consumer() }, _mem: mem.clone() };

    let tp = {
        let mut log = Log::new(0, &clock);
        rt::spawn(move || {
            let mut prod = prod; // move the whole (Send) wrapper, not just the field
            let cur = &mut prod.cursor;
            let mut sent = 0u32;
            while sent < total {
                rt::pause();
                // a watermark above what can ever become free would spin forever on the cache
                let n = cur.acquire_producer(pwm.min(total - sent));
                if n > size {
                    fail("c17.cursor.bounds", sig, format!("acquire_producer returned {n} > size {size}"));
                }
                if n == 0 {
                    log.ev(ev::FULL, sent);
                    rt::spin();
                    continue;
                }
                let k = n.min(pbatch).min(total - sent);
                let (a, b) = unsafe { cur.producer_data() };
                for (i, slot) in a.iter_mut().chain(b.iter_mut()).take(k as usize).enumerate() {
                    *slot = enc(sent + i as u32);
                }
                rt::pause();
                cur.release_producer(k);
                log.ev(ev::PUSH, sent);
                sent += k;
            }
            log
        })
    };
    let tc = {
        let mut log = Log::new(1, &clock);
        rt::spawn(move || {
            let mut cons = cons;
            let cur = &mut cons.cursor;
            let mut got = 0u32;
            while got < total {
                rt::pause();
                let n = cur.acquire_consumer(cwm.min(total - got));
                if n > size {
                    fail("c17.cursor.bounds", sig, format!("acquire_consumer returned {n} > size {size}"));
                }
                if n == 0 {
                    log.ev(ev::EMPTY, got);
                    rt::spin();
                    continue;
                }
                let k = n.min(cbatch);
                let (a, b) = unsafe { cur.consumer_data() };
                for (i, slot) in a.iter().chain(b.iter()).take(k as usize).enumerate() {
                    if *slot != enc(got + i as u32) {
                        fail(
                            "c17.order",
                            sig,
                            format!("slot for item {} holds {:#x}, expected {:#x}", got + i as u32, *slot, enc(got + i as u32)),
                        );
                    }
                }
                rt::pause();
                cur.release_consumer(k);
                log.ev(ev::GOT, got);
                got += k;
            }
            log
        })
    };
    let lp = join(tp);
    let lc = join(tc);
    finish(
        format!("size={size} total={total} pbatch={pbatch} cbatch={cbatch} pwm={pwm} cwm={cwm}"),
        vec![lp, lc],
        super::default_contended,
    )
}
