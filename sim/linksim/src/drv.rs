//! Generic check driver for the E2 component simulators: seeded search over plans on N threads,
//! triage, minimisation, replay files, evidence.  One seed -> one plan -> one exactly
//! repeatable run; the driver itself only aggregates with order-independent operations, so the
//! evidence of a fixed-count (quick) batch is identical across executions.

use serde::{de::DeserializeOwned, Serialize};
use serde_json::{json, Value};
use simkit::{hashn, CheckArgs, Violation};
use std::{
    collections::{BTreeMap, BTreeSet, HashSet},
    sync::{
        atomic::{AtomicBool, AtomicU64, Ordering},
        Mutex,
    },
    time::Instant,
};

#[derive(Default, Debug, Clone)]
pub struct Outcome {
    pub violations: Vec<Violation>,
    /// fault kinds that actually fired (not merely planned)
    pub faults: BTreeMap<&'static str, u64>,
    /// reach probes: how often a state of interest was reached in this run
    pub probes: BTreeMap<&'static str, u64>,
    /// observations: things worth counting that are not violations of the property statement
    pub obs: BTreeMap<&'static str, u64>,
    /// number of oracle evaluations (checks executed) in this run
    pub oracle_evals: u64,
    /// hash of the sequence of event kinds
    pub kind_hash: u64,
    pub nontrivial: bool,
    pub sim_us: u64,
    pub events: u64,
    pub first_events: Vec<String>,
    /// optional small history attached to an observation (first one seen in the run)
    pub obs_example: Option<(String, Value)>,
    /// engine-specific numbers (C15: packets sent per endpoint when the run ended)
    pub aux: Vec<u64>,
}

impl Outcome {
    pub fn fault(&mut self, k: &'static str) {
        *self.faults.entry(k).or_insert(0) += 1;
    }
    pub fn probe(&mut self, k: &'static str) {
        *self.probes.entry(k).or_insert(0) += 1;
    }
    pub fn observe(&mut self, k: &'static str) {
        *self.obs.entry(k).or_insert(0) += 1;
    }
}

pub trait Engine: Sync {
    type Plan: Clone + Serialize + DeserializeOwned + Send + Sync;
    fn property(&self) -> &'static str;
    fn gen(&self, seed: u64) -> Self::Plan;
    fn run(&self, plan: &Self::Plan) -> Outcome;
    /// candidates for shrinking: returns a smaller plan that still violates `oracle`
    fn minimise(&self, plan: &Self::Plan, oracle: &str) -> Self::Plan;
    /// short form of the plan for evidence samples (config without long fault lists)
    fn sample(&self, plan: &Self::Plan, out: &Outcome) -> Value;
    fn rule(&self) -> &'static str;
    fn components(&self) -> Value;
    fn assumptions(&self) -> Vec<&'static str>;
    fn unreached(&self) -> Vec<&'static str>;
    /// probes that must be non-zero over a whole batch (else harness error, exit 2)
    fn required_probes(&self) -> Vec<&'static str>;
    fn quick_runs(&self) -> u64;
}

thread_local! {
    static LAST_PANIC: std::cell::RefCell<Option<String>> = const { std::cell::RefCell::new(None) };
}

pub fn install_panic_hook() {
    static ONCE: std::sync::Once = std::sync::Once::new();
    ONCE.call_once(|| {
        std::panic::set_hook(Box::new(|info| {
            let loc = info.location().map(|l| format!("{}:{}", l.file(), l.line())).unwrap_or_default();
            let msg = if let Some(s) = info.payload().downcast_ref::<&str>() {
                s.to_string()
            } else if let Some(s) = info.payload().downcast_ref::<String>() {
                s.clone()
            } else {
                "?".into()
            };
            LAST_PANIC.with(|p| *p.borrow_mut() = Some(format!("{msg} @ {loc}")));
        }));
    });
}

/// Runs the plan; a panic anywhere below (repo code or harness) becomes an outcome with a
/// violation of oracle `panic` when it comes from /repo code and a harness error otherwise.
pub fn run_caught<E: Engine>(e: &E, plan: &E::Plan) -> Result<Outcome, String> {
    install_panic_hook();
    let r = std::panic::catch_unwind(std::panic::AssertUnwindSafe(|| e.run(plan)));
    match r {
        Ok(o) => Ok(o),
        Err(_) => {
            let msg = LAST_PANIC.with(|p| p.borrow_mut().take()).unwrap_or_default();
            if msg.contains("/s2n-quic-core/") || msg.contains("/s2n-codec/") {
                let mut o = Outcome::default();
                // signature: panic location only
                let sig = msg.rsplit(" @ ").next().unwrap_or("").to_string();
                o.violations.push(Violation {
                    property: e.property().into(),
                    oracle: "panic_in_component".into(),
                    detail: format!("component panicked: {msg}"),
                    sig,
                });
                Ok(o)
            } else {
                Err(format!("harness panic: {msg}"))
            }
        }
    }
}

fn merge(into: &mut BTreeMap<String, u64>, from: &BTreeMap<&'static str, u64>) {
    for (k, v) in from {
        *into.entry((*k).to_string()).or_insert(0) += v;
    }
}

#[derive(Default)]
struct Agg {
    runs: u64,
    events: u64,
    oracle_evals: u64,
    sim_us: u64,
    faults: BTreeMap<String, u64>,
    probes: BTreeMap<String, u64>,
    probe_runs: BTreeMap<String, u64>,
    obs: BTreeMap<String, u64>,
    all_sigs: HashSet<u64>,
    nontrivial_sigs: HashSet<u64>,
    nontrivial_runs: u64,
    samples: BTreeMap<u64, Value>,
    obs_examples: BTreeMap<String, (u64, Value)>,
    violations: Vec<(u64, u64, Violation)>,
    known_kept: u32,
    fresh: u64,
    by_key: BTreeMap<String, u64>,
}

pub fn replay<E: Engine>(e: &E, path: &str) -> i32 {
    let Ok(s) = std::fs::read_to_string(path) else {
        eprintln!("HARNESS-ERROR: cannot read {path}");
        return 2;
    };
    let Ok(doc) = serde_json::from_str::<Value>(&s) else {
        eprintln!("HARNESS-ERROR: {path} is not JSON");
        return 2;
    };
    let Ok(plan) = serde_json::from_value::<E::Plan>(doc["plan"].clone()) else {
        eprintln!("HARNESS-ERROR: {path} has no plan for property {}", e.property());
        return 2;
    };
    let out = match run_caught(e, &plan) {
        Ok(o) => o,
        Err(m) => {
            eprintln!("HARNESS-ERROR: {m}");
            return 2;
        }
    };
    println!(
        "replay {path}: events={} kind_hash={:016x} (recorded {})",
        out.events,
        out.kind_hash,
        doc["kind_hash"].as_str().unwrap_or("-")
    );
    for l in out.first_events.iter().take(if std::env::var("VERIF_DEBUG").is_ok() { usize::MAX } else { 0 }) {
        println!("  {l}");
    }
    let want = doc["violation"]["oracle"].as_str().unwrap_or("");
    let known = simkit::load_known();
    let mut code = 0;
    let mut seen = BTreeSet::new();
    for v in &out.violations {
        if !seen.insert(v.oracle.clone()) {
            continue;
        }
        if let Some(k) = simkit::is_known(&known, v) {
            println!("KNOWN-FINDING: property={} {} [oracle {}]", v.property, k.text, v.oracle);
            continue;
        }
        println!("violation: {} :: {}", v.oracle, v.detail);
        println!("VIOLATION property={} replay={}", v.property, path);
        code = 1;
    }
    if code == 0 {
        println!("replay: no violation (recorded oracle: {want})");
    } else if !want.is_empty() && !out.violations.iter().any(|v| v.oracle == want) {
        println!("replay: violation differs from the recorded oracle {want}");
    }
    code
}

pub fn check<E: Engine>(e: &E, a: &CheckArgs) -> i32 {
    if let Some(p) = &a.replay {
        return replay(e, p);
    }
    let t0 = Instant::now();
    let thorough = a.thorough();
    // quick: fixed number of runs (deterministic evidence), hard wall cap 55 s.
    // thorough: time-boxed by --budget-s (default 900 s), run count is whatever fits.
    let max_runs = a.runs.unwrap_or(if thorough { u64::MAX } else { e.quick_runs() });
    let budget = if thorough { a.budget(900) } else { a.budget(55) };
    let next = AtomicU64::new(0);
    let stop = AtomicBool::new(false);
    let agg = Mutex::new(Agg::default());
    let harness_err: Mutex<Option<String>> = Mutex::new(None);
    let strict_extra = std::env::var("LINKSIM_KEEP_GOING").is_ok();
    let slow_ms: Option<u64> = std::env::var("LINKSIM_SLOW_MS").ok().and_then(|s| s.parse().ok());
    let known = simkit::load_known();
    let known_runs = AtomicU64::new(0);

    std::thread::scope(|s| {
        for _ in 0..a.threads.max(1) {
            s.spawn(|| {
                let mut local = Agg::default();
                loop {
                    if stop.load(Ordering::Relaxed) || t0.elapsed() >= budget {
                        break;
                    }
                    let i = next.fetch_add(1, Ordering::Relaxed);
                    if i >= max_runs {
                        break;
                    }
                    let seed = hashn(a.seed, &[0x11c5, i]);
                    let plan = e.gen(seed);
                    let t_run = Instant::now();
                    let out = match run_caught(e, &plan) {
                        Ok(o) => o,
                        Err(m) => {
                            *harness_err.lock().unwrap() = Some(format!("run {i} seed {seed}: {m}"));
                            stop.store(true, Ordering::Relaxed);
                            break;
                        }
                    };
                    if let Some(ms) = slow_ms {
                        let el = t_run.elapsed().as_millis() as u64;
                        if el >= ms {
                            eprintln!("slow run: index {i} seed {seed} {el} ms events {} sim {} us oracle_evals {}", out.events, out.sim_us, out.oracle_evals);
                        }
                    }
                    local.runs += 1;
                    local.events += out.events;
                    local.oracle_evals += out.oracle_evals;
                    local.sim_us += out.sim_us;
                    merge(&mut local.faults, &out.faults);
                    merge(&mut local.probes, &out.probes);
                    for (k, v) in &out.probes {
                        if *v > 0 {
                            *local.probe_runs.entry((*k).to_string()).or_insert(0) += 1;
                        }
                    }
                    merge(&mut local.obs, &out.obs);
                    local.all_sigs.insert(out.kind_hash);
                    if out.nontrivial {
                        local.nontrivial_runs += 1;
                        local.nontrivial_sigs.insert(out.kind_hash);
                        if local.samples.len() < 4 || local.samples.keys().next_back().is_some_and(|k| *k > i) {
                            local.samples.insert(i, e.sample(&plan, &out));
                            while local.samples.len() > 4 {
                                let k = *local.samples.keys().next_back().unwrap();
                                local.samples.remove(&k);
                            }
                        }
                    }
                    if let Some((k, ex)) = &out.obs_example {
                        let cur = local.obs_examples.get(k).map(|x| x.0).unwrap_or(u64::MAX);
                        if i < cur {
                            local.obs_examples.insert(k.clone(), (i, ex.clone()));
                        }
                    }
                    if !out.violations.is_empty() {
                        let mut fresh = 0;
                        for v in out.violations {
                            // known findings neither stop the batch nor crowd out new violations
                            if simkit::is_known(&known, &v).is_some() {
                                known_runs.fetch_add(1, Ordering::Relaxed);
                                if local.known_kept < 2 {
                                    local.known_kept += 1;
                                    local.violations.push((i, seed, v));
                                }
                                continue;
                            }
                            fresh += 1;
                            let n = local.by_key.entry(format!("{} [{}]", v.oracle, v.sig)).or_insert(0);
                            *n += 1;
                            if *n <= 6 {
                                local.violations.push((i, seed, v));
                            }
                        }
                        local.fresh += fresh;
                        // quick batches are fixed-size and always run to the end (deterministic
                        // evidence); a time-boxed thorough batch stops once there is enough
                        // material for triage
                        if thorough && !strict_extra && local.fresh >= 8 {
                            // enough material for triage; stop the batch early
                            stop.store(true, Ordering::Relaxed);
                        }
                    }
                }
                let mut g = agg.lock().unwrap();
                g.runs += local.runs;
                g.events += local.events;
                g.oracle_evals += local.oracle_evals;
                g.sim_us += local.sim_us;
                for (k, v) in local.faults {
                    *g.faults.entry(k).or_insert(0) += v;
                }
                for (k, v) in local.probes {
                    *g.probes.entry(k).or_insert(0) += v;
                }
                for (k, v) in local.probe_runs {
                    *g.probe_runs.entry(k).or_insert(0) += v;
                }
                for (k, v) in local.obs {
                    *g.obs.entry(k).or_insert(0) += v;
                }
                g.all_sigs.extend(local.all_sigs);
                g.nontrivial_sigs.extend(local.nontrivial_sigs);
                g.nontrivial_runs += local.nontrivial_runs;
                for (k, v) in local.samples {
                    g.samples.insert(k, v);
                }
                for (k, (i, v)) in local.obs_examples {
                    let cur = g.obs_examples.get(&k).map(|x| x.0).unwrap_or(u64::MAX);
                    if i < cur {
                        g.obs_examples.insert(k, (i, v));
                    }
                }
                g.violations.extend(local.violations);
                for (k, v) in local.by_key {
                    *g.by_key.entry(k).or_insert(0) += v;
                }
            });
        }
    });

    let mut g = agg.into_inner().unwrap();
    if let Some(m) = harness_err.into_inner().unwrap() {
        eprintln!("HARNESS-ERROR: {m}");
        return 2;
    }
    if g.runs == 0 {
        eprintln!("HARNESS-ERROR: no runs executed");
        return 2;
    }
    g.violations.sort_by(|x, y| (x.0, &x.2.oracle).cmp(&(y.0, &y.2.oracle)));
    let seeds: BTreeMap<u64, u64> = g.violations.iter().map(|(i, s, _)| (*s, *i)).collect();
    let vio: Vec<(u64, Violation)> = g.violations.iter().map(|(_, s, v)| (*s, v.clone())).collect();
    let mut replay_paths = vec![];
    let (exit, new_violations, known_seen) = simkit::triage(e.property(), &vio, |seed, v| {
        let original = e.gen(seed);
        let min = e.minimise(&original, &v.oracle);
        let out = run_caught(e, &min).unwrap_or_default();
        let mv = out.violations.iter().find(|x| x.oracle == v.oracle).cloned().unwrap_or_else(|| v.clone());
        let doc = json!({
            "property": e.property(),
            "engine": "linksim",
            "seed": seed,
            "run_index": seeds.get(&seed),
            "violation": mv,
            "kind_hash": format!("{:016x}", out.kind_hash),
            "first_events": out.first_events,
            "plan": min,
            "original_plan": original,
            "replay": format!("linksim check {} --replay <this file>", e.property()),
        });
        let p = simkit::write_replay_doc(e.property(), &format!("{seed}"), &doc);
        replay_paths.push(p.clone());
        p
    });

    let wall = t0.elapsed().as_secs_f64();
    let samples: Vec<Value> = g.samples.iter().take(4).map(|(i, v)| json!({"run_index": i, "case": v})).collect();
    let mut missing = vec![];
    for p in e.required_probes() {
        if g.probes.get(p).copied().unwrap_or(0) == 0 {
            missing.push(p);
        }
    }
    let coverage = json!({
        "evaluations": g.runs,
        "distinct_nontrivial": g.nontrivial_sigs.len(),
        "rule": e.rule(),
        "samples": samples,
        "nontrivial_runs": g.nontrivial_runs,
        "distinct_event_kind_sequences": g.all_sigs.len(),
        "events_total": g.events,
        "oracle_evaluations": g.oracle_evals,
        "runs_per_hour": if thorough || a.runs.is_some() { json!((g.runs as f64 / wall.max(1e-3) * 3600.0) as u64) } else { json!("= evaluations / wall_s * 3600; wall-clock dependent, so the number itself is printed on stdout and stored only in thorough-tier evidence (quick evidence is byte-identical run to run except wall_s)") },
        "sim_time_total_s": g.sim_us / 1_000_000,
        "faults_fired": g.faults,
        "reach_probes": g.probes,
        "reach_probe_runs": g.probe_runs,
        "observations_not_violations": g.obs,
        "observation_examples": g.obs_examples.iter().map(|(k, (i, v))| json!({"kind": k, "run_index": i, "history": v})).collect::<Vec<_>>(),
        "components": e.components(),
        "not_reached_at_component_level": e.unreached(),
        "known_findings_seen": known_seen,
        "violating_runs_by_oracle": g.by_key,
        "known_finding_runs": known_runs.load(Ordering::Relaxed),
        "quick_batch_truncated_by_wall_cap": !thorough && a.runs.is_none() && g.runs < e.quick_runs() && exit == 0,
        "replays": replay_paths,
        "threads": a.threads,
    });
    let _ = new_violations;
    let violating_runs: u64 = g.by_key.values().sum();
    simkit::write_evidence(a, "exploration", coverage, &e.assumptions(), wall, violating_runs);
    println!(
        "check {} tier={} seed={} runs={} nontrivial={} distinct_nontrivial={} events={} oracle_evals={} sim_time={}s wall={:.1}s runs/s={:.0} violations={} known={}",
        e.property(),
        a.tier,
        a.seed,
        g.runs,
        g.nontrivial_runs,
        g.nontrivial_sigs.len(),
        g.events,
        g.oracle_evals,
        g.sim_us / 1_000_000,
        wall,
        g.runs as f64 / wall.max(1e-3),
        violating_runs,
        known_seen.values().sum::<u64>()
    );
    println!("faults_fired {:?}", g.faults);
    println!("reach_probes {:?}", g.probes);
    if !g.obs.is_empty() {
        println!("observations (not violations) {:?}", g.obs);
    }
    if !g.by_key.is_empty() {
        println!("violating runs by oracle [sig]: {:?}", g.by_key);
    }
    if exit == 0 && !missing.is_empty() {
        eprintln!("HARNESS-ERROR: reach probes at zero: {missing:?}");
        return 2;
    }
    if exit == 0 && !thorough && a.runs.is_none() && g.runs < e.quick_runs() {
        println!("NOTE: quick batch hit the 55 s wall cap after {} of {} runs (machine busy); evidence of this run is not comparable run-to-run", g.runs, e.quick_runs());
    }
    let kr = known_runs.load(Ordering::Relaxed);
    if kr > 0 {
        println!("runs stopped at a known finding: {kr}");
    }
    exit
}
