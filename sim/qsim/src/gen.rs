//! Plan generators (swarm style): one seed -> one plan, per property family.

use crate::{kernel::Rng, plan::*};

const WINDOWS: &[u64] = &[1, 7, 100, 1200, 4096, 16 * 1024, 64 * 1024, 1 << 20, 0];

pub struct Profile {
    pub max_conns: u64,
    pub max_streams: u64,
    pub max_stream_bytes: u64,
    pub allow_reset: bool,
    pub allow_stop: bool,
    pub small_windows: bool,
    pub small_stream_limits: bool,
    pub fault_rates_permille: &'static [u32],
    pub corrupting: bool,
    pub hard_close: bool,
}

impl Default for Profile {
    fn default() -> Self {
        Profile {
            max_conns: 2,
            max_streams: 6,
            max_stream_bytes: 300_000,
            allow_reset: false,
            allow_stop: false,
            small_windows: false,
            small_stream_limits: false,
            fault_rates_permille: &[0, 5, 20, 50, 150],
            corrupting: true,
            hard_close: false,
        }
    }
}

pub fn gen_limits(r: &mut Rng, p: &Profile) -> LimitsCfg {
    let mut l = LimitsCfg::default();
    let pickw = |r: &mut Rng| -> u64 {
        if p.small_windows {
            r.pick(&WINDOWS[..6])
        } else if r.chance(1, 2) {
            0
        } else {
            r.pick(&WINDOWS[3..])
        }
    };
    l.data_window = pickw(r);
    l.bidi_local_window = pickw(r);
    l.bidi_remote_window = pickw(r);
    l.uni_window = pickw(r);
    if p.small_stream_limits || r.chance(1, 4) {
        let opts: &[u64] = &[1, 2, 3, 100];
        l.max_local_bidi = r.pick(&[1, 2, 100]);
        l.max_remote_bidi = r.pick(opts);
        l.max_local_uni = r.pick(&[1, 2, 100]);
        l.max_remote_uni = r.pick(opts);
    }
    l.max_ack_delay_ms = r.pick(&[25, 25, 1, 5, 100]);
    l.ack_elicitation_interval = r.pick(&[2, 2, 1, 4, 10]);
    l.ack_ranges_limit = r.pick(&[10, 10, 2, 3, 50]);
    l.max_active_cids = r.pick(&[3, 3, 2, 4, 8]);
    l.max_send_buffer = r.pick(&[0, 0, 1000, 4096, 65536]) as u32;
    l.initial_rtt_ms = r.pick(&[333, 333, 10, 50, 1000]);
    l.stream_batch = r.pick(&[1, 1, 1, 4]);
    l.idle_timeout_ms = r.pick(&[30_000, 30_000, 5_000, 10_000, 60_000]);
    l
}

pub fn gen_endpoint(r: &mut Rng, p: &Profile) -> EndpointCfg {
    let mut e = EndpointCfg { limits: gen_limits(r, p), ..Default::default() };
    let max = r.pick(&[1500u16, 1500, 1228, 1400, 4000, 9000]);
    e.max_mtu = max;
    e.base_mtu = 1228;
    e.initial_mtu = if r.chance(1, 3) { r.pick(&[1228u16, 1300, 1500, 4000]).min(max) } else { 1228 };
    if r.chance(1, 6) {
        e.base_mtu = e.initial_mtu.min(1300);
    }
    e.cc = r.below(2) as u8;
    e.cid_len = r.pick(&[16u8, 16, 4, 8, 20]);
    e.cid_lifetime_ms = None;
    e.rotate_handshake_cid = r.chance(3, 4);
    if r.chance(1, 5) {
        e.tx_ring = Some(r.pick(&[8_000u32, 16_000, 64_000]));
    }
    if r.chance(1, 5) {
        e.rx_ring = Some(r.pick(&[8_000u32, 16_000, 64_000, 1 << 20]));
    }
    e.flatten_tx = r.chance(1, 3);
    e
}

pub fn gen_config(r: &mut Rng, p: &Profile) -> Config {
    let mut c = Config { server: gen_endpoint(r, p), client: gen_endpoint(r, p), ..Default::default() };
    c.cipher = r.below(3) as u8;
    c.cert_size = r.pick(&[0u32, 1000, 1000, 4000, 16000]);
    c.base_delay_us = r.pick(&[100u64, 1_000, 10_000, 20_000, 50_000, 150_000]);
    c.jitter_us = if r.chance(1, 2) { 0 } else { r.pick(&[10u64, 1_000, 20_000, 100_000]) };
    c.path_mtu = r.pick(&[1500u16, 1500, 1200, 1252, 1350, 1472, 4000, 9000]);
    c.net_batch = r.pick(&[0u32, 0, 0, 1, 3, 16]);
    c.server.retry = r.chance(1, 8);
    // a base MTU is a promise that path and peer can take datagrams of that size: keep the
    // configuration honest (base <= path limit and <= what the peer can receive)
    let fix = |e: &mut EndpointCfg, peer_max: u16, path: u16| {
        let lim = peer_max.min(path.saturating_add(28)).max(1228);
        if e.base_mtu > lim {
            e.base_mtu = lim;
        }
        // RFC 9000 14.1: larger first datagrams only if path and peer are believed to take them
        if e.initial_mtu > lim {
            e.initial_mtu = lim;
        }
        if e.initial_mtu < e.base_mtu {
            e.initial_mtu = e.base_mtu;
        }
    };
    let (smax, cmax) = (c.server.max_mtu, c.client.max_mtu);
    fix(&mut c.server, cmax, c.path_mtu);
    fix(&mut c.client, smax, c.path_mtu);
    c
}

pub fn gen_send(r: &mut Rng, p: &Profile) -> SendScript {
    let total = match r.below(10) {
        0 => 0,
        1 => r.range(1, 20),
        2..=6 => r.size(1, p.max_stream_bytes.min(60_000)),
        _ => r.size(1000, p.max_stream_bytes),
    };
    let nchunks = r.range(1, 4) as usize;
    let chunks: Vec<u32> = (0..nchunks)
        .map(|_| match r.below(6) {
            0 => 1,
            1 => r.range(1, 100) as u32,
            2 | 3 => r.range(500, 5000) as u32,
            4 => r.pick(&[4095u32, 4096, 4097, 1200, 1199, 65535, 65536]),
            _ => r.range(1, 70_000) as u32,
        })
        .collect();
    // tiny chunks for large totals would make runs very long: bound the number of calls
    let avg: u64 = chunks.iter().map(|c| *c as u64).sum::<u64>() / chunks.len() as u64;
    let total = total.min(avg.max(1) * 3000);
    let mode = match r.below(8) {
        0 => SendMode::Vectored(r.range(1, 4) as u8),
        1 => SendMode::SendData,
        2 => SendMode::AsyncWrite,
        _ => SendMode::Send,
    };
    let end = if p.allow_reset && r.chance(1, 4) {
        SendEnd::Reset { at: r.range(0, total), code: r.range(0, 1000) as u32 }
    } else {
        match r.below(6) {
            0 => SendEnd::Close,
            1 => SendEnd::DropHandle,
            _ => SendEnd::Finish,
        }
    };
    let mut pauses = vec![];
    if r.chance(1, 3) {
        for _ in 0..r.range(1, 3) {
            pauses.push((r.range(0, 20) as u32, r.pick(&[1u64, 100, 5_000, 100_000, 1_000_000])));
        }
    }
    // every flush waits for an acknowledgement (one round trip): bound their number
    let mut flush_every = if r.chance(1, 5) { r.range(1, 5) as u32 } else { 0 };
    if flush_every > 0 {
        let calls = total / avg.max(1) + 1;
        if calls / flush_every as u64 > 100 {
            flush_every = (calls / 100) as u32 + 1;
        }
    }
    SendScript { total, chunks, mode, end, pauses, flush_every }
}

pub fn gen_recv(r: &mut Rng, p: &Profile, sender_total: u64) -> RecvScript {
    let mode = match r.below(6) {
        0 => RecvMode::Vectored(r.range(1, 8) as u8),
        1 => RecvMode::AsyncRead(r.pick(&[1u32, 100, 4096, 65536])),
        _ => RecvMode::Receive,
    };
    let stop_at = if p.allow_stop && r.chance(1, 5) {
        Some((r.range(0, sender_total), r.range(0, 1000) as u32))
    } else {
        None
    };
    let mut pauses = vec![];
    if r.chance(1, 3) {
        for _ in 0..r.range(1, 3) {
            pauses.push((r.range(0, 30) as u32, r.pick(&[1u64, 100, 5_000, 100_000, 2_000_000])));
        }
    }
    // AsyncRead(1) on a large stream = one call per byte: bound it
    let mode = match mode {
        RecvMode::AsyncRead(n) if (sender_total / n.max(1) as u64) > 5000 => RecvMode::AsyncRead(4096),
        m => m,
    };
    RecvScript {
        drop_at: None,
        mode,
        stop_at,
        pauses,
        start_delay_us: if r.chance(1, 6) { r.pick(&[1_000u64, 100_000, 3_000_000]) } else { 0 },
    }
}

pub fn gen_stream(r: &mut Rng, p: &Profile) -> StreamPlan {
    let opener = if r.chance(2, 3) { Role::Client } else { Role::Server };
    let bidi = r.chance(1, 2);
    let fwd = gen_send(r, p);
    let fwd_recv = gen_recv(r, p, fwd.total);
    let (rev, rev_recv) = if bidi && r.chance(5, 6) {
        let s = gen_send(r, p);
        let rr = gen_recv(r, p, s.total);
        (Some(s), Some(rr))
    } else {
        (None, None)
    };
    StreamPlan {
        opener,
        bidi,
        open_delay_us: if r.chance(1, 4) { r.pick(&[1u64, 1_000, 50_000, 500_000]) } else { 0 },
        fwd,
        fwd_recv,
        rev,
        rev_recv,
    }
}

pub fn gen_conn(r: &mut Rng, p: &Profile, k: u64) -> ConnScript {
    let n = r.range(1, p.max_streams);
    let streams = (0..n).map(|_| gen_stream(r, p)).collect();
    let close = if p.hard_close && r.chance(1, 3) {
        CloseSpec::At {
            us: r.pick(&[50_000u64, 300_000, 1_000_000, 5_000_000]),
            by: if r.chance(1, 2) { Role::Client } else { Role::Server },
            code: r.range(0, 100) as u32,
        }
    } else if r.chance(1, 4) {
        CloseSpec::DropHandles
    } else {
        CloseSpec::AfterAll {
            by: if r.chance(1, 2) { Role::Client } else { Role::Server },
            code: r.range(0, 100) as u32,
        }
    };
    ConnScript {
        start_us: if k == 0 { 0 } else { r.pick(&[0u64, 1_000, 100_000, 1_000_000]) },
        streams,
        close,
        rebinds: vec![],
        path_delays_us: vec![],
        keep_alive: r.chance(1, 8),
    }
}

pub fn gen_fault_action(r: &mut Rng, corrupting: bool) -> Action {
    let k = if corrupting { r.below(12) } else { r.below(6) };
    match k {
        0 | 1 => Action::Drop,
        2 => Action::Dup { k: r.range(1, 3) as u8, extra_us: r.pick(&[0u64, 10, 1_000, 100_000]) },
        3 | 4 => Action::Delay { us: r.pick(&[100u64, 5_000, 50_000, 300_000, 2_000_000]) },
        5 => Action::EcnCe,
        6 => Action::Corrupt {
            bits: (0..r.range(1, 4)).map(|_| r.below(1 << 16) as u32).collect(),
            also_original: r.chance(1, 2),
        },
        7 => Action::Truncate { n: r.range(0, 1300) as u32, from_end: r.chance(1, 2), also_original: r.chance(1, 2) },
        8 => Action::Extend { n: r.range(1, 50) as u32, also_original: r.chance(1, 2) },
        9 => Action::Splice { at: r.range(1, 1200) as u32, also_original: r.chance(1, 2) },
        10 => Action::Replay { after_us: r.pick(&[0u64, 1_000, 500_000, 5_000_000]), from_other_addr: r.chance(1, 4) },
        _ => Action::Stall { us: r.pick(&[1_000u64, 50_000, 500_000]) },
    }
}

pub fn gen_faults(r: &mut Rng, p: &Profile, until_us: u64) -> Vec<Fault> {
    let mut out = vec![];
    let rate = r.pick(p.fault_rates_permille);
    if rate > 0 {
        // split the rate among 1..3 background fault kinds
        let n = r.range(1, 3);
        for _ in 0..n {
            out.push(Fault {
                when: When::Window {
                    dir: match r.below(4) {
                        0 => Some(Dir::C2S),
                        1 => Some(Dir::S2C),
                        _ => None,
                    },
                    from_us: 0,
                    to_us: until_us,
                    permille: (rate / n as u32).max(1),
                    key: r.next(),
                },
                action: gen_fault_action(r, p.corrupting),
            });
        }
    }
    // targeted faults on early ordinals (handshake flights) and a few random ordinals
    for _ in 0..r.below(4) {
        out.push(Fault {
            when: When::Nth { dir: if r.chance(1, 2) { Dir::C2S } else { Dir::S2C }, n: r.below(12) },
            action: gen_fault_action(r, p.corrupting),
        });
    }
    for _ in 0..r.below(4) {
        out.push(Fault {
            when: When::Nth { dir: if r.chance(1, 2) { Dir::C2S } else { Dir::S2C }, n: r.size(1, 400) },
            action: gen_fault_action(r, p.corrupting),
        });
    }
    out
}

fn total_bytes(conns: &[ConnScript]) -> u64 {
    conns
        .iter()
        .flat_map(|c| c.streams.iter())
        .map(|s| s.fwd.total + s.rev.as_ref().map_or(0, |r| r.total))
        .sum()
}

fn base_plan(seed: u64, property: &str, family: &str, r: &mut Rng, p: &Profile) -> Plan {
    let cfg = gen_config(r, p);
    let nconn = r.range(1, p.max_conns);
    let conns: Vec<ConnScript> = (0..nconn).map(|k| gen_conn(r, p, k)).collect();
    let mut conns = conns;
    // tiny windows cost one round trip per window: bound stream sizes so runs stay short
    let wmin = [&cfg.server.limits, &cfg.client.limits]
        .iter()
        .flat_map(|l| [l.data_window, l.bidi_local_window, l.bidi_remote_window, l.uni_window])
        .filter(|w| *w > 0)
        .min()
        .unwrap_or(u64::MAX);
    if wmin < 100_000 {
        let cap = wmin.saturating_mul(150).max(200);
        for c in conns.iter_mut() {
            for s in c.streams.iter_mut() {
                s.fwd.total = s.fwd.total.min(cap);
                if let SendEnd::Reset { at, .. } = &mut s.fwd.end {
                    *at = (*at).min(s.fwd.total);
                }
                if let Some(rv) = s.rev.as_mut() {
                    rv.total = rv.total.min(cap);
                    if let SendEnd::Reset { at, .. } = &mut rv.end {
                        *at = (*at).min(rv.total);
                    }
                }
            }
        }
    }
    let faults = gen_faults(r, p, u64::MAX);
    let bytes = total_bytes(&conns);
    // generous liveness budget: minimum-window transfer of every byte + timers
    let rtt_us = 2 * (cfg.base_delay_us + cfg.jitter_us) + 200_000;
    let transfer_us = (bytes / 2000 + 50) * rtt_us;
    Plan {
        seed,
        property: property.into(),
        family: family.into(),
        cfg,
        conns,
        faults,
        delay_key: r.next(),
        yield_key: if r.chance(3, 4) { r.next() | 1 } else { 0 },
        data_key: r.next(),
        rand_key: r.next(),
        time_cap_us: 600_000_000 + 4 * transfer_us,
        faults_end_us: None,
        attacker: vec![],
    }
}

pub fn plan_for(property: &str, seed: u64) -> Plan {
    let mut r = Rng::new(crate::kernel::hashn(seed, &[crate::kernel::hash_bytes(property.as_bytes())]));
    match property {
        "C01" => {
            let p = Profile { max_stream_bytes: if r.chance(1, 10) { 2 << 20 } else { 300_000 }, ..Default::default() };
            let mut plan = base_plan(seed, property, "c01.transfer", &mut r, &p);
            // faults are finite so that completion is decidable too (shared with C02)
            let end = r.pick(&[2_000_000u64, 10_000_000, 60_000_000]);
            plan.faults_end_us = Some(end);
            plan.time_cap_us += end;
            plan
        }
        "C02" => match r.below(4) {
            3 => {
                // many short streams through a small stream-count limit and a small connection
                // window; the receiving application reads only the beginning of each message and
                // abandons the stream after the rest has arrived. Every abandoned stream has to
                // give its stream credit and the credit of its unread bytes back, otherwise the
                // sender ends up parked in open()/send() on a healthy network.
                let p = Profile { max_conns: 1, max_streams: 1, max_stream_bytes: 16_000, fault_rates_permille: &[0, 0, 0, 10], corrupting: false, ..Default::default() };
                let mut plan = base_plan(seed, property, "c02.partial_reads", &mut r, &p);
                let sender = if r.chance(1, 2) { Role::Client } else { Role::Server };
                let limit = r.pick(&[1u64, 2, 3, 4]);
                let bidi = r.chance(1, 3);
                let window = r.pick(&[8_192u64, 16_384, 65_536]);
                for e in [&mut plan.cfg.server, &mut plan.cfg.client] {
                    e.limits.max_remote_uni = limit;
                    e.limits.max_remote_bidi = limit;
                    e.limits.max_local_uni = 100;
                    e.limits.max_local_bidi = 100;
                    e.limits.data_window = window;
                    e.limits.uni_window = 0;
                    e.limits.bidi_local_window = 0;
                    e.limits.bidi_remote_window = 0;
                    e.limits.idle_timeout_ms = 30_000;
                }
                let n = r.range(6, 30);
                let template = plan.conns[0].streams[0].clone();
                let mut streams = vec![];
                for k in 0..n {
                    let mut s = template.clone();
                    s.opener = sender;
                    s.bidi = bidi;
                    s.open_delay_us = k * r.pick(&[0u64, 1_000, 20_000]);
                    s.fwd.total = r.range(2_000, (window / 2).min(12_000));
                    s.fwd.chunks = vec![r.pick(&[512u32, 4096, 16384])];
                    s.fwd.mode = SendMode::Send;
                    s.fwd.end = SendEnd::Finish;
                    s.fwd.pauses.clear();
                    s.fwd.flush_every = 0;
                    s.fwd_recv = RecvScript {
                        // small reads so that only a prefix has been consumed
                        mode: RecvMode::AsyncRead(r.pick(&[64u32, 200, 1000])),
                        stop_at: None,
                        pauses: vec![],
                        start_delay_us: 0,
                        drop_at: if r.chance(5, 6) { Some((r.range(1, 600), r.pick(&[0u64, 50_000, 300_000]))) } else { None },
                    };
                    s.rev = None;
                    s.rev_recv = None;
                    streams.push(s);
                }
                plan.conns[0].streams = streams;
                plan.conns[0].keep_alive = false;
                plan.conns[0].close = CloseSpec::AfterAll { by: sender, code: 11 };
                let end = 1_000_000u64;
                plan.faults_end_us = Some(end);
                plan.time_cap_us += end;
                plan
            }
            0 => {
                let p = Profile { allow_reset: true, allow_stop: true, ..Default::default() };
                let mut plan = base_plan(seed, property, "c02.finite", &mut r, &p);
                let end = r.pick(&[500_000u64, 3_000_000, 20_000_000, 45_000_000]);
                // total blackholes of one or both directions somewhere inside the fault window
                for _ in 0..r.below(3) {
                    let from = r.below(end);
                    let len = r.pick(&[100_000u64, 1_000_000, 4_000_000, 12_000_000, 40_000_000]);
                    plan.faults.push(Fault {
                        when: When::Window {
                            dir: match r.below(3) {
                                0 => Some(Dir::C2S),
                                1 => Some(Dir::S2C),
                                _ => None,
                            },
                            from_us: from,
                            to_us: (from + len).min(end),
                            permille: 1000,
                            key: r.next(),
                        },
                        action: Action::Drop,
                    });
                }
                plan.faults_end_us = Some(end);
                plan.time_cap_us += 3 * end;
                plan
            }
            1 => {
                let p = Profile { fault_rates_permille: &[0, 5, 20], ..Default::default() };
                let mut plan = base_plan(seed, property, "c02.blackhole", &mut r, &p);
                let t0 = r.pick(&[0u64, 10_000, 45_000, 100_000, 400_000, 2_000_000, 10_000_000]);
                plan.faults.push(Fault {
                    when: When::Window {
                        dir: match r.below(3) {
                            0 => Some(Dir::C2S),
                            1 => Some(Dir::S2C),
                            _ => None,
                        },
                        from_us: t0,
                        to_us: u64::MAX,
                        permille: 1000,
                        key: r.next(),
                    },
                    action: Action::Drop,
                });
                for c in plan.conns.iter_mut() {
                    c.keep_alive = false;
                }
                plan
            }
            _ => {
                let p = Profile {
                    small_windows: true,
                    small_stream_limits: true,
                    max_stream_bytes: 20_000,
                    fault_rates_permille: &[0, 0, 20, 100],
                    allow_reset: true,
                    allow_stop: true,
                    ..Default::default()
                };
                let mut plan = base_plan(seed, property, "c02.block", &mut r, &p);
                plan.cfg.cert_size = r.pick(&[1000u32, 8000, 16000]);
                let end = r.pick(&[1_000_000u64, 10_000_000, 30_000_000]);
                plan.faults_end_us = Some(end);
                // windows of 1..7 bytes need one round trip per few bytes
                plan.time_cap_us = plan.time_cap_us * 20 + end;
                plan
            }
        },
        "C03" => {
            let p = Profile {
                small_windows: r.chance(3, 4),
                small_stream_limits: r.chance(1, 2),
                max_stream_bytes: 60_000,
                allow_reset: true,
                allow_stop: true,
                fault_rates_permille: &[0, 0, 20, 50],
                corrupting: false,
                hard_close: true,
                ..Default::default()
            };
            let mut plan = base_plan(seed, property, "c03.credit", &mut r, &p);
            plan.time_cap_us *= 20;
            plan
        }
        "C04" => {
            let p = Profile {
                max_stream_bytes: 60_000,
                small_windows: r.chance(1, 2),
                small_stream_limits: r.chance(1, 3),
                allow_reset: true,
                allow_stop: true,
                corrupting: false,
                fault_rates_permille: &[0, 0, 10, 50],
                ..Default::default()
            };
            let mut plan = base_plan(seed, property, "c04.byz", &mut r, &p);
            let end = 5_000_000u64;
            plan.faults_end_us = Some(end);
            plan.time_cap_us = plan.time_cap_us * 4 + end;
            // one rule per run, enumerated by seed so that the catalogue is covered completely
            let kinds: Vec<ByzKind> = vec![
                ByzKind::StreamBeyondStreamCredit { delta: 0, empty_fin: false },
                ByzKind::StreamBeyondStreamCredit { delta: 1 << 20, empty_fin: false },
                ByzKind::StreamBeyondConnCredit { delta: 0, empty_fin: false },
                ByzKind::StreamBeyondConnCredit { delta: 1 << 30, empty_fin: false },
                ByzKind::StreamBeyondStreamCredit { delta: 0, empty_fin: true },
                ByzKind::StreamBeyondStreamCredit { delta: 1 << 16, empty_fin: true },
                ByzKind::StreamBeyondConnCredit { delta: 0, empty_fin: true },
                ByzKind::StreamBeyondConnCredit { delta: 1 << 24, empty_fin: true },
                ByzKind::StreamAtMaxOffset,
                ByzKind::StreamIdBeyondLimit { bidi: true, by: 0 },
                ByzKind::StreamIdBeyondLimit { bidi: false, by: 0 },
                ByzKind::StreamIdBeyondLimit { bidi: true, by: 1 << 40 },
                ByzKind::DataAfterFin,
                ByzKind::ChangedFinalSize { shrink: true },
                ByzKind::ChangedFinalSize { shrink: false },
                ByzKind::ResetOtherFinalSize,
                ByzKind::StreamOnPeerSendOnly,
                ByzKind::MaxStreamDataForUnopenedLocal,
                ByzKind::StopSendingForUnopenedLocal,
                ByzKind::ResetForUnopenedLocal,
                ByzKind::MaxStreamsTooLarge { bidi: true },
                ByzKind::MaxStreamsTooLarge { bidi: false },
                ByzKind::NewCidRetirePriorGtSeq,
                ByzKind::NewCidBadLen { len: 0 },
                ByzKind::NewCidBadLen { len: 21 },
                ByzKind::NewCidDupSeqOtherCid,
                ByzKind::RetireUnissuedSeq { by: 0 },
                ByzKind::RetireUnissuedSeq { by: 1000 },
                ByzKind::HandshakeDoneFromClient,
                ByzKind::NewTokenFromClient,
                ByzKind::AckNeverSent { ahead: 0 },
                ByzKind::UnknownFrameType { ty: 0x1f },
                ByzKind::UnknownFrameType { ty: 0x40 },
                ByzKind::UnknownFrameType { ty: 0x4242 },
                ByzKind::AppFrameInHandshakeSpace { initial: true },
                ByzKind::AppFrameInHandshakeSpace { initial: false },
                ByzKind::CryptoBeyondBuffer,
            ];
            let kind = kinds[(seed % kinds.len() as u64) as usize].clone();
            let client_attacks = match kind {
                ByzKind::HandshakeDoneFromClient | ByzKind::NewTokenFromClient => true,
                _ => r.chance(1, 2),
            };
            let rule = ByzRule { at_packet: r.pick(&[0u64, 1, 2, 5, 20]), conn: u32::MAX, kind };
            if client_attacks {
                plan.cfg.client.byz = vec![rule];
            } else {
                plan.cfg.server.byz = vec![rule];
            }
            plan.conns.truncate(1);
            plan
        }
        "C05" => {
            // the wire-conformance monitor rides on the other families' traffic
            let mut plan = match seed % 4 {
                // byzantine transport-parameter blocks (rule catalogue of C14): the reference
                // parser and the real decoder meet on blocks no encoder of ours emits
                _ if seed % 8 == 7 => plan_for("C14", seed),
                0 => plan_for("C04", seed),
                1 => plan_for("C06", seed),
                2 => plan_for("C03", seed),
                _ => plan_for("C01", seed),
            };
            plan.property = "C05".into();
            plan
        }
        "C06" => {
            if r.chance(2, 3) {
                // only additive faults: every genuine datagram still arrives, so the connection
                // must survive and complete whatever else is injected
                let p = Profile { fault_rates_permille: &[0], max_stream_bytes: 100_000, ..Default::default() };
                let mut plan = base_plan(seed, property, "c06.forge", &mut r, &p);
                plan.faults.clear();
                let rate = r.pick(&[20u32, 50, 150, 400]);
                for _ in 0..r.range(1, 4) {
                    let action = match r.below(7) {
                        0 => Action::Corrupt {
                            bits: (0..r.range(1, 4)).map(|_| r.below(1 << 16) as u32).collect(),
                            also_original: true,
                        },
                        1 => Action::Truncate { n: r.range(0, 1300) as u32, from_end: r.chance(1, 2), also_original: true },
                        2 => Action::Extend { n: r.range(1, 50) as u32, also_original: true },
                        3 => Action::Splice { at: r.range(1, 1200) as u32, also_original: true },
                        4 => Action::Replay { after_us: r.pick(&[0u64, 1_000, 500_000, 5_000_000]), from_other_addr: r.chance(1, 3) },
                        5 => Action::Dup { k: r.range(1, 3) as u8, extra_us: r.pick(&[0u64, 10, 1_000, 100_000]) },
                        _ => Action::Corrupt { bits: vec![r.below(64) as u32], also_original: true },
                    };
                    plan.faults.push(Fault {
                        when: When::Window { dir: None, from_us: 0, to_us: u64::MAX, permille: rate, key: r.next() },
                        action,
                    });
                }
                // half of the plans: corrupted copies of client datagrams from ever new spoofed
                // addresses, interleaved with the genuine traffic, and one NAT rebinding of the
                // genuine client (packets that fail authentication must not use up path state)
                if r.chance(1, 2) {
                    plan.faults.push(Fault {
                        when: When::Window { dir: Some(Dir::C2S), from_us: 0, to_us: u64::MAX, permille: r.pick(&[50u32, 150, 400]), key: r.next() },
                        action: Action::SpoofedCorrupt { bits: (0..r.range(1, 3)).map(|_| 64 + r.below(4000) as u32).collect() },
                    });
                    plan.cfg.server.limits.migration = true;
                    plan.cfg.client.limits.migration = true;
                    plan.cfg.nat_keeps_old_mapping = true;
                    for c in plan.conns.iter_mut() {
                        // after the handshake (a rebinding during the handshake legitimately kills
                        // it), with application traffic afterwards so that the new path is learnt
                        let t = c.start_us + r.pick(&[2_000_000u64, 3_000_000, 5_000_000]) + r.below(500_000);
                        c.rebinds = vec![t];
                        if let Some(s) = c.streams.first_mut() {
                            s.open_delay_us = t - c.start_us + 300_000;
                            s.fwd.total = s.fwd.total.max(2_000);
                            s.fwd.end = SendEnd::Finish;
                        }
                        c.close = CloseSpec::AfterAll { by: Role::Client, code: 9 };
                        c.keep_alive = true;
                    }
                    // the idle period before the late stream must not end the connection
                    plan.cfg.client.limits.idle_timeout_ms = plan.cfg.client.limits.idle_timeout_ms.max(30_000);
                    plan.cfg.server.limits.idle_timeout_ms = plan.cfg.server.limits.idle_timeout_ms.max(30_000);
                }
                // unattributable garbage, also spoofed from the genuine peer address
                for _ in 0..r.below(12) {
                    plan.attacker.push(AttackerDatagram {
                        at_us: r.below(3_000_000),
                        to_server: r.chance(2, 3),
                        kind: r.pick(&[AttackKind::Garbage, AttackKind::ShortHeaderUnknownCid, AttackKind::LongHeaderUnknownVersion, AttackKind::InitialVersionZero]),
                        len: r.range(1, 1500) as u32,
                        key: r.next(),
                    });
                }
                plan.cfg.path_mtu = plan.cfg.path_mtu.max(1500);
                for c in plan.conns.iter_mut() {
                    c.keep_alive = false;
                }
                // application pauses (up to a few seconds) must not look like a dead connection
                plan.cfg.client.limits.idle_timeout_ms = plan.cfg.client.limits.idle_timeout_ms.max(30_000);
                plan.cfg.server.limits.idle_timeout_ms = plan.cfg.server.limits.idle_timeout_ms.max(30_000);
                plan
            } else {
                let p = Profile { max_stream_bytes: 100_000, ..Default::default() };
                let mut plan = base_plan(seed, property, "c06.mixed", &mut r, &p);
                let end = r.pick(&[2_000_000u64, 10_000_000]);
                plan.faults_end_us = Some(end);
                plan.time_cap_us += end;
                plan
            }
        }
        "C08" => {
            let p = Profile {
                // a third of the plans: bulk transfers cut short by an application close while
                // hundreds of packets are unacknowledged (packet number encoding of the close)
                hard_close: r.chance(1, 3),
                max_stream_bytes: if r.chance(1, 3) { 2 << 20 } else { 200_000 },
                corrupting: false,
                fault_rates_permille: &[0, 5, 20, 50, 150],
                ..Default::default()
            };
            let mut plan = base_plan(seed, property, "c08.acks", &mut r, &p);

            // losing ACK-only datagrams and long reordering are what stresses this property
            if r.chance(1, 2) {
                plan.faults.push(Fault {
                    when: When::Window {
                        dir: Some(if r.chance(1, 2) { Dir::C2S } else { Dir::S2C }),
                        from_us: r.below(1_000_000),
                        to_us: r.pick(&[500_000u64, 2_000_000, 10_000_000]),
                        permille: r.pick(&[300u32, 700, 1000]),
                        key: r.next(),
                    },
                    action: Action::Drop,
                });
            }
            let end = r.pick(&[2_000_000u64, 12_000_000]);
            plan.faults_end_us = Some(end);
            plan.time_cap_us += end;
            // one plan in six: a bulk sender with a large window closes the connection in the
            // middle of the transfer, while far more than 128 packets are unacknowledged
            if r.chance(1, 6) {
                plan.family = "c08.close_in_flight".into();
                plan.conns.truncate(1);
                let by = if r.chance(1, 2) { Role::Client } else { Role::Server };
                plan.cfg.base_delay_us = r.pick(&[20_000u64, 50_000, 100_000]);
                plan.cfg.jitter_us = 0;
                plan.cfg.path_mtu = 1500;
                for e in [&mut plan.cfg.server, &mut plan.cfg.client] {
                    e.limits.data_window = 0;
                    e.limits.bidi_local_window = 0;
                    e.limits.bidi_remote_window = 0;
                    e.limits.uni_window = 0;
                    e.limits.max_send_buffer = 4 << 20;
                    e.tx_ring = None;
                    e.rx_ring = None;
                }
                let c = &mut plan.conns[0];
                c.streams.truncate(1);
                let s = &mut c.streams[0];
                s.opener = by;
                s.bidi = false;
                s.open_delay_us = 0;
                s.fwd.total = 8 << 20;
                s.fwd.chunks = vec![65536];
                s.fwd.mode = SendMode::Send;
                s.fwd.end = SendEnd::Finish;
                s.fwd.pauses.clear();
                s.fwd.flush_every = 0;
                s.fwd_recv.pauses.clear();
                s.fwd_recv.start_delay_us = 0;
                s.fwd_recv.stop_at = None;
                s.fwd_recv.mode = RecvMode::Receive;
                s.rev = None;
                s.rev_recv = None;
                // after slow start has opened the window: 8..14 round trips
                let rtt = 2 * plan.cfg.base_delay_us;
                c.close = CloseSpec::At { us: c.start_us + rtt * r.range(6, 10), by, code: 3 };
                // no loss: the window must be allowed to open
                plan.faults.clear();
            }
            plan
        }
        "C11" => {
            let p = Profile {
                max_conns: 3,
                max_streams: 2,
                max_stream_bytes: 5_000,
                corrupting: false,
                fault_rates_permille: &[0, 20, 50, 150, 300],
                ..Default::default()
            };
            let mut plan = base_plan(seed, property, "c11.amplification", &mut r, &p);
            plan.cfg.cert_size = r.pick(&[1000u32, 4000, 8000, 16000, 16000]);
            plan.cfg.server.retry = r.chance(1, 5);
            // handshake-phase faults: early ordinals
            for _ in 0..r.below(5) {
                plan.faults.push(Fault {
                    when: When::Nth { dir: if r.chance(1, 2) { Dir::C2S } else { Dir::S2C }, n: r.below(20) },
                    action: match r.below(3) {
                        0 => Action::Drop,
                        1 => Action::Dup { k: r.range(1, 3) as u8, extra_us: r.pick(&[0u64, 1_000, 100_000]) },
                        _ => Action::Delay { us: r.pick(&[1_000u64, 100_000, 2_000_000]) },
                    },
                });
            }
            for _ in 0..r.range(0, 40) {
                plan.attacker.push(AttackerDatagram {
                    at_us: r.below(5_000_000),
                    to_server: r.chance(5, 6),
                    kind: r.pick(&[AttackKind::Garbage, AttackKind::ShortHeaderUnknownCid, AttackKind::LongHeaderUnknownVersion, AttackKind::VersionNegotiation, AttackKind::InitialVersionZero]),
                    len: match r.below(4) {
                        0 => r.range(1, 60),
                        1 => r.range(1190, 1210),
                        _ => r.range(1, 1500),
                    } as u32,
                    key: r.next(),
                });
            }
            let end = 6_000_000u64;
            plan.faults_end_us = Some(end);
            plan.time_cap_us += end;
            plan
        }
        "C14" => {
            let p = Profile {
                max_conns: 1,
                max_streams: 4,
                max_stream_bytes: 40_000,
                fault_rates_permille: &[0],
                corrupting: false,
                ..Default::default()
            };
            let mut plan = base_plan(seed, property, "c14.params", &mut r, &p);
            plan.faults.clear();
            plan.cfg.jitter_us = 0;
            // enumerate: (side, rule) by seed
            let client_block = (seed / 2) % 2 == 0;
            let cat = crate::oracle6::catalogue(client_block);
            let rule = cat[((seed / 4) % cat.len() as u64) as usize].clone();
            // sometimes combine with an unknown parameter and a reordering (still one verdict)
            let rule = match seed % 2 {
                0 => rule,
                _ => TpRule::Multi(vec![TpRule::Raw { id: 31 * (seed % 1000) + 27, bytes: vec![0x11; (seed % 7) as usize] }, rule, TpRule::Reverse]),
            };
            if client_block {
                plan.cfg.client.tp_rule = Some(rule);
            } else {
                plan.cfg.server.tp_rule = Some(rule);
            }
            plan.conns.truncate(1);
            // zeroed limits leave operations pending for good; the verdict and the applied limits
            // are decided long before this
            plan.time_cap_us = plan.time_cap_us.min(60_000_000);
            plan
        }
        "C09" | "C10" => {
            // bulk transfers that become congestion- and loss-limited; no corruption (it only
            // looks like loss), no rebinding (one path, so the per-path figures are attributable)
            let p = Profile {
                max_conns: 2,
                max_streams: 4,
                max_stream_bytes: if r.chance(1, 4) { 3 << 20 } else { 400_000 },
                fault_rates_permille: &[0, 5, 20, 50, 150, 300],
                corrupting: false,
                ..Default::default()
            };
            let mut plan = base_plan(seed, property, "c09.recovery", &mut r, &p);
            for c in plan.conns.iter_mut() {
                c.rebinds.clear();
            }
            // a third of the plans: the client is rebound onto a path with a very different
            // latency while data is in flight (several paths, several RTT estimators)
            if r.chance(1, 3) {
                plan.cfg.server.limits.migration = true;
                plan.cfg.client.limits.migration = true;
                for c in plan.conns.iter_mut() {
                    let n = 1usize;
                    let mut t: Vec<u64> = (0..n).map(|_| r.pick(&[300_000u64, 1_000_000, 2_500_000, 6_000_000]) + r.below(500_000)).collect();
                    t.sort();
                    c.rebinds = t;
                    c.path_delays_us = (0..=n).map(|_| r.pick(&[0u64, 0, 5_000, 40_000, 150_000, 400_000])).collect();
                }
            }
            // outages long enough for several consecutive PTO expiries
            let end = r.pick(&[2_000_000u64, 10_000_000, 40_000_000]);
            for _ in 0..r.below(3) {
                let from = r.below(end);
                let len = r.pick(&[50_000u64, 500_000, 3_000_000, 10_000_000]);
                plan.faults.push(Fault {
                    when: When::Window {
                        dir: match r.below(3) {
                            0 => Some(Dir::C2S),
                            1 => Some(Dir::S2C),
                            _ => None,
                        },
                        from_us: from,
                        to_us: (from + len).min(end),
                        permille: 1000,
                        key: r.next(),
                    },
                    action: Action::Drop,
                });
            }
            // bursts of CE marks (every packet of one direction for a while): several ACK frames
            // within one round trip report a growing CE count
            for _ in 0..r.below(3) {
                let from = r.below(end);
                let len = r.pick(&[20_000u64, 100_000, 500_000, 2_000_000]);
                plan.faults.push(Fault {
                    when: When::Window {
                        dir: if r.chance(1, 2) { Some(Dir::C2S) } else { Some(Dir::S2C) },
                        from_us: from,
                        to_us: (from + len).min(end),
                        permille: r.pick(&[300u32, 1000]),
                        key: r.next(),
                    },
                    action: Action::EcnCe,
                });
            }
            plan.faults_end_us = Some(end);
            plan.time_cap_us += end;
            plan
        }
        "C15" => {
            // transfers long enough for several key updates under reduced limits (the wrapper key
            // reports a confidentiality limit of 10 000 + T packets, so the transport updates
            // every T packets), reordering around the updates, forged/corrupted packets against
            // a small integrity limit
            let p = Profile {
                max_conns: 2,
                max_streams: 4,
                max_stream_bytes: if r.chance(1, 3) { 4 << 20 } else { 1 << 20 },
                fault_rates_permille: &[0, 5, 20, 50, 150],
                corrupting: true,
                ..Default::default()
            };
            let mut plan = base_plan(seed, property, "c15.keys", &mut r, &p);
            for e in [&mut plan.cfg.server, &mut plan.cfg.client] {
                e.key_update_t = r.pick(&[None, Some(100u64), Some(150), Some(400), Some(1500)]);
                e.integrity_limit = r.pick(&[None, None, Some(2u64), Some(5), Some(20), Some(100)]);
            }
            if plan.cfg.server.key_update_t.is_none() && plan.cfg.client.key_update_t.is_none() {
                plan.cfg.client.key_update_t = Some(200);
            }
            let end = r.pick(&[2_000_000u64, 10_000_000, 30_000_000]);
            plan.faults_end_us = Some(end);
            plan.time_cap_us += end;
            plan
        }
        "C13" => {
            let p = Profile {
                max_conns: 3,
                max_streams: 4,
                max_stream_bytes: 60_000,
                fault_rates_permille: &[0, 20, 50, 150],
                corrupting: false,
                ..Default::default()
            };
            let mut plan = base_plan(seed, property, "c13.cids", &mut r, &p);
            // long-lived connections: ids expire (lifetime >= 60 s is the provider's minimum),
            // handshake ids are rotated, clients are rebound by a NAT, limits from 2 upward
            for e in [&mut plan.cfg.server, &mut plan.cfg.client] {
                e.cid_lifetime_ms = r.pick(&[None, Some(60_000u64), Some(61_000), Some(75_000), Some(120_000)]);
                e.rotate_handshake_cid = r.chance(2, 3);
                e.limits.max_active_cids = r.pick(&[2u64, 2, 3, 4, 5, 8]);
                e.limits.idle_timeout_ms = r.pick(&[10_000u64, 30_000, 60_000]);
                e.limits.migration = true;
                if e.cid_len == 0 {
                    e.cid_len = 8;
                }
            }
            let horizon = r.pick(&[5_000_000u64, 70_000_000, 140_000_000, 260_000_000]);
            for c in plan.conns.iter_mut() {
                c.keep_alive = true;
                c.close = CloseSpec::AfterAll { by: if r.chance(1, 2) { Role::Client } else { Role::Server }, code: 7 };
                for s in c.streams.iter_mut() {
                    s.open_delay_us = r.below(horizon + 1);
                }
                let n = r.pick(&[0u64, 1, 1, 2, 3, 5]);
                let mut t: Vec<u64> = (0..n).map(|_| r.below(horizon + 1)).collect();
                t.sort();
                c.rebinds = t;
            }
            let end = horizon;
            plan.faults_end_us = Some(end);
            plan.time_cap_us += end + 120_000_000;
            plan
        }
        "C12" => {
            let p = Profile {
                allow_reset: true,
                allow_stop: true,
                hard_close: true,
                // a third of the plans: windows small enough for streams to be blocked when
                // they are reset / stopped
                small_windows: r.chance(1, 3),
                max_stream_bytes: 150_000,
                corrupting: false,
                fault_rates_permille: &[0, 20, 50, 150, 300],
                ..Default::default()
            };
            let mut plan = base_plan(seed, property, "c12.consistency", &mut r, &p);
            let end = r.pick(&[2_000_000u64, 12_000_000]);
            plan.faults_end_us = Some(end);
            plan.time_cap_us += end;
            plan
        }
        _ => {
            let p = Profile::default();
            base_plan(seed, property, "generic", &mut r, &p)
        }
    }
}
