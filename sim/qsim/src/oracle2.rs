//! Wire-monitor oracles: C06 (authenticity / at-most-once), C08 (ACK soundness, promptness,
//! packet-number encoding), C12 (self-consistency of what an endpoint sends).

use crate::{
    kernel::{payload_check, Violation},
    net::Label,
    obs::{CloseKind, Ev, Space},
    oracle::{Side, View},
    plan::*,
    wire::{self, Frame},
};
use std::collections::{BTreeMap, BTreeSet, HashMap, HashSet};

fn viol(prop: &str, oracle: &str, sig: &str, detail: String) -> Violation {
    Violation { property: prop.into(), oracle: oracle.into(), detail, sig: sig.into() }
}

/// all (client idx, role, side) triples that exist in this run
pub fn sides(v: &View) -> Vec<(u32, Role, Side)> {
    let mut out = vec![];
    for idx in 0..v.out.plan.conns.len() as u32 {
        for role in [Role::Client, Role::Server] {
            if let Some(s) = v.side(idx, role) {
                out.push((idx, role, s));
            }
        }
    }
    out
}

// ---------------------------------------------------------------------------------------
// C06

pub fn c06(v: &View) -> Vec<Violation> {
    let mut out = vec![];
    let o = v.out;
    // 1. authenticity: what is processed == what the peer's transport produced
    let mut tx_by_side: HashMap<(u32, u64), HashSet<(Space, u64, u64)>> = HashMap::new();
    let mut tx_by_role: [HashSet<(Space, u64, u64)>; 2] = [HashSet::new(), HashSet::new()];
    for t in &o.obs.tx {
        tx_by_side.entry((t.ep, t.conn)).or_default().insert((t.space, t.pn, t.hash));
        tx_by_role[(t.ep == 0) as usize].insert((t.space, t.pn, t.hash));
    }
    // map every side to its peer side
    let mut peer: HashMap<(u32, u64), (u32, u64)> = HashMap::new();
    for idx in 0..o.plan.conns.len() as u32 {
        if let (Some(c), Some(s)) = (v.side(idx, Role::Client), v.side(idx, Role::Server)) {
            peer.insert((c.ep, c.conn), (s.ep, s.conn));
            peer.insert((s.ep, s.conn), (c.ep, c.conn));
        }
    }
    let mut seen: HashSet<(u32, u64, Space, u64)> = HashSet::new();
    let mut flagged = BTreeSet::new();
    for r in &o.obs.rx {
        let key = (r.space, r.pn, r.hash);
        let ok = match peer.get(&(r.ep, r.conn)) {
            // a replayed ClientHello makes the server create a second connection for the same
            // client; Initial keys depend only on the client's connection id, and the sim-TLS
            // stub derives all later secrets from the session nonce in the ClientHello, so that
            // twin's packets are as authentic to the client as the first connection's (with real
            // TLS only its Initial packets would be). Clients therefore accept what any
            // connection of the server endpoint produced.
            Some(_) if r.ep != 0 => tx_by_role[1].contains(&key),
            Some(p) => tx_by_side.get(p).map_or(false, |s| s.contains(&key)),
            // connection not (yet) attributed: must at least come from an endpoint of the other role
            None => tx_by_role[(r.ep != 0) as usize].contains(&key),
        };
        if !ok && flagged.insert("auth") {
            out.push(viol(
                "C06",
                "c06.forged_processed",
                "forged_processed",
                format!(
                    "endpoint {} conn {} processed {:?} packet pn {} ({} bytes cleartext) at {} ms that its peer never produced",
                    r.ep, r.conn, r.space, r.pn, r.payload.len(), r.t_ns / 1_000_000
                ),
            ));
        }
        // 2. at most once per (connection, space, packet number)
        if !seen.insert((r.ep, r.conn, r.space, r.pn)) && flagged.insert("dup") {
            out.push(viol(
                "C06",
                "c06.processed_twice",
                "processed_twice",
                format!(
                    "endpoint {} conn {} processed {:?} packet number {} twice (second time at {} ms)",
                    r.ep, r.conn, r.space, r.pn, r.t_ns / 1_000_000
                ),
            ));
        }
    }
    // 3. no acknowledgement of anything not processed (shared with C08 oracle 1)
    for x in c08_ack_subset(v) {
        out.push(Violation { property: "C06".into(), oracle: "c06.ack_of_unprocessed".into(), ..x });
    }
    // 3b. ECN counts in ACK frames never exceed the packets actually processed in the space
    for (_, _, side) in sides(v) {
        let mut processed: BTreeMap<Space, u64> = BTreeMap::new();
        let mut evs: Vec<(u64, bool, usize)> = vec![];
        for (i, r) in o.obs.rx.iter().enumerate() {
            if r.ep == side.ep && r.conn == side.conn {
                evs.push((r.seq, false, i));
            }
        }
        for (i, t) in o.obs.tx.iter().enumerate() {
            if t.ep == side.ep && t.conn == side.conn && t.byz.is_none() {
                evs.push((t.seq, true, i));
            }
        }
        evs.sort();
        for (_, is_tx, i) in evs {
            if !is_tx {
                *processed.entry(o.obs.rx[i].space).or_insert(0) += 1;
                continue;
            }
            let Ok(fr) = &v.tx_frames[i] else { continue };
            for f in fr {
                if let Frame::Ack { ecn: Some((e0, e1, ce)), .. } = f {
                    let n = processed.get(&o.obs.tx[i].space).copied().unwrap_or(0);
                    if e0 + e1 + ce > n && flagged.insert("ecn") {
                        out.push(viol(
                            "C06",
                            "c06.ecn_counts_inflated",
                            "ecn_counts_inflated",
                            format!(
                                "endpoint {} conn {} {:?}: ACK reports ECN counts {}+{}+{} but only {} packets were processed in that space",
                                side.ep, side.conn, o.obs.tx[i].space, e0, e1, ce, n
                            ),
                        ));
                    }
                }
            }
        }
    }
    // 4. data integrity
    for (key, r) in &o.app.recvs {
        if let Some((off, what)) = &r.mismatch {
            out.push(viol(
                "C06",
                "c06.data_altered",
                "data_altered",
                format!("stream {key:?}: byte at offset {off} altered: {what}"),
            ));
        }
    }
    // 5. an established connection survives forged traffic. Only decidable in the family in
    //    which no genuine datagram is ever lost or delayed beyond its timers.
    if o.plan.family == "c06.forge" {
        for (idx, role, side) in sides(v) {
            if let Some((t, kind, code, err)) = v.closed_event(side) {
                let benign = matches!(kind, CloseKind::Closed | CloseKind::Application);
                // the peer's application had already closed the connection: a replayed copy that
                // overtook its original from another address looks like a migration (RFC 9000
                // 9.3.3) and can send the peer's CONNECTION_CLOSE to the wrong address; this side
                // then learns about the end through an idle timeout or a stateless reset
                let peer_closed_first = v
                    .side(idx, role.peer())
                    .and_then(|p| v.closed_event(p))
                    .map_or(false, |(tp, kp, _, _)| tp < t && matches!(kp, CloseKind::Closed | CloseKind::Application));
                if !benign && !(peer_closed_first && matches!(kind, CloseKind::StatelessReset | CloseKind::IdleTimerExpired)) {
                    out.push(viol(
                        "C06",
                        "c06.connection_killed",
                        &format!("killed:{kind:?}:{code:?}"),
                        format!("connection {idx} {role:?} ended with {kind:?} {code:?} at {} ms although only forged/duplicated datagrams were injected: {err}", t / 1_000_000),
                    ));
                }
            }
        }
        // and the workload completes
        // (a workload that was still making progress shortly before the cap merely exceeded
        // the harness budget, e.g. one-byte windows over a slow path)
        let cap_ns = o.plan.time_cap_us.saturating_mul(1000);
        let still_progressing = cap_ns.saturating_sub(o.app.last_progress_ns) < 200_000_000_000;
        if !o.app.capped_tasks.is_empty() && !still_progressing {
            out.push(viol(
                "C06",
                "c06.stalled_by_forgeries",
                "stalled",
                format!("tasks parked at the cap under forged traffic only: {:?}", o.app.capped_tasks),
            ));
        }
        for (k, r) in &o.app.recvs {
            let Some(s) = o.app.sends.get(k) else { continue };
            let hard = matches!(o.plan.conns[k.conn as usize].close, CloseSpec::At { .. });
            if !hard && s.fin_requested && matches!(r.outcome, crate::run::RecvOutcome::Error(crate::run::ErrClass::Conn(..), _)) {
                out.push(viol(
                    "C06",
                    "c06.stream_failed",
                    "stream_failed",
                    format!("stream {k:?} failed with {:?} under forged traffic only", r.outcome),
                ));
            }
        }
    }
    out
}

// ---------------------------------------------------------------------------------------
// C08

/// oracle 1: ACK ranges are a subset of what was processed before the ACK was built
pub fn c08_ack_subset(v: &View) -> Vec<Violation> {
    let mut out = vec![];
    let o = v.out;
    for (idx, role, side) in sides(v) {
        let mut processed: BTreeMap<Space, BTreeSet<u64>> = BTreeMap::new();
        let mut evs: Vec<(u64, bool, usize)> = vec![];
        for (i, r) in o.obs.rx.iter().enumerate() {
            if r.ep == side.ep && r.conn == side.conn {
                evs.push((r.seq, false, i));
            }
        }
        for (i, t) in o.obs.tx.iter().enumerate() {
            if t.ep == side.ep && t.conn == side.conn && t.byz.is_none() {
                evs.push((t.seq, true, i));
            }
        }
        evs.sort();
        let mut done = false;
        for (_, is_tx, i) in evs {
            if done {
                break;
            }
            if !is_tx {
                let r = &o.obs.rx[i];
                processed.entry(r.space).or_default().insert(r.pn);
                continue;
            }
            let t = &o.obs.tx[i];
            let Ok(frames) = &v.tx_frames[i] else { continue };
            for f in frames {
                let Frame::Ack { ranges, .. } = f else { continue };
                let set = processed.entry(t.space).or_default();
                for (lo, hi) in ranges {
                    // count how many of lo..=hi are in the set
                    let n = set.range(*lo..=*hi).count() as u64;
                    if n != hi - lo + 1 {
                        let missing = (*lo..=*hi).find(|p| !set.contains(p)).unwrap_or(*lo);
                        out.push(viol(
                            "C08",
                            "c08.ack_of_unprocessed",
                            "ack_of_unprocessed",
                            format!(
                                "conn {idx} {role:?} {:?} pn {}: ACK range {lo}..={hi} acknowledges packet number {missing} which this endpoint has not processed",
                                t.space, t.pn
                            ),
                        ));
                        done = true;
                        break;
                    }
                }
            }
        }
    }
    out
}

fn local_limits(o: &crate::run::RunOutput, role: Role) -> &LimitsCfg {
    match role {
        Role::Client => &o.plan.cfg.client.limits,
        Role::Server => &o.plan.cfg.server.limits,
    }
}

pub fn c08(v: &View) -> Vec<Violation> {
    let mut out = c08_ack_subset(v);
    let o = v.out;
    let no_rebind = o.plan.conns.iter().all(|c| c.rebinds.is_empty());
    for (idx, role, side) in sides(v) {
        // 3. packet numbers strictly increase per space, in send order
        let mut last: BTreeMap<Space, u64> = BTreeMap::new();
        for t in o.obs.tx.iter().filter(|t| t.ep == side.ep && t.conn == side.conn) {
            if let Some(l) = last.get(&t.space) {
                if t.pn <= *l {
                    out.push(viol(
                        "C08",
                        "c08.pn_not_increasing",
                        "pn_not_increasing",
                        format!("conn {idx} {role:?} {:?}: packet number {} sent after {}", t.space, t.pn, l),
                    ));
                    break;
                }
            }
            last.insert(t.space, t.pn);
        }

        // 2. promptness (application space, after the handshake, stable path only)
        if no_rebind {
            out.extend(c08_promptness(v, idx, role, side));
        }
        // 4. packet number width
        out.extend(c08_width(v, idx, role, side));
    }
    // 5. genuine packets are decryptable: with no corrupting fault and no key update, no
    //    packet may be dropped because decryption failed
    // (a reordered packet is only guaranteed to decode while fewer than half a truncation
    //  window of newer packets overtook it, so reordering runs are excluded as well)
    let corrupting = o.net.fired.keys().any(|k| !matches!(*k, "drop" | "mtu_drop" | "ecn_ce"))
        || o.plan.cfg.jitter_us > 0
        || !o.plan.attacker.is_empty();
    let key_updates = o.obs.evs.iter().filter(|e| matches!(e.ev, Ev::KeyUpdate { generation: Some(g) } if g > 0)).count();
    if !corrupting && key_updates == 0 {
        // a datagram larger than the receiver's configured receive buffer (max_mtu) is
        // truncated by the socket layer: that is not an unmodified delivery
        let cap = |ep: u32| -> usize {
            let m = if ep == 0 { o.plan.cfg.server.max_mtu } else { o.plan.cfg.client.max_mtu };
            m as usize - 28
        };
        let truncated_for = |ep: u32| -> bool {
            let addrs: Vec<_> = if ep == 0 {
                o.server_addr.iter().copied().collect()
            } else {
                o.client_addrs.get(ep as usize - 1).copied().into_iter().collect()
            };
            o.net.delivered.iter().any(|(_, dst, _, len, _)| addrs.contains(dst) && *len > cap(ep))
        };
        for e in &o.obs.evs {
            if truncated_for(e.ep) {
                continue;
            }
            if let Ev::PacketDropped { reason } = &e.ev {
                if reason.starts_with("DecryptionFailed") || reason.starts_with("UnprotectFailed") {
                    out.push(viol(
                        "C08",
                        "c08.genuine_packet_undecryptable",
                        "genuine_undecryptable",
                        format!("endpoint {} conn {} dropped a packet with {reason} at {} ms although no datagram was corrupted or replayed in this run", e.ep, e.conn, e.t_ns / 1_000_000),
                    ));
                    break;
                }
            }
        }
    }
    out
}

fn c08_promptness(v: &View, idx: u32, role: Role, side: Side) -> Vec<Violation> {
    let mut out = vec![];
    let o = v.out;
    let max_ack_delay_ns = local_limits(o, role).max_ack_delay_ms * 1_000_000;
    let slack_ns = 2_000_000;
    // the endpoint must be able to send: ignore everything at/after its close and before the
    // handshake is complete on this side
    let closed_at = v.closed_event(side).map(|c| c.0).unwrap_or(u64::MAX);
    let hs_done = o
        .obs
        .evs
        .iter()
        .find(|e| e.ep == side.ep && e.conn == side.conn && matches!(e.ev, Ev::HandshakeStatus { status } if status >= 2))
        .map(|e| e.t_ns);
    let Some(hs_done) = hs_done else { return out };
    // ACK frames sent: (time, ranges)
    let mut acks: Vec<(u64, u64, &Vec<(u64, u64)>)> = vec![];
    for (i, t) in o.obs.tx.iter().enumerate() {
        if t.ep == side.ep && t.conn == side.conn && t.space == Space::App {
            if let Ok(fr) = &v.tx_frames[i] {
                for f in fr {
                    if let Frame::Ack { ranges, .. } = f {
                        acks.push((t.seq, t.t_ns, ranges));
                    }
                }
            }
        }
    }
    // packet numbers evicted from the endpoint's bounded ACK-range store (RFC 9000 13.2.3
    // allows limiting the ranges kept; the property's own C16 clause allows dropping the lowest)
    let evicted: Vec<(u64, u64)> = o
        .obs
        .evs
        .iter()
        .filter(|e| e.ep == side.ep && e.conn == side.conn)
        .filter_map(|e| match e.ev {
            Ev::RxAckRangeDropped { lo, hi } => Some((lo, hi)),
            _ => None,
        })
        .collect();
    // my ACK-carrying packets (pn -> largest acknowledged in it), in send order
    let mut my_acks: Vec<(u64, u64, u64)> = vec![]; // (seq, pn, largest)
    for (k, t) in o.obs.tx.iter().enumerate() {
        if t.ep == side.ep && t.conn == side.conn && t.space == Space::App {
            if let Ok(fr) = &v.tx_frames[k] {
                for f in fr {
                    if let Frame::Ack { largest, .. } = f {
                        my_acks.push((t.seq, t.pn, *largest));
                    }
                }
            }
        }
    }
    // RFC 9000 13.2.4: once the peer acknowledged a packet carrying an ACK frame, the receiver
    // may stop tracking everything up to the largest number acknowledged in that frame
    // all prune events of this side: (seq, time, floor)
    let mut prunes: Vec<(u64, u64, u64)> = vec![];
    for (i, r) in o.obs.rx.iter().enumerate() {
        if !(r.ep == side.ep && r.conn == side.conn && r.space == Space::App) {
            continue;
        }
        if let Ok(fr) = &v.rx_frames[i] {
            for f in fr {
                if let Frame::Ack { ranges, .. } = f {
                    for (seq, pn, l) in &my_acks {
                        if *seq < r.seq && ranges.iter().any(|(lo, hi)| lo <= pn && pn <= hi) {
                            prunes.push((r.seq, r.t_ns, *l));
                        }
                    }
                }
            }
        }
    }
    let mut reported: BTreeSet<&str> = BTreeSet::new();
    let mut pruned_upto: Option<u64> = None;
    let mut largest: Option<u64> = None;
    for (i, r) in o.obs.rx.iter().enumerate() {
        if !(r.ep == side.ep && r.conn == side.conn && r.space == Space::App) {
            continue;
        }
        if let Ok(fr) = &v.rx_frames[i] {
            for f in fr {
                if let Frame::Ack { ranges, .. } = f {
                    for (seq, pn, l) in &my_acks {
                        if *seq < r.seq && ranges.iter().any(|(lo, hi)| lo <= pn && pn <= hi) {
                            pruned_upto = Some(pruned_upto.map_or(*l, |p: u64| p.max(*l)));
                        }
                    }
                }
            }
        }
        if evicted.iter().any(|(lo, hi)| *lo <= r.pn && r.pn <= *hi) || pruned_upto.map_or(false, |p| r.pn <= p) {
            largest = Some(largest.map_or(r.pn, |l| l.max(r.pn)));
            continue;
        }
        let prev_largest = largest;
        largest = Some(largest.map_or(r.pn, |l| l.max(r.pn)));
        let Ok(fr) = &v.rx_frames[i] else { continue };
        if !fr.iter().any(|f| f.ack_eliciting()) {
            continue;
        }
        if r.t_ns < hs_done {
            continue;
        }
        let out_of_order = match prev_largest {
            Some(l) => r.pn != l + 1,
            None => false,
        };
        let deadline = r.t_ns + if out_of_order { 0 } else { max_ack_delay_ns } + slack_ns;
        if deadline >= closed_at || deadline >= o.end_ns {
            continue;
        }
        // pruned (RFC 9000 13.2.4) before an ACK was due?
        if prunes.iter().any(|(seq, t, floor)| *seq > r.seq && *t <= deadline && *floor >= r.pn) {
            continue;
        }
        // an ACK covering r.pn transmitted after processing and by the deadline?
        let covered = acks.iter().any(|(seq, t, ranges)| {
            *seq > r.seq && *t <= deadline && ranges.iter().any(|(lo, hi)| *lo <= r.pn && r.pn <= *hi)
        });
        if !covered {
            let first_ack_after = acks.iter().find(|(seq, _, _)| *seq > r.seq).map(|a| a.1);
            let ever = acks.iter().find(|(seq, _, ranges)| *seq > r.seq && ranges.iter().any(|(lo, hi)| *lo <= r.pn && r.pn <= *hi)).map(|a| a.1);
            // --- cause analysis, used only to give the violation a specific signature ---
            // (a) was the endpoint's ACK-range store empty when the packet arrived, because
            //     the peer had acknowledged the packets carrying all earlier ACK frames?
            let store_empty = match (pruned_upto, prev_largest) {
                (Some(p), Some(l)) => l <= p,
                _ => false,
            };
            // (b) did the endpoint transmit anything at all between processing and the ACK?
            let until = ever.unwrap_or(u64::MAX);
            //     (MTU probes - PING + PADDING only - never carry ACK frames and do not count)
            let sent_between = o.obs.tx.iter().enumerate().any(|(k, t)| {
                t.ep == side.ep
                    && t.conn == side.conn
                    && t.seq > r.seq
                    && t.t_ns < until
                    && t.t_ns <= deadline
                    && v.tx_frames[k].as_ref().map_or(true, |fr| {
                        fr.iter().any(|f| !matches!(f, Frame::Ping | Frame::Padding { .. }))
                    })
            });
            // (c) did the endpoint wake up exactly when its ack-delay timer was due?
            let woke_at_timer = o.obs.evs.iter().any(|e| e.ep == side.ep && e.conn == side.conn && e.t_ns == r.t_ns + max_ack_delay_ns);
            // (d) had the endpoint itself sent ack-eliciting (i.e. paced) packets shortly before?
            //     Its pacer then holds back every transmission, including pure ACKs.
            let srtt_ns = o
                .obs
                .evs
                .iter()
                .rev()
                .filter(|e| e.ep == side.ep && e.conn == side.conn && e.t_ns <= r.t_ns)
                .find_map(|e| match e.ev {
                    Ev::Metrics { smoothed_us, .. } => Some(smoothed_us * 1000),
                    _ => None,
                })
                .unwrap_or(0);
            let recent_data_tx = o.obs.tx.iter().enumerate().any(|(k, t)| {
                t.ep == side.ep
                    && t.conn == side.conn
                    && t.seq < r.seq
                    && t.t_ns + 2 * srtt_ns.max(1_000_000) >= r.t_ns
                    && v.tx_frames[k].as_ref().map_or(false, |fr| fr.iter().any(|f| f.ack_eliciting()))
            });
            let _ = woke_at_timer;
            // (e) the pacing interval the endpoint itself announced (burst / rate) when it last
            //     sent an ack-eliciting packet: that is when its earliest departure time was set
            let last_data_tx_ns = o
                .obs
                .tx
                .iter()
                .enumerate()
                .filter(|(k, t)| {
                    t.ep == side.ep
                        && t.conn == side.conn
                        && t.seq < r.seq
                        && v.tx_frames[*k].as_ref().map_or(false, |fr| fr.iter().any(|f| f.ack_eliciting()))
                })
                .map(|(_, t)| t.t_ns)
                .max()
                .unwrap_or(0);
            let pacing_interval_ns = o
                .obs
                .evs
                .iter()
                .rev()
                .filter(|e| e.ep == side.ep && e.conn == side.conn && e.t_ns <= last_data_tx_ns)
                .find_map(|e| match e.ev {
                    Ev::PacingRate { bytes_per_second, burst } if bytes_per_second > 0 => {
                        Some(burst as u64 * 1_000_000_000 / bytes_per_second)
                    }
                    _ => None,
                })
                .unwrap_or(0);
            // (never acknowledged: the wait ended when this connection ended, not when the run did)
            let conn_end_ns = v.closed_event(side).map_or(o.end_ns, |c| c.0.min(o.end_ns));
            let observed_delay_ns = ever.unwrap_or(conn_end_ns).saturating_sub(r.t_ns);
            let recent_data_tx = recent_data_tx || 2 * pacing_interval_ns >= observed_delay_ns;
            let sig: &str = if out_of_order && store_empty {
                "gap_after_ack_of_ack_pruned_ranges"
            } else if !sent_between && recent_data_tx {
                "ack_held_back_while_sender_is_paced"
            } else if !sent_between {
                "ack_late_no_tx"
            } else {
                "ack_omitted_from_sent_packets"
            };
            out.push(viol(
                "C08",
                if out_of_order { "c08.ack_not_immediate" } else { "c08.ack_late" },
                sig,
                format!(
                    "conn {idx} {role:?}: ack-eliciting packet {} processed at {} us ({}), no ACK covering it sent by {} us (max_ack_delay {} ms); next ACK at {:?} us, first ACK covering it at {:?} us",
                    r.pn, r.t_ns / 1000, if out_of_order { "out of order" } else { "in order" }, deadline / 1000,
                    max_ack_delay_ns / 1_000_000, first_ack_after.map(|t| t / 1000), ever.map(|t| t / 1000)
                ),
            ));
            if !reported.insert(sig) {
                out.pop();
            }
        }
    }
    out
}

fn c08_width(v: &View, idx: u32, role: Role, side: Side) -> Vec<Violation> {
    let mut out = vec![];
    let o = v.out;
    // CID length of the peer = length of destination ids on short header packets we send
    let peer_cid_len = match role {
        Role::Client => o.plan.cfg.server.cid_len,
        Role::Server => o.plan.cfg.client.cid_len,
    } as usize;
    // events of this side in order: rx (acks received), tx packets, tx datagrams
    #[derive(Clone, Copy)]
    enum K {
        Rx(usize),
        Tx(usize),
        Dg(usize),
    }
    let mut evs: Vec<(u64, K)> = vec![];
    for (i, r) in o.obs.rx.iter().enumerate() {
        if r.ep == side.ep && r.conn == side.conn {
            evs.push((r.seq, K::Rx(i)));
        }
    }
    for (i, t) in o.obs.tx.iter().enumerate() {
        if t.ep == side.ep && t.conn == side.conn {
            evs.push((t.seq, K::Tx(i)));
        }
    }
    for (i, d) in o.obs.tx_dgrams.iter().enumerate() {
        if d.ep == side.ep && d.conn == side.conn {
            evs.push((d.seq, K::Dg(i)));
        }
    }
    evs.sort_by_key(|e| e.0);
    let mut largest_acked: BTreeMap<Space, u64> = BTreeMap::new();
    // packets encoded since the last datagram event, with the largest_acked at encode time
    let mut pending: Vec<(usize, Option<u64>)> = vec![];
    for (_, k) in evs {
        match k {
            K::Rx(i) => {
                if let Ok(fr) = &v.rx_frames[i] {
                    for f in fr {
                        if let Frame::Ack { largest, .. } = f {
                            let sp = o.obs.rx[i].space;
                            let e = largest_acked.entry(sp).or_insert(*largest);
                            *e = (*e).max(*largest);
                        }
                    }
                }
            }
            K::Tx(i) => pending.push((i, largest_acked.get(&o.obs.tx[i].space).copied())),
            K::Dg(di) => {
                let d = &o.obs.tx_dgrams[di];
                let pk = std::mem::take(&mut pending);
                let Ok(vis) = wire::split_datagram(&d.bytes, peer_cid_len) else { continue };
                if vis.len() != pk.len() {
                    // an interceptor-cleared or retry/VN datagram: not attributable
                    continue;
                }
                for (vp, (ti, la)) in vis.iter().zip(pk.iter()) {
                    let t = &o.obs.tx[*ti];
                    let payload_len = t.payload.len();
                    let pn_len = match vp.kind {
                        wire::PacketKind::Short => {
                            (vp.len as i64) - 1 - peer_cid_len as i64 - payload_len as i64 - 16
                        }
                        wire::PacketKind::Initial | wire::PacketKind::Handshake => {
                            let length = (vp.at + vp.len - vp.pn_at) as i64;
                            length - payload_len as i64 - 16
                        }
                        _ => continue,
                    };
                    if !(1..=4).contains(&pn_len) {
                        out.push(viol(
                            "C08",
                            "c08.pn_len_invalid",
                            "pn_len_invalid",
                            format!("conn {idx} {role:?} {:?} pn {}: derived packet number length {} (datagram {} bytes, payload {} bytes)", t.space, t.pn, pn_len, d.bytes.len(), payload_len),
                        ));
                        return out;
                    }
                    // RFC 9000 17.1: able to represent more than twice the range
                    let range = match la {
                        Some(l) => t.pn.saturating_sub(*l),
                        None => t.pn + 1,
                    };
                    let bits = 8 * pn_len as u32;
                    // (appendix A.2: min_bits = log2(num_unacked) + 1, i.e. 2^bits >= 2 * num_unacked)
                    if (1u128 << bits) < 2 * range as u128 {
                        out.push(viol(
                            "C08",
                            "c08.pn_truncation_too_short",
                            "pn_truncation_too_short",
                            format!("conn {idx} {role:?} {:?} pn {}: encoded in {} bytes but largest acknowledged is {:?} (range {})", t.space, t.pn, pn_len, la, range),
                        ));
                        return out;
                    }
                    // reference decoder with both extreme admissible receiver states
                    let trunc = t.pn & ((1u64 << bits) - 1);
                    let lo = la.map(|l| l.max(0));
                    for lr in [lo, if t.pn > 0 { Some(t.pn - 1) } else { None }] {
                        let dec = wire::decode_packet_number(lr, trunc, bits);
                        if dec != t.pn {
                            out.push(viol(
                                "C08",
                                "c08.pn_reconstruction",
                                "pn_reconstruction",
                                format!("conn {idx} {role:?} {:?}: pn {} truncated to {} bytes decodes to {} at a peer whose largest received is {:?}", t.space, t.pn, pn_len, dec, lr),
                            ));
                            return out;
                        }
                    }
                }
            }
        }
    }
    // CONNECTION_CLOSE packets do not pass the datagram interceptor: take the datagram from the
    // simulated network instead (1-RTT close packets are sent alone in their datagram)
    let my_addr = match role {
        Role::Server => o.server_addr,
        Role::Client => o.client_addrs.get(idx as usize).copied(),
    };
    if let Some(addr) = my_addr {
        for (ti, la) in pending.iter() {
            let t = &o.obs.tx[*ti];
            if t.space != Space::App || t.byz.is_some() {
                continue;
            }
            let is_close = v.tx_frames[*ti].as_ref().map_or(false, |f| f.iter().any(|f| matches!(f, Frame::ConnectionClose { .. })));
            if !is_close {
                continue;
            }
            let Some(rec) = o.net.log.iter().find(|r| r.src == addr && r.t_send_ns >= t.t_ns && r.first_byte & 0x80 == 0) else { continue };
            let pn_len = rec.len as i64 - 1 - peer_cid_len as i64 - t.payload.len() as i64 - 16;
            if !(1..=4).contains(&pn_len) {
                continue; // coalesced or not the close datagram: not attributable
            }
            let range = match la {
                Some(l) => t.pn.saturating_sub(*l),
                None => t.pn + 1,
            };
            let bits = 8 * pn_len as u32;
            if (1u128 << bits) < 2 * range as u128 {
                out.push(viol(
                    "C08",
                    "c08.pn_truncation_too_short",
                    "pn_truncation_too_short",
                    format!("conn {idx} {role:?} App pn {} (CONNECTION_CLOSE): encoded in {} bytes but largest acknowledged is {:?} (range {})", t.pn, pn_len, la, range),
                ));
                return out;
            }
        }
    }
    out
}

// ---------------------------------------------------------------------------------------
// C12

#[derive(Default)]
struct StreamTx {
    max_off: u64,
    fin_at: Option<u64>,
    reset_final: Option<u64>,
    reset_pn: Option<u64>,
}

pub fn c12(v: &View) -> Vec<Violation> {
    let mut out = vec![];
    let o = v.out;
    for (idx, role, side) in sides(v) {
        let mut streams: BTreeMap<u64, StreamTx> = BTreeMap::new();
        let mut flagged: BTreeSet<String> = BTreeSet::new();
        let mut first_close: Option<(u64, u64, String)> = None; // (seq, t, frame)
        for (i, t) in o.obs.tx.iter().enumerate() {
            if !(t.ep == side.ep && t.conn == side.conn) || t.byz.is_some() {
                continue;
            }
            let Ok(frames) = &v.tx_frames[i] else { continue };
            // 5a. after CONNECTION_CLOSE nothing but CONNECTION_CLOSE
            let close_frame = frames.iter().find_map(|f| match f {
                Frame::ConnectionClose { app, code, .. } => Some(format!("{app}:{code}")),
                _ => None,
            });
            if let Some((_, _, c0)) = &first_close {
                let only_close = frames.iter().all(|f| matches!(f, Frame::ConnectionClose { .. } | Frame::Padding { .. }));
                // (an application close is sent as a transport close with APPLICATION_ERROR in
                //  Initial/Handshake packets, RFC 9000 10.2.3, so the frames may differ by space)
                if (!only_close || close_frame.is_none()) && flagged.insert("after_close".into()) {
                    let names: Vec<&str> = frames.iter().map(|f| f.type_name()).collect();
                    out.push(viol(
                        "C12",
                        "c12.frames_after_close",
                        "frames_after_close",
                        format!("conn {idx} {role:?} {:?} pn {}: packet with frames {:?} sent after CONNECTION_CLOSE ({c0})", t.space, t.pn, names),
                    ));
                }
            } else if let Some(c) = &close_frame {
                first_close = Some((t.seq, t.t_ns, c.clone()));
            }
            if t.space != Space::App {
                continue;
            }
            for f in frames {
                match f {
                    Frame::Stream { id, off, len, fin, data_at, .. } => {
                        let st = streams.entry(*id).or_default();
                        let end = off + *len as u64;
                        // 1. bytes equal what the application wrote at these offsets
                        let sender_is_me = true;
                        let _ = sender_is_me;
                        let data = &t.payload[*data_at..*data_at + *len];
                        if let Some(k) = payload_check(o.plan.data_key, idx as u64, *id, role.idx(), *off, data) {
                            if flagged.insert(format!("content:{id}")) {
                                out.push(viol(
                                    "C12",
                                    "c12.stream_bytes_differ",
                                    "stream_bytes_differ",
                                    format!("conn {idx} {role:?} pn {}: STREAM frame stream {id} offset {off} len {len}: byte at stream offset {} is not what the application wrote there", t.pn, off + k as u64),
                                ));
                            }
                        }
                        // 3. nothing after RESET_STREAM
                        if let Some(rp) = st.reset_pn {
                            if t.pn > rp && flagged.insert(format!("after_reset:{id}")) {
                                out.push(viol(
                                    "C12",
                                    "c12.stream_after_reset",
                                    if *len == 0 && *off == 0 && !*fin { "empty_open_notify_frame_after_reset" } else { "stream_after_reset" },
                                    format!("conn {idx} {role:?}: STREAM frame for stream {id} in packet {} after RESET_STREAM in packet {rp}", t.pn),
                                ));
                            }
                        }
                        // 2. final size discipline
                        if let Some(fa) = st.fin_at {
                            if end > fa && flagged.insert(format!("beyond_fin:{id}")) {
                                out.push(viol(
                                    "C12",
                                    "c12.data_beyond_final_size",
                                    "data_beyond_final_size",
                                    format!("conn {idx} {role:?} pn {}: stream {id} data up to {end} after FIN announced final size {fa}", t.pn),
                                ));
                            }
                        }
                        if *fin {
                            match st.fin_at {
                                Some(fa) if fa != end => {
                                    if flagged.insert(format!("fin_changed:{id}")) {
                                        out.push(viol(
                                            "C12",
                                            "c12.final_size_changed",
                                            "final_size_changed",
                                            format!("conn {idx} {role:?} pn {}: stream {id} FIN at {end}, earlier FIN at {fa}", t.pn),
                                        ));
                                    }
                                }
                                _ => {}
                            }
                            if end < st.max_off && flagged.insert(format!("fin_small:{id}")) {
                                out.push(viol(
                                    "C12",
                                    "c12.final_size_below_sent",
                                    "final_size_below_sent",
                                    format!("conn {idx} {role:?} pn {}: stream {id} FIN at {end} but data up to {} was already sent", t.pn, st.max_off),
                                ));
                            }
                            st.fin_at = Some(end);
                        }
                        st.max_off = st.max_off.max(end);
                    }
                    Frame::StreamDataBlocked { id, .. } => {
                        let st = streams.entry(*id).or_default();
                        if let Some(rp) = st.reset_pn {
                            if t.pn > rp && flagged.insert(format!("blocked_after_reset:{id}")) {
                                out.push(viol(
                                    "C12",
                                    "c12.blocked_after_reset",
                                    "blocked_after_reset",
                                    format!("conn {idx} {role:?}: STREAM_DATA_BLOCKED for stream {id} in packet {} after RESET_STREAM in packet {rp}", t.pn),
                                ));
                            }
                        }
                    }
                    Frame::ResetStream { id, final_size, .. } => {
                        let st = streams.entry(*id).or_default();
                        if *final_size < st.max_off && flagged.insert(format!("reset_small:{id}")) {
                            out.push(viol(
                                "C12",
                                "c12.reset_final_size_below_sent",
                                "reset_final_size_below_sent",
                                format!("conn {idx} {role:?} pn {}: RESET_STREAM stream {id} final size {final_size} but data up to {} was sent", t.pn, st.max_off),
                            ));
                        }
                        if let Some(fa) = st.fin_at {
                            if fa != *final_size && flagged.insert(format!("reset_vs_fin:{id}")) {
                                out.push(viol(
                                    "C12",
                                    "c12.reset_final_size_differs_from_fin",
                                    "reset_final_size_differs_from_fin",
                                    format!("conn {idx} {role:?} pn {}: RESET_STREAM stream {id} final size {final_size}, FIN announced {fa}", t.pn),
                                ));
                            }
                        }
                        if let Some(rf) = st.reset_final {
                            if rf != *final_size && flagged.insert(format!("reset_changed:{id}")) {
                                out.push(viol(
                                    "C12",
                                    "c12.reset_final_size_changed",
                                    "reset_final_size_changed",
                                    format!("conn {idx} {role:?} pn {}: RESET_STREAM stream {id} final size {final_size}, earlier RESET_STREAM said {rf}", t.pn),
                                ));
                            }
                        }
                        st.reset_final = Some(*final_size);
                        if st.reset_pn.is_none() {
                            st.reset_pn = Some(t.pn);
                        }
                    }
                    _ => {}
                }
            }
        }
        // 5b. copies of the close packet only in response to incoming datagrams
        if let Some((seq0, t0, _)) = first_close {
            let close_dgrams = o
                .obs
                .tx_dgrams
                .iter()
                .filter(|d| d.ep == side.ep && d.conn == side.conn && d.seq > seq0)
                .count();
            // the first close packet's own datagram is among those (its datagram event follows
            // the packet event): subtract it
            let copies = close_dgrams.saturating_sub(1);
            let my_addrs: Vec<_> = match role {
                Role::Server => o.server_addr.iter().copied().collect(),
                Role::Client => o.net.hosts.iter().filter(|h| h.role == Role::Client && h.idx == idx).map(|h| h.addr).chain(o.client_addrs.get(idx as usize).copied()).collect(),
            };
            let incoming = o
                .net
                .delivered
                .iter()
                .filter(|(t, dst, _, _, _)| *t >= t0 && my_addrs.contains(dst))
                .count();
            if copies > incoming {
                out.push(viol(
                    "C12",
                    "c12.unsolicited_close_copies",
                    "unsolicited_close_copies",
                    format!("conn {idx} {role:?}: {copies} further close datagrams sent after the first CONNECTION_CLOSE but only {incoming} datagrams arrived since", ),
                ));
            }
        }
    }
    let _ = Label::Genuine;
    out
}
