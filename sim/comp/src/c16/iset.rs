//! C16: `s2n_quic_core::interval_set::IntervalSet<T>` (T = u8 over its whole domain, T = u64 in
//! two clusters around 0 and u64::MAX) against a `BTreeSet<u64>` of elements.
//!
//! Error contract used by the oracle (interval_set/mod.rs doc comments, insert.rs:196-213,
//! remove.rs:21,238-246):
//!  * `InvalidInterval` iff the bounds are empty/inverted; set unchanged.
//!  * `insert`: `LimitExceeded` iff a limit is set, the interval cannot be merged into an
//!    existing one and `interval_len() >= limit`; set unchanged.
//!  * `remove`: may be refused with `LimitExceeded` only when it would split an interval; the
//!    real code refuses already when the resulting count would *reach* the limit
//!    (remove.rs:21 `l.get() > ranges.len() + 1`), the natural rule is "exceed".  Neither is part
//!    of C16, so both are accepted: Err is legal iff split ∧ new_count ≥ limit, Ok is legal iff
//!    ¬(split ∧ new_count > limit).  Set unchanged on Err.
//!  * `union`/`difference` apply interval by interval; on `LimitExceeded` a prefix may have been
//!    applied.  Oracle on Err: old ⊆ new ⊆ old ∪ other (resp. old \ other ⊆ new ⊆ old), then the
//!    model adopts the real content.

use crate::common::*;
use s2n_quic_core::interval_set::{IntervalBound, IntervalSet, IntervalSetError};
use simkit::Rng;
use std::{collections::BTreeSet, num::NonZeroUsize, ops::Bound};

pub trait Elem: IntervalBound + core::fmt::Debug {
    const MAX64: u64;
    fn from64(v: u64) -> Option<Self>;
    fn to64(self) -> u64;
}

impl Elem for u8 {
    const MAX64: u64 = 255;
    fn from64(v: u64) -> Option<Self> {
        u8::try_from(v).ok()
    }
    fn to64(self) -> u64 {
        self as u64
    }
}

impl Elem for u64 {
    const MAX64: u64 = u64::MAX;
    fn from64(v: u64) -> Option<Self> {
        Some(v)
    }
    fn to64(self) -> u64 {
        self
    }
}

/// longest interval the model is willing to enumerate
const MAX_SPAN: u64 = 1024;

fn valid<T: Elem>(lo: u64, hi: u64) -> bool {
    T::from64(lo).is_some() && T::from64(hi).is_some() && (hi < lo || hi - lo <= MAX_SPAN)
}

fn build<T: Elem>(other: &[(u64, u64)]) -> Option<(IntervalSet<T>, BTreeSet<u64>)> {
    let mut s = IntervalSet::new();
    let mut m = BTreeSet::new();
    for &(lo, hi) in other {
        if lo > hi || !valid::<T>(lo, hi) {
            return None;
        }
        s.insert(T::from64(lo)?..=T::from64(hi)?).ok()?;
        for v in lo..=hi {
            m.insert(v);
        }
    }
    Some((s, m))
}

fn content<T: Elem>(s: &IntervalSet<T>) -> Vec<(u64, u64)> {
    s.inclusive_ranges().map(|r| (r.start().to64(), r.end().to64())).collect()
}

fn expand(v: &[(u64, u64)]) -> Option<BTreeSet<u64>> {
    let mut out = BTreeSet::new();
    for &(a, b) in v {
        if b < a || b - a > 8 * MAX_SPAN {
            return None;
        }
        for x in a..=b {
            out.insert(x);
        }
    }
    Some(out)
}

struct Exec<'r, T: Elem> {
    real: IntervalSet<T>,
    m: BTreeSet<u64>,
    limit: Option<usize>,
    rec: &'r mut Rec,
    merges: u64,
    splits: u64,
    rejected: u64,
}

impl<T: Elem> Exec<'_, T> {
    fn compare(&mut self, kind: &str) {
        if self.rec.failed() {
            return;
        }
        let got = content(&self.real);
        let want = runs(&self.m);
        self.rec.out(0x15e7, got.len() as u64, self.m.len() as u64);
        if got != want {
            // distinguish element difference from representation difference
            let same_elems = expand(&got).is_some_and(|e| e == self.m);
            let oracle = if same_elems { "C16.iset.canonical" } else { "C16.iset.elements" };
            return self.rec.fail(oracle, kind, format!("set holds {got:?}, reference set {want:?}"));
        }
        let r = &self.real;
        if r.interval_len() != want.len() {
            return self.rec.fail("C16.iset.interval_len", kind, format!("interval_len()={} for {want:?}", r.interval_len()));
        }
        if r.count() != self.m.len() {
            return self.rec.fail("C16.iset.count", kind, format!("count()={} reference {}", r.count(), self.m.len()));
        }
        if r.is_empty() != self.m.is_empty() {
            return self.rec.fail("C16.iset.is_empty", kind, format!("is_empty()={}", r.is_empty()));
        }
        let (mn, mx) = (r.min_value().map(Elem::to64), r.max_value().map(Elem::to64));
        if mn != self.m.iter().next().copied() || mx != self.m.iter().next_back().copied() {
            return self.rec.fail("C16.iset.min_max", kind, format!("min/max = {mn:?}/{mx:?} for {want:?}"));
        }
        // element iterators, forward and backward, and membership around every edge
        if self.rec.cur % 4 == 0 {
            let fwd: Vec<u64> = r.iter().map(Elem::to64).collect();
            let mut bwd: Vec<u64> = r.iter().rev().map(Elem::to64).collect();
            bwd.reverse();
            let want_e: Vec<u64> = self.m.iter().copied().collect();
            if fwd != want_e || bwd != want_e {
                return self.rec.fail("C16.iset.iter", kind, "iter()/iter().rev() do not enumerate the reference elements".into());
            }
        }
        for &(a, b) in &want {
            for v in [a.wrapping_sub(1), a, b, b.wrapping_add(1)] {
                if let Some(t) = T::from64(v) {
                    if r.contains(&t) != self.m.contains(&v) {
                        return self.rec.fail("C16.iset.contains", kind, format!("contains({v})={} for {want:?}", r.contains(&t)));
                    }
                }
            }
        }
    }

    fn count_after(set: &BTreeSet<u64>) -> usize {
        runs(set).len()
    }

    fn insert_like(&mut self, kind: &'static str, lo: u64, hi: u64, r: Result<(), IntervalSetError>) {
        let before_runs = Self::count_after(&self.m);
        let mut after = self.m.clone();
        if lo <= hi {
            for v in lo..=hi {
                after.insert(v);
            }
        }
        let after_runs = Self::count_after(&after);
        let want: Result<(), IntervalSetError> = if lo > hi {
            Err(IntervalSetError::InvalidInterval)
        } else if after_runs > before_runs && self.limit.is_some_and(|l| before_runs >= l) {
            Err(IntervalSetError::LimitExceeded)
        } else {
            Ok(())
        };
        self.rec.out(0x1a5, r.is_ok() as u64, want.is_ok() as u64);
        self.rec.note(|| format!("{r:?}"));
        if r != want {
            return self.rec.fail(
                if r.is_ok() { "C16.iset.invalid_insert_accepted" } else { "C16.iset.valid_insert_rejected" },
                kind,
                format!("insert [{lo}, {hi}] returned {r:?}, expected {want:?} ({before_runs} intervals, limit {:?})", self.limit),
            );
        }
        if r.is_ok() {
            if after_runs < before_runs || (after_runs == before_runs && after.len() > self.m.len() && before_runs > 0) {
                self.merges += 1;
                self.rec.stats.probe("iset_insert_merged_intervals");
            }
            if after_runs + 1 < before_runs {
                self.rec.stats.probe("iset_insert_bridged_3_or_more");
            }
            if hi == T::MAX64 || lo == 0 {
                self.rec.stats.probe("iset_domain_edge_touched");
            }
            self.m = after;
        } else {
            self.rejected += 1;
            self.rec.stats.probe(if lo > hi { "iset_invalid_interval_rejected" } else { "iset_limit_rejected_insert" });
        }
    }

    fn step(&mut self, op: &Op) {
        match op {
            Op::Ins { lo, hi } | Op::InsFront { lo, hi } => {
                let (lo, hi) = (*lo, *hi);
                if !valid::<T>(lo, hi) {
                    self.rec.stats.skipped_precondition += 1;
                    return;
                }
                let b = (Bound::Included(T::from64(lo).unwrap()), Bound::Included(T::from64(hi).unwrap()));
                let front = matches!(op, Op::InsFront { .. });
                self.rec.stats.op(if front { "iset.insert_front" } else { "iset.insert" });
                let r = if front { self.real.insert_front(b) } else { self.real.insert(b) };
                self.insert_like("insert", lo, hi, r);
            }
            Op::InsEx { lo, end } => {
                let (lo, end) = (*lo, *end);
                if T::from64(lo).is_none() || T::from64(end).is_none() || (end > lo && end - lo > MAX_SPAN) {
                    self.rec.stats.skipped_precondition += 1;
                    return;
                }
                self.rec.stats.op("iset.insert_exclusive_range");
                let r = self.real.insert(T::from64(lo).unwrap()..T::from64(end).unwrap());
                if end == 0 {
                    // lo..0 has no representable inclusive end
                    self.rec.out(0x1a6, r.is_ok() as u64, 0);
                    if r != Err(IntervalSetError::InvalidInterval) {
                        self.rec.fail("C16.iset.invalid_insert_accepted", "insert", format!("insert({lo}..0) returned {r:?}"));
                    } else {
                        self.rejected += 1;
                        self.rec.stats.probe("iset_invalid_interval_rejected");
                    }
                } else {
                    self.insert_like("insert", lo, end - 1, r);
                }
            }
            Op::InsV { v } => {
                let Some(t) = T::from64(*v) else {
                    self.rec.stats.skipped_precondition += 1;
                    return;
                };
                self.rec.stats.op("iset.insert_value");
                let r = self.real.insert_value(t);
                self.insert_like("insert_value", *v, *v, r);
            }
            Op::Rem { .. } | Op::RemV { .. } => {
                let (lo, hi) = match *op {
                    Op::Rem { lo, hi } => (lo, hi),
                    Op::RemV { v } => (v, v),
                    _ => unreachable!(),
                };
                if !valid::<T>(lo, hi) {
                    self.rec.stats.skipped_precondition += 1;
                    return;
                }
                let single = matches!(op, Op::RemV { .. });
                self.rec.stats.op(if single { "iset.remove_value" } else { "iset.remove" });
                let r = if single {
                    self.real.remove_value(T::from64(lo).unwrap())
                } else {
                    self.real.remove((Bound::Included(T::from64(lo).unwrap()), Bound::Included(T::from64(hi).unwrap())))
                };
                let before_runs = Self::count_after(&self.m);
                let mut after = self.m.clone();
                if lo <= hi {
                    for v in lo..=hi {
                        after.remove(&v);
                    }
                }
                let after_runs = Self::count_after(&after);
                let split = after_runs > before_runs;
                self.rec.out(0x1a7, r.is_ok() as u64, split as u64);
                self.rec.note(|| format!("{r:?}"));
                if lo > hi {
                    if r != Err(IntervalSetError::InvalidInterval) {
                        self.rec.fail("C16.iset.invalid_remove_accepted", "remove", format!("remove [{lo}, {hi}] returned {r:?}"));
                    } else {
                        self.rejected += 1;
                        self.rec.stats.probe("iset_invalid_interval_rejected");
                    }
                } else {
                    let err_legal = split && self.limit.is_some_and(|l| after_runs >= l);
                    let ok_legal = !(split && self.limit.is_some_and(|l| after_runs > l));
                    match r {
                        Ok(()) if ok_legal => {
                            if split {
                                self.splits += 1;
                                self.rec.stats.probe("iset_remove_split_interval");
                            }
                            self.m = after;
                        }
                        Err(IntervalSetError::LimitExceeded) if err_legal => {
                            self.rejected += 1;
                            self.rec.stats.probe("iset_limit_rejected_remove");
                            if self.limit == Some(after_runs) {
                                self.rec.stats.probe("iset_remove_refused_although_result_fits_limit");
                            }
                        }
                        _ => self.rec.fail(
                            if r.is_ok() { "C16.iset.limit_not_enforced" } else { "C16.iset.valid_remove_rejected" },
                            "remove",
                            format!("remove [{lo}, {hi}] returned {r:?} ({before_runs} -> {after_runs} intervals, limit {:?})", self.limit),
                        ),
                    }
                }
            }
            Op::Union { other } | Op::Diff { other } | Op::Inter { other } | Op::InterIter { other } => {
                let Some((o_real, o_m)) = build::<T>(other) else {
                    self.rec.stats.skipped_precondition += 1;
                    return;
                };
                match op {
                    Op::Union { .. } => {
                        self.rec.stats.op("iset.union");
                        let r = self.real.union(&o_real);
                        let full: BTreeSet<u64> = self.m.union(&o_m).copied().collect();
                        self.rec.out(0x1a8, r.is_ok() as u64, full.len() as u64);
                        self.rec.note(|| format!("{r:?}"));
                        match r {
                            Ok(()) => {
                                if Self::count_after(&full) < Self::count_after(&self.m) + Self::count_after(&o_m) {
                                    self.merges += 1;
                                    self.rec.stats.probe("iset_union_merged_intervals");
                                }
                                self.m = full;
                            }
                            Err(IntervalSetError::LimitExceeded) if self.limit.is_some() => {
                                let Some(now) = expand(&content(&self.real)) else {
                                    return self.rec.fail("C16.iset.elements", "union", "content not enumerable after failed union".into());
                                };
                                if !(self.m.is_subset(&now) && now.is_subset(&full)) {
                                    return self.rec.fail("C16.iset.elements", "union", "after a refused union the set is not between old and old ∪ other".into());
                                }
                                self.rejected += 1;
                                self.rec.stats.probe("iset_limit_rejected_union");
                                self.m = now;
                            }
                            Err(e) => self.rec.fail("C16.iset.valid_union_rejected", "union", format!("union returned {e:?} (limit {:?})", self.limit)),
                        }
                    }
                    Op::Diff { .. } => {
                        self.rec.stats.op("iset.difference");
                        let r = self.real.difference(&o_real);
                        let full: BTreeSet<u64> = self.m.difference(&o_m).copied().collect();
                        self.rec.out(0x1a9, r.is_ok() as u64, full.len() as u64);
                        self.rec.note(|| format!("{r:?}"));
                        match r {
                            Ok(()) => {
                                if Self::count_after(&full) > Self::count_after(&self.m) {
                                    self.splits += 1;
                                    self.rec.stats.probe("iset_difference_split_interval");
                                }
                                self.m = full;
                            }
                            Err(IntervalSetError::LimitExceeded) if self.limit.is_some() => {
                                let Some(now) = expand(&content(&self.real)) else {
                                    return self.rec.fail("C16.iset.elements", "difference", "content not enumerable after failed difference".into());
                                };
                                if !(full.is_subset(&now) && now.is_subset(&self.m)) {
                                    return self.rec.fail("C16.iset.elements", "difference", "after a refused difference the set is not between old \\ other and old".into());
                                }
                                self.rejected += 1;
                                self.rec.stats.probe("iset_limit_rejected_difference");
                                self.m = now;
                            }
                            Err(e) => self.rec.fail("C16.iset.valid_difference_rejected", "difference", format!("difference returned {e:?} (limit {:?})", self.limit)),
                        }
                    }
                    Op::Inter { .. } => {
                        self.rec.stats.op("iset.intersection");
                        let r = self.real.intersection(&o_real);
                        self.rec.out(0x1aa, r.is_ok() as u64, 0);
                        if r.is_err() {
                            return self.rec.fail("C16.iset.valid_intersection_rejected", "intersection", format!("{r:?}"));
                        }
                        self.m = self.m.intersection(&o_m).copied().collect();
                    }
                    _ => {
                        self.rec.stats.op("iset.intersection_iter");
                        let got: Vec<(u64, u64)> =
                            self.real.intersection_iter(&o_real).map(|i| (i.start_inclusive().to64(), i.end_inclusive().to64())).collect();
                        let want: BTreeSet<u64> = self.m.intersection(&o_m).copied().collect();
                        self.rec.out(0x1ab, got.len() as u64, want.len() as u64);
                        // the iterator may yield adjacent pieces; compare elements, order and disjointness
                        let mut prev: Option<u64> = None;
                        for &(a, b) in &got {
                            if a > b || prev.is_some_and(|p| p >= a) {
                                return self.rec.fail("C16.iset.intersection_iter", "intersection_iter", format!("pieces not ascending/disjoint: {got:?}"));
                            }
                            prev = Some(b);
                        }
                        if expand(&got).is_none_or(|e| e != want) {
                            return self.rec.fail("C16.iset.intersection_iter", "intersection_iter", format!("yields {got:?}, reference {:?}", runs(&want)));
                        }
                    }
                }
            }
            Op::PopMin => {
                self.rec.stats.op("iset.pop_min");
                let r = self.real.pop_min().map(|i| (i.start_inclusive().to64(), i.end_inclusive().to64()));
                let want = runs(&self.m).first().copied();
                self.rec.out(0x1ac, r.map_or(u64::MAX, |x| x.0), r.map_or(u64::MAX, |x| x.1));
                self.rec.note(|| format!("{r:?}"));
                if r != want {
                    return self.rec.fail("C16.iset.pop_min", "pop_min", format!("pop_min()={r:?}, lowest reference run {want:?}"));
                }
                if let Some((a, b)) = want {
                    for v in a..=b {
                        self.m.remove(&v);
                    }
                }
            }
            Op::Clear => {
                self.rec.stats.op("iset.clear");
                self.real.clear();
                self.m.clear();
            }
            Op::SetLimit { n } => {
                let Some(nz) = NonZeroUsize::new(*n as usize) else {
                    self.rec.stats.skipped_precondition += 1;
                    return;
                };
                self.rec.stats.op("iset.set_limit");
                self.real.set_limit(nz);
                self.limit = Some(*n as usize);
            }
            Op::RemoveLimit => {
                self.rec.stats.op("iset.remove_limit");
                self.real.remove_limit();
                self.limit = None;
            }
            _ => self.rec.stats.skipped_precondition += 1,
        }
    }
}

fn run<T: Elem>(h: &History, structure: &'static str, trace: bool) -> Outcome {
    let mut rec = Rec::new("C16", structure, trace);
    let nontrivial;
    {
        let limit = if h.param > 0 { Some(h.param as usize) } else { None };
        let real = match limit {
            Some(l) => IntervalSet::with_limit(NonZeroUsize::new(l).unwrap()),
            None => IntervalSet::new(),
        };
        let mut e: Exec<T> = Exec { real, m: BTreeSet::new(), limit, rec: &mut rec, merges: 0, splits: 0, rejected: 0 };
        for (i, op) in h.ops.iter().enumerate() {
            e.rec.begin(i, op);
            e.step(op);
            e.compare("after op");
            if e.rec.failed() {
                break;
            }
        }
        nontrivial = e.merges >= 1 && (e.splits >= 1 || e.rejected >= 1);
    }
    rec.finish(nontrivial)
}

pub fn execute(h: &History, trace: bool) -> Outcome {
    if h.structure == "iset_u8" {
        run::<u8>(h, "iset_u8", trace)
    } else {
        run::<u64>(h, "iset_u64", trace)
    }
}

// ---------------------------------------------------------------------------------------
// generator

/// value in the domain: whole u8 range, or two clusters of u64 (so that an interval never has
/// to be enumerated across 2^64)
fn gen_interval(rng: &mut Rng, wide: bool, hot: &[u64]) -> (u64, u64) {
    let max = if wide { u64::MAX } else { 255 };
    let span = match rng.below(10) {
        0..=3 => 0,
        4..=6 => rng.range(1, 4),
        7..=8 => rng.range(5, 40),
        _ => rng.range(41, if wide { 300 } else { 255 }),
    };
    let lo = match rng.below(10) {
        0 => 0,
        1 => max - span.min(max),
        2..=5 if !hot.is_empty() => {
            // around an edge of something already in the set: adjacent, overlapping, one off
            let e = hot[rng.below(hot.len() as u64) as usize];
            let d = rng.range(0, span + 2);
            if rng.chance(1, 2) {
                e.saturating_sub(d)
            } else {
                e.saturating_add(rng.range(0, 2)).min(max)
            }
        }
        _ => {
            if wide && rng.chance(1, 3) {
                max - rng.range(0, 400)
            } else {
                rng.range(0, if wide { 400 } else { 255 })
            }
        }
    };
    let hi = lo.saturating_add(span).min(max);
    // never straddle the two u64 clusters
    if wide && hi - lo > 600 {
        return (lo, lo);
    }
    (lo, hi)
}

pub fn generate(seed: u64, wide: bool) -> History {
    let mut rng = Rng::new(seed ^ 0x15e7_15e7);
    let n = rng.range(1, 200) as usize;
    let param = if rng.chance(1, 2) { rng.pick(&[1u64, 2, 3, 4, 8, 17]) } else { 0 };
    let mut hot: Vec<u64> = vec![];
    let mut ops = Vec::with_capacity(n);
    let other = |rng: &mut Rng, hot: &[u64]| -> Vec<(u64, u64)> {
        let k = rng.range(0, 6);
        (0..k).map(|_| gen_interval(rng, wide, hot)).collect()
    };
    while ops.len() < n {
        let (lo, hi) = gen_interval(&mut rng, wide, &hot);
        let op = match rng.below(100) {
            0..=27 => Op::Ins { lo, hi },
            28..=31 => Op::InsEx { lo, end: if rng.chance(1, 12) { lo } else { hi.saturating_add(1) } },
            32..=35 => Op::InsFront { lo, hi },
            36..=43 => Op::InsV { v: lo },
            44..=61 => Op::Rem { lo, hi },
            62..=67 => Op::RemV { v: if rng.chance(1, 2) { lo } else { hi } },
            68..=73 => Op::Union { other: other(&mut rng, &hot) },
            74..=79 => Op::Diff { other: other(&mut rng, &hot) },
            80..=83 => Op::Inter { other: other(&mut rng, &hot) },
            84..=87 => Op::InterIter { other: other(&mut rng, &hot) },
            88..=91 => Op::PopMin,
            92 => Op::Clear,
            93..=95 => Op::SetLimit { n: rng.pick(&[1u32, 2, 3, 5, 9]) },
            96 => Op::RemoveLimit,
            97 => Op::Ins { lo: hi.max(1), hi: hi.max(1) - 1 },
            _ => Op::Ins { lo, hi },
        };
        if let Op::Ins { lo, hi } | Op::Rem { lo, hi } | Op::InsFront { lo, hi } = &op {
            hot.push(*lo);
            hot.push(*hi);
            if hot.len() > 16 {
                hot.drain(0..2);
            }
        }
        ops.push(op);
    }
    History { property: "C16".into(), structure: if wide { "iset_u64" } else { "iset_u8" }.into(), seed, param, ops }
}
