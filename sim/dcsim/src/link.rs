//! Simulated network for the bach runtime: a `queue::Allocator` whose per-socket pipes run every
//! datagram through the plan's fault list (drop / duplicate / delay / blackhole / vanish) and the
//! forgery list (mutated copies).  All choices are positional (direction + ordinal or virtual
//! time) because ciphertext differs between runs.

use crate::plan::*;
use bach::{
    environment::net::{
        ip::{Packet, Segments},
        monitor::List as Monitors,
        pcap,
        queue::{Allocator, Dispatch, PacketQueue},
    },
    ext::*,
    group::Group,
    queue::vec_deque,
    sync::channel::Sender,
};
use bytes::Bytes;
use s2n_codec::{DecoderBufferMut, DecoderParameterizedValueMut, EncoderBuffer};
use s2n_quic_dc::packet as dcp;
use simkit::hashn;
use std::{
    collections::{BTreeMap, HashMap, VecDeque},
    net::{IpAddr, SocketAddr},
    sync::{Arc, Mutex},
    time::Duration,
};

pub const FATE_DELIVERED: u8 = 0;
pub const FATE_DROP: u8 = 1;
pub const FATE_BLACKHOLE: u8 = 2;
pub const FATE_VANISHED: u8 = 3;
pub const FATE_REPLACED: u8 = 4;

pub const LABEL_GENUINE: u8 = 0;
pub const LABEL_DUP: u8 = 1;
pub const LABEL_FORGED: u8 = 2;

pub const KIND_STREAM: u8 = 0;
pub const KIND_CONTROL: u8 = 1;
pub const KIND_DATAGRAM: u8 = 2;
pub const KIND_STALE_KEY: u8 = 3;
pub const KIND_REPLAY: u8 = 4;
pub const KIND_UPS: u8 = 5;
pub const KIND_UNDECODABLE: u8 = 9;

/// at most this many datagram records are kept per run (about 90 MB)
pub const LOG_CAP: usize = 600_000;
/// a run is stopped when it has moved this many datagrams
/// receive queue of a simulated socket, in datagrams (an undrained socket tail-drops beyond it)
pub const RX_QUEUE_PACKETS: usize = 16_384;
pub const DATAGRAM_BUDGET: u64 = 2_500_000;
/// ... or this many bytes (fault-free runs of the largest plans move well under 100 MB)
pub const BYTE_BUDGET: u64 = 600_000_000;

pub fn kind_name(k: u8) -> &'static str {
    match k {
        KIND_STREAM => "stream",
        KIND_CONTROL => "control",
        KIND_DATAGRAM => "datagram",
        KIND_STALE_KEY => "stale_key",
        KIND_REPLAY => "replay_detected",
        KIND_UPS => "unknown_path_secret",
        _ => "undecodable",
    }
}

#[derive(Clone, Debug)]
pub struct Rec {
    pub t_send_ns: u64,
    pub t_deliver_ns: u64,
    pub dir: u8,
    pub ord: u64,
    pub len: u32,
    pub fate: u8,
    pub label: u8,
    pub kind: u8,
    pub src: SocketAddr,
    pub dst: SocketAddr,
    /// for forged copies: short description of the mutation and whether it changed bytes
    pub note: Option<String>,
    /// hash of (credential id, key id) of the sampled original
    pub flow: u64,
    /// forged copy delivered before any genuine datagram of its flow reached that receiver
    pub first_flight: bool,
    /// forged copy of a secret-control packet whose authenticated part is byte-identical to the
    /// genuine one (UnknownPathSecret: credential id + token; any kind: trailing bytes appended)
    pub equiv: bool,
    /// UnknownPathSecret for a credential id that a client really uses
    pub known_id: bool,
    /// identity of the packet as its receiver parses it (forged copies: parsed from the forged bytes)
    pub pkt: Option<PktId>,
    /// stream packet whose packet number differs from its original one (retransmission / probe)
    pub retx: bool,
    /// packet-number space of the receiver's duplicate filter: taken from the tag as parsed
    /// (0 = stream, 1 = recovery; retransmissions travel as recovery packets and the parsed tag
    /// keeps that bit even though the header byte is rewritten before authentication)
    pub space: u8,
    /// hash of the datagram bytes (0 for secret-control packets: their tag is derived from the
    /// server map's random stateless-reset signer, the only byte source without a seam)
    pub bytes_hash: u64,
}

#[derive(Clone, Debug, Default)]
pub struct Meta {
    pub kind: u8,
    pub cred_id: [u8; 16],
    pub key_id: u64,
    /// queue id carried in the stream id (the receiver's queue)
    pub queue_id: Option<u64>,
    pub source_queue_id: Option<u64>,
    pub header_len: usize,
    pub payload_len: usize,
    pub is_retx: bool,
    pub is_fin: bool,
    pub is_probe: bool,
    pub packet_number: u64,
    pub stream_offset: u64,
    pub control_data_len: usize,
    pub total_len: usize,
}

/// What a receiver reports about a packet it rejected, as far as it identifies the packet:
/// stream packets by (credential id, key id, queue id, packet number, stream offset, payload
/// length, header length), control packets by (packet number, packet length, control data length)
#[derive(Clone, Copy, Debug, PartialEq, Eq, PartialOrd, Ord, Hash)]
pub struct PktId {
    pub kind: u8,
    pub cred: u128,
    pub f: [u64; 6],
}

impl Meta {
    pub fn pkt_id(&self) -> Option<PktId> {
        match self.kind {
            KIND_STREAM => Some(PktId {
                kind: KIND_STREAM,
                cred: u128::from_be_bytes(self.cred_id),
                f: [self.key_id, self.queue_id.unwrap_or(u64::MAX), self.packet_number, self.stream_offset, self.payload_len as u64, self.header_len as u64],
            }),
            KIND_CONTROL => Some(PktId { kind: KIND_CONTROL, cred: 0, f: [self.packet_number, self.total_len as u64, self.control_data_len as u64, 0, 0, 0] }),
            _ => None,
        }
    }
}

pub fn decode_meta(bytes: &[u8]) -> Meta {
    let mut copy = bytes.to_vec();
    let total = copy.len();
    let buf = DecoderBufferMut::new(&mut copy);
    let mut m = Meta { kind: KIND_UNDECODABLE, ..Default::default() };
    let Ok((p, _rest)) = dcp::Packet::decode_parameterized_mut(16, buf) else {
        return m;
    };
    match p {
        dcp::Packet::Stream(p) => {
            m.kind = KIND_STREAM;
            m.cred_id.copy_from_slice(&p.credentials().id[..]);
            m.key_id = p.credentials().key_id.as_u64();
            m.queue_id = Some(p.stream_id().queue_id().as_u64());
            m.source_queue_id = p.source_queue_id().map(|v| v.as_u64());
            m.header_len = p.header().len();
            m.payload_len = p.payload().len();
            m.is_retx = p.is_retransmission();
            m.is_fin = p.is_fin();
            m.is_probe = matches!(p.tag().packet_space(), dcp::stream::PacketSpace::Recovery);
            m.packet_number = p.packet_number().as_u64();
            m.stream_offset = p.stream_offset().as_u64();
            m.total_len = p.total_len();
        }
        dcp::Packet::Control(p) => {
            m.kind = KIND_CONTROL;
            m.cred_id.copy_from_slice(&p.credentials().id[..]);
            m.key_id = p.credentials().key_id.as_u64();
            m.queue_id = p.stream_id().map(|s| s.queue_id().as_u64());
            m.source_queue_id = p.source_queue_id().map(|v| v.as_u64());
            m.header_len = p.header().len();
            m.packet_number = p.packet_number().as_u64();
            m.control_data_len = p.control_data().len();
            m.total_len = p.total_len();
        }
        dcp::Packet::Datagram(_) => {
            m.kind = KIND_DATAGRAM;
            m.header_len = total.saturating_sub(16);
        }
        dcp::Packet::StaleKey(p) => {
            m.kind = KIND_STALE_KEY;
            m.cred_id.copy_from_slice(&p.credential_id()[..]);
            m.queue_id = p.queue_id().map(|v| v.as_u64());
            m.header_len = total.saturating_sub(16);
        }
        dcp::Packet::ReplayDetected(p) => {
            m.kind = KIND_REPLAY;
            m.cred_id.copy_from_slice(&p.credential_id()[..]);
            m.queue_id = p.queue_id().map(|v| v.as_u64());
            m.header_len = total.saturating_sub(16);
        }
        dcp::Packet::UnknownPathSecret(p) => {
            m.kind = KIND_UPS;
            m.cred_id.copy_from_slice(&p.credential_id()[..]);
            m.queue_id = p.queue_id().map(|v| v.as_u64());
            m.header_len = total.saturating_sub(16);
        }
    }
    m
}

#[derive(Clone)]
struct Sample {
    bytes: Bytes,
    meta: Meta,
}

#[derive(Default)]
pub struct LinkStats {
    pub fired: BTreeMap<String, u64>,
    pub kinds_seen: BTreeMap<String, u64>,
    pub retx_seen: u64,
    pub probes_seen: u64,
    pub fin_seen: u64,
    pub reordered: u64,
    pub max_reorder_span: u64,
    pub forged_delivered: u64,
    pub forged_noop: u64,
    pub forged_by_kind: BTreeMap<String, u64>,
    pub forged_by_mutation: BTreeMap<String, u64>,
    /// genuine (unmodified, incl. duplicated) secret-control datagrams delivered, by kind
    pub genuine_secret_control: BTreeMap<String, u64>,
    pub forged_secret_control: BTreeMap<String, u64>,
    pub max_len: [u32; 2],
    pub genuine_ups_known_id: u64,
    pub equiv_ups_delivered: u64,
    pub forged_first_flight: u64,
}

pub struct LinkState {
    cfg: Cfg,
    faults: Vec<Fault>,
    forges: HashMap<(u8, u64), Vec<Forge>>,
    kind_forges: HashMap<(u8, u8, u64), Vec<Forge>>,
    kind_ord: HashMap<(u8, u8), u64>,
    vanish: Option<Vanish>,
    pub server_ip: Option<IpAddr>,
    pub server_map: Option<s2n_quic_dc::path::secret::Map>,
    ord: [u64; 2],
    max_delivered: [u64; 2],
    any_delivered: [bool; 2],
    pub log: Vec<Rec>,
    vanished: [bool; 2],
    pub vanish_t_ns: Option<u64>,
    forget_done: bool,
    pub first_fault_ns: Option<u64>,
    pub last_rx_ns: HashMap<IpAddr, u64>,
    pub last_deliver_ns: u64,
    ring: [VecDeque<Sample>; 2],
    pub stats: LinkStats,
    decode: bool,
    /// set by the supervisor when the run is over: teardown traffic is discarded unlogged
    pub closed: bool,
    /// all datagrams handed to the link (the log itself is capped to bound memory)
    pub datagrams: u64,
    pub bytes_moved: u64,
    /// budget exhausted: the link stops carrying traffic (bounds the memory of undrained queues)
    pub over_budget: bool,
    pub log_truncated: bool,
    pub log_truncated_at_ns: u64,
    /// credential ids each client host has used on genuine packets (keyed by the client's IP: the
    /// path-secret map is per client, another client's id is unknown to it)
    real_ids: std::collections::HashSet<(std::net::IpAddr, [u8; 16])>,
    delivered_flows: std::collections::HashSet<(u8, u64)>,
    forge_as_drop: bool,
}

pub type Shared = Arc<Mutex<LinkState>>;

struct Out {
    delay_us: u64,
    packet: Packet,
    rec: usize,
}

fn now_ns() -> u64 {
    bach::time::Instant::now().elapsed_since_start().as_nanos() as u64
}

impl LinkState {
    pub fn new(plan: &Plan) -> Self {
        let mut forges: HashMap<(u8, u64), Vec<Forge>> = HashMap::new();
        let mut kind_forges: HashMap<(u8, u8, u64), Vec<Forge>> = HashMap::new();
        for f in &plan.forges {
            match f.kind {
                None => forges.entry((f.dir, f.ord)).or_default().push(f.clone()),
                Some(k) => kind_forges.entry((f.dir, k, f.ord)).or_default().push(f.clone()),
            }
        }
        Self {
            cfg: plan.cfg.clone(),
            faults: plan.faults.clone(),
            forges,
            kind_forges,
            kind_ord: HashMap::new(),
            vanish: plan.vanish.clone(),
            server_ip: None,
            server_map: None,
            ord: [0; 2],
            max_delivered: [0; 2],
            any_delivered: [false; 2],
            log: Vec::new(),
            vanished: [false; 2],
            vanish_t_ns: None,
            forget_done: false,
            first_fault_ns: None,
            last_rx_ns: HashMap::new(),
            last_deliver_ns: 0,
            ring: [VecDeque::new(), VecDeque::new()],
            stats: LinkStats::default(),
            decode: true,
            closed: false,
            datagrams: 0,
            bytes_moved: 0,
            over_budget: false,
            log_truncated: false,
            log_truncated_at_ns: u64::MAX,
            real_ids: Default::default(),
            delivered_flows: Default::default(),
            forge_as_drop: plan.forge_as_drop,
        }
    }

    pub fn fault_seen(&self) -> bool {
        self.first_fault_ns.is_some()
    }

    fn fire(&mut self, name: &str, t: u64) {
        *self.stats.fired.entry(name.to_string()).or_insert(0) += 1;
        if self.first_fault_ns.is_none() {
            self.first_fault_ns = Some(t);
        }
    }

    fn pos_reached(&self, at: &Pos, dir: u8, ord: u64, t_ns: u64) -> bool {
        match at {
            Pos::C2sOrd(n) => (dir == DIR_C2S && ord >= *n) || self.ord[0] > *n,
            Pos::S2cOrd(n) => (dir == DIR_S2C && ord >= *n) || self.ord[1] > *n,
            Pos::TimeUs(us) => t_ns >= us * 1000,
        }
    }

    fn sel_hits(&self, sel: &Sel, dir: u8, ord: u64, t_ns: u64) -> bool {
        match sel {
            Sel::Ord(n) => *n == ord,
            Sel::OrdRange { from, to, pm, key } => {
                ord >= *from && ord < *to && (*pm >= 1000 || hashn(*key, &[dir as u64, ord]) % 1000 < *pm as u64)
            }
            Sel::Window { t0_us, t1_us, pm, key } => {
                t_ns >= t0_us * 1000
                    && t_ns < t1_us * 1000
                    && (*pm >= 1000 || hashn(*key, &[dir as u64, ord]) % 1000 < *pm as u64)
            }
        }
    }

    fn on_send(&mut self, packet: Packet) -> Vec<Out> {
        if self.closed {
            return vec![];
        }
        self.datagrams += 1;
        self.bytes_moved += packet.transport.payload().len() as u64;
        if self.datagrams > DATAGRAM_BUDGET || self.bytes_moved > BYTE_BUDGET {
            self.over_budget = true;
            return vec![];
        }
        if self.log.len() >= LOG_CAP {
            // memory bound for pathological (livelocked) runs: keep simulating, stop recording
            if !self.log_truncated {
                self.log_truncated = true;
                self.log_truncated_at_ns = now_ns();
            }
            return self.passthrough(packet);
        }
        let t = now_ns();
        let src = packet.source();
        let dst = packet.destination();
        let dir = match self.server_ip {
            Some(ip) if dst.ip() == ip => DIR_C2S,
            _ => DIR_S2C,
        };
        let d = dir as usize;
        let ord = self.ord[d];
        self.ord[d] += 1;
        let bytes = packet.transport.payload().clone();
        let meta = if self.decode { decode_meta(&bytes) } else { Meta::default() };
        *self.stats.kinds_seen.entry(kind_name(meta.kind).to_string()).or_insert(0) += 1;
        if bytes.len() as u32 > self.stats.max_len[d] {
            self.stats.max_len[d] = bytes.len() as u32;
        }
        if meta.is_retx {
            self.stats.retx_seen += 1;
        }
        if meta.is_probe {
            self.stats.probes_seen += 1;
        }
        if meta.is_fin {
            self.stats.fin_seen += 1;
        }

        // vanish family
        if let Some(v) = self.vanish.clone() {
            match v {
                Vanish::Blackhole { at, dir: vdir } => {
                    if self.vanish_t_ns.is_none() && self.pos_reached(&at, dir, ord, t) {
                        self.vanish_t_ns = Some(t);
                        for x in 0..2u8 {
                            if vdir == DIR_BOTH || vdir == x {
                                self.vanished[x as usize] = true;
                            }
                        }
                    }
                }
                Vanish::Forget { at } => {
                    if !self.forget_done && self.pos_reached(&at, dir, ord, t) {
                        self.forget_done = true;
                        self.vanish_t_ns = Some(t);
                        if let Some(m) = &self.server_map {
                            m.drop_state();
                        }
                        self.fire("server_forgot_secrets", t);
                    }
                }
            }
        }

        let mut rec = Rec {
            t_send_ns: t,
            t_deliver_ns: 0,
            dir,
            ord,
            len: bytes.len() as u32,
            fate: FATE_DELIVERED,
            label: LABEL_GENUINE,
            kind: meta.kind,
            src,
            dst,
            note: None,
            flow: hashn(0xf10, &[u64::from_le_bytes(meta.cred_id[..8].try_into().unwrap()), u64::from_le_bytes(meta.cred_id[8..].try_into().unwrap()), meta.key_id]),
            first_flight: false,
            equiv: false,
            known_id: false,
            pkt: meta.pkt_id(),
            retx: meta.is_retx,
            space: meta.is_probe as u8,
            bytes_hash: if (KIND_STALE_KEY..=KIND_UPS).contains(&meta.kind) { 0 } else { simkit::hash_bytes(&bytes) },
        };
        if dir == DIR_C2S && meta.kind <= KIND_CONTROL {
            self.real_ids.insert((src.ip(), meta.cred_id));
        }
        if meta.kind == KIND_UPS {
            rec.known_id = self.real_ids.contains(&(dst.ip(), meta.cred_id));
        }
        let mut outs = vec![];

        if self.vanished[d] {
            rec.fate = FATE_VANISHED;
            self.fire("vanished_drop", t);
            self.log.push(rec);
            self.remember(d, bytes, meta);
            return outs;
        }

        let base = self.cfg.base_delay_us
            + if self.cfg.jitter_us > 0 { hashn(self.cfg.delay_key, &[dir as u64, ord]) % (self.cfg.jitter_us + 1) } else { 0 };
        let mut delay = base;
        let mut dropped = None;
        let mut dups: Vec<u64> = vec![];
        let faults = std::mem::take(&mut self.faults);
        for f in &faults {
            if f.dir != DIR_BOTH && f.dir != dir {
                continue;
            }
            if !self.sel_hits(&f.sel, dir, ord, t) {
                continue;
            }
            match &f.act {
                Act::Drop => {
                    let blackhole = matches!(f.sel, Sel::Window { pm, .. } | Sel::OrdRange { pm, .. } if pm >= 1000);
                    dropped = Some(if blackhole { FATE_BLACKHOLE } else { FATE_DROP });
                }
                Act::Dup { n, gap_us } => {
                    for k in 1..=(*n as u64) {
                        dups.push(gap_us * k);
                    }
                }
                Act::Delay { us } => delay += us,
            }
        }
        self.faults = faults;

        // forgeries sampled from this datagram
        let mut forges = self.forges.get(&(dir, ord)).cloned().unwrap_or_default();
        {
            let ko = self.kind_ord.entry((dir, meta.kind)).or_insert(0);
            let n = *ko;
            *ko += 1;
            if let Some(v) = self.kind_forges.get(&(dir, meta.kind, n)) {
                forges.extend(v.iter().cloned());
            }
        }
        let mut replaced = false;
        let mut forged: Vec<(i64, Bytes, String, bool, u8, bool, bool, Option<PktId>)> = vec![];
        for f in &forges {
            if let Some((b, note, changed)) = self.mutate(&f.mutation, dir, &bytes, &meta) {
                let fm = decode_meta(&b);
                let k = fm.kind;
                let equiv = changed && secret_control_equivalent(&bytes, &meta, &b, &f.mutation);
                // bytes borrowed from a secret-control packet carry its (random) token
                let tainted = match &f.mutation {
                    Mutation::TagOf(o) | Mutation::Splice(o) => self.pick_other(o, dir, &meta).map_or(false, |s| (KIND_STALE_KEY..=KIND_UPS).contains(&s.meta.kind)),
                    _ => false,
                };
                forged.push((f.skew_us, b, note, changed, k, equiv, tainted, fm.pkt_id()));
                if f.replace {
                    replaced = true;
                }
            }
        }
        if self.forge_as_drop {
            forged.clear();
            if replaced {
                replaced = false;
                dropped = dropped.or(Some(FATE_DROP));
            }
        }

        if let Some(fate) = dropped {
            rec.fate = fate;
            self.fire(if fate == FATE_BLACKHOLE { "blackhole" } else { "drop" }, t);
            self.log.push(rec.clone());
        } else if replaced {
            rec.fate = FATE_REPLACED;
            self.fire("replaced_by_forgery", t);
            self.log.push(rec.clone());
        } else {
            if delay > base {
                self.fire("delay", t);
            }
            let idx = self.log.len();
            self.log.push(rec.clone());
            outs.push(Out { delay_us: delay, packet: packet.clone(), rec: idx });
            for gap in dups {
                self.fire("dup", t);
                let idx = self.log.len();
                let mut r = rec.clone();
                r.label = LABEL_DUP;
                self.log.push(r);
                outs.push(Out { delay_us: delay + gap, packet: packet.clone(), rec: idx });
            }
        }
        if dropped.is_none() {
            for (skew, b, note, changed, k, equiv, tainted, fpkt) in forged {
                let mut p = packet.clone();
                *p.transport.payload_mut() = b.clone();
                let idx = self.log.len();
                let mut r = rec.clone();
                r.fate = FATE_DELIVERED;
                r.label = LABEL_FORGED;
                r.len = b.len() as u32;
                r.kind = k;
                r.pkt = fpkt;
                r.bytes_hash = if tainted || (KIND_STALE_KEY..=KIND_UPS).contains(&k) || (KIND_STALE_KEY..=KIND_UPS).contains(&meta.kind) { 0 } else { simkit::hash_bytes(&b) };
                r.note = Some(format!("{note}{}{}", if equiv { " (authenticated part identical)" } else { "" }, if changed { "" } else { " (no-op: identical bytes, counted as duplicate)" }));
                r.equiv = equiv;
                if !changed {
                    r.label = LABEL_DUP;
                    self.stats.forged_noop += 1;
                }
                self.log.push(r);
                let dl = (delay as i64 + skew).max(0) as u64;
                outs.push(Out { delay_us: dl, packet: p, rec: idx });
                self.fire("forged", t);
            }
        }
        self.remember(d, bytes, meta);
        outs
    }

    /// fault-free delivery without a log record (only used once the log cap is reached)
    fn passthrough(&mut self, packet: Packet) -> Vec<Out> {
        let dst = packet.destination();
        let dir = match self.server_ip {
            Some(ip) if dst.ip() == ip => DIR_C2S,
            _ => DIR_S2C,
        };
        if self.vanished[dir as usize] {
            return vec![];
        }
        vec![Out { delay_us: self.cfg.base_delay_us, packet, rec: usize::MAX }]
    }

    fn remember(&mut self, d: usize, bytes: Bytes, meta: Meta) {
        if self.forges.is_empty() && self.kind_forges.is_empty() {
            return;
        }
        let r = &mut self.ring[d];
        r.push_back(Sample { bytes, meta });
        if r.len() > 64 {
            r.pop_front();
        }
    }

    fn pick_other(&self, o: &Other, dir: u8, meta: &Meta) -> Option<Sample> {
        let d = dir as usize;
        match o {
            Other::Prev(back) => {
                let r = &self.ring[d];
                let n = r.len() as u64;
                if n == 0 {
                    return None;
                }
                let i = n.saturating_sub(1 + *back % n.max(1));
                r.get(i as usize).cloned()
            }
            Other::OtherStream => self.ring[d]
                .iter()
                .rev()
                .find(|s| s.meta.cred_id == meta.cred_id && s.meta.key_id != meta.key_id && s.meta.kind <= KIND_CONTROL)
                .cloned(),
            Other::OtherConn => self.ring[d]
                .iter()
                .rev()
                .find(|s| s.meta.cred_id != meta.cred_id && s.meta.kind <= KIND_CONTROL)
                .cloned(),
            Other::OtherDir => self.ring[1 - d].back().cloned(),
        }
    }

    /// returns (bytes, note, changed)
    fn mutate(&self, m: &Mutation, dir: u8, bytes: &Bytes, meta: &Meta) -> Option<(Bytes, String, bool)> {
        let len = bytes.len();
        if len == 0 {
            return None;
        }
        let tag_start = len.saturating_sub(16);
        let hdr_end = meta.header_len.min(tag_start).max(1);
        let cred_end = if meta.kind <= KIND_DATAGRAM && len > 18 {
            (17 + (1usize << (bytes[17] >> 6))).min(hdr_end)
        } else {
            17.min(hdr_end)
        };
        let mut v = bytes.to_vec();
        let note;
        match m {
            Mutation::Flip { region, frac, xor } => {
                let (a, b) = match region {
                    Region::Tag => (0, 1),
                    Region::Credentials => (1.min(len), cred_end),
                    Region::Header => (cred_end, hdr_end),
                    Region::Payload => (hdr_end, tag_start),
                    Region::AuthTag => (tag_start, len),
                    Region::Any => (0, len),
                };
                let (a, b) = if b > a { (a, b) } else { (0, len) };
                let pos = a + ((b - a) as u64 * *frac as u64 / 65536) as usize;
                let x = if *xor == 0 { 1 } else { *xor };
                v[pos] ^= x;
                note = format!("flip {region:?} pos {pos}/{len} xor {x:#04x} of {}", kind_name(meta.kind));
            }
            Mutation::Truncate { frac } => {
                let keep = ((len as u64 - 1) * *frac as u64 / 65536) as usize;
                v.truncate(keep.min(len - 1));
                note = format!("truncate {}->{} of {}", len, v.len(), kind_name(meta.kind));
            }
            Mutation::Extend { n } => {
                for i in 0..(*n).max(1) {
                    v.push(i.wrapping_mul(37) ^ 0x5a);
                }
                note = format!("extend {}->{} of {}", len, v.len(), kind_name(meta.kind));
            }
            Mutation::TagOf(o) => {
                let s = self.pick_other(o, dir, meta)?;
                if s.bytes.len() < 16 || len < 16 {
                    return None;
                }
                let t = &s.bytes[s.bytes.len() - 16..];
                v[tag_start..].copy_from_slice(t);
                note = format!("tag_of {o:?} ({}) onto {}", kind_name(s.meta.kind), kind_name(meta.kind));
            }
            Mutation::Splice(o) => {
                let s = self.pick_other(o, dir, meta)?;
                // header (cleartext part) of this datagram, everything after it from the other
                let oh = s.meta.header_len.min(s.bytes.len());
                v.truncate(hdr_end);
                v.extend_from_slice(&s.bytes[oh..]);
                note = format!("splice header of {} + body of {o:?} ({})", kind_name(meta.kind), kind_name(s.meta.kind));
            }
            Mutation::CredsOf(o) => {
                let s = self.pick_other(o, dir, meta)?;
                if len < 17 || s.bytes.len() < 17 {
                    return None;
                }
                v[1..17].copy_from_slice(&s.bytes[1..17]);
                note = format!("creds_of {o:?} onto {}", kind_name(meta.kind));
            }
            Mutation::SecretControl { kind, with_queue_id, key } => {
                use s2n_quic_core::varint::VarInt;
                use s2n_quic_dc::{credentials::Id, packet::secret_control as sc, packet::WireVersion};
                if meta.kind > KIND_CONTROL {
                    return None;
                }
                let id = Id::from(meta.cred_id);
                // the queue id that routes to the *receiver* of this direction is the one the
                // opposite direction carries as its source queue id; use what is visible
                let q = if *with_queue_id { meta.queue_id.or(meta.source_queue_id).and_then(|q| VarInt::new(q).ok()) } else { None };
                let mut tag = [0u8; 16];
                tag[..8].copy_from_slice(&hashn(*key, &[1]).to_le_bytes());
                tag[8..].copy_from_slice(&hashn(*key, &[2]).to_le_bytes());
                let mut buf = [0u8; 64];
                let n = match kind {
                    0 => sc::UnknownPathSecret { credential_id: id, wire_version: WireVersion::ZERO, queue_id: q }
                        .encode(EncoderBuffer::new(&mut buf), &tag),
                    1 => {
                        let sealer = s2n_quic_dc::crypto::awslc::seal::control::Secret::new(&tag, aws_hmac());
                        sc::StaleKey {
                            credential_id: id,
                            wire_version: WireVersion::ZERO,
                            queue_id: q,
                            min_key_id: VarInt::new(meta.key_id + 1 + (hashn(*key, &[3]) % (1 << 40))).ok()?,
                        }
                        .encode(EncoderBuffer::new(&mut buf), &sealer)
                    }
                    _ => {
                        let sealer = s2n_quic_dc::crypto::awslc::seal::control::Secret::new(&tag, aws_hmac());
                        sc::ReplayDetected {
                            credential_id: id,
                            wire_version: WireVersion::ZERO,
                            queue_id: q,
                            rejected_key_id: VarInt::new(meta.key_id).ok()?,
                        }
                        .encode(EncoderBuffer::new(&mut buf), &sealer)
                    }
                };
                v = buf[..n].to_vec();
                note = format!("synth secret-control kind {kind} queue_id {:?} for creds of {}", q.map(|q| q.as_u64()), kind_name(meta.kind));
            }
        }
        let changed = v[..] != bytes[..];
        Some((Bytes::from(v), note, changed))
    }

    fn on_deliver(&mut self, rec: usize) -> bool {
        if self.closed {
            return false;
        }
        let t = now_ns();
        self.last_deliver_ns = t;
        if rec == usize::MAX {
            return true;
        }
        let (dir, ord, dst, label, kind, flow, equiv, known_id) = {
            let r = &mut self.log[rec];
            r.t_deliver_ns = t;
            (r.dir as usize, r.ord, r.dst, r.label, r.kind, r.flow, r.equiv, r.known_id)
        };
        if label == LABEL_FORGED {
            if kind <= KIND_CONTROL && !self.delivered_flows.contains(&(dir as u8, flow)) {
                self.log[rec].first_flight = true;
                self.stats.forged_first_flight += 1;
            }
        } else if kind <= KIND_CONTROL {
            self.delivered_flows.insert((dir as u8, flow));
        }
        self.last_rx_ns.insert(dst.ip(), t);
        if label == LABEL_GENUINE {
            if self.any_delivered[dir] && ord < self.max_delivered[dir] {
                self.stats.reordered += 1;
                let span = self.max_delivered[dir] - ord;
                if span > self.stats.max_reorder_span {
                    self.stats.max_reorder_span = span;
                }
            } else {
                self.max_delivered[dir] = ord;
                self.any_delivered[dir] = true;
            }
        }
        let is_sc = (KIND_STALE_KEY..=KIND_UPS).contains(&kind);
        if label == LABEL_FORGED {
            self.stats.forged_delivered += 1;
            let note = self.log[rec].note.clone().unwrap_or_default();
            *self.stats.forged_by_kind.entry(kind_name(kind).to_string()).or_insert(0) += 1;
            let mname = note.split_whitespace().next().unwrap_or("?").to_string();
            *self.stats.forged_by_mutation.entry(mname).or_insert(0) += 1;
            if is_sc {
                *self.stats.forged_secret_control.entry(kind_name(kind).to_string()).or_insert(0) += 1;
            }
            if equiv && known_id {
                self.stats.equiv_ups_delivered += 1;
            }
        } else if is_sc {
            *self.stats.genuine_secret_control.entry(kind_name(kind).to_string()).or_insert(0) += 1;
            if kind == KIND_UPS && known_id {
                self.stats.genuine_ups_known_id += 1;
            }
        }
        true
    }
}

/// true if `new` is a secret-control datagram whose authenticated part equals that of the genuine
/// `orig` (so accepting it is accepting the genuine packet)
fn secret_control_equivalent(orig: &[u8], meta: &Meta, new: &[u8], m: &Mutation) -> bool {
    if !(KIND_STALE_KEY..=KIND_UPS).contains(&meta.kind) {
        return false;
    }
    if matches!(m, Mutation::Extend { .. }) {
        return true;
    }
    if meta.kind != KIND_UPS || orig.len() < 34 || new.len() < 34 {
        return false;
    }
    // UnknownPathSecret: tag byte, id (16), wire version, [queue id], token (16)
    let hdr = |b: &[u8]| -> Option<usize> {
        if b[0] & !0x04 != 0x60 {
            return None;
        }
        let q = if b[0] & 0x04 != 0 { 1usize << (b.get(18)? >> 6) } else { 0 };
        Some(18 + q)
    };
    let (Some(ho), Some(hn)) = (hdr(orig), hdr(new)) else { return false };
    if orig.len() < ho + 16 || new.len() < hn + 16 {
        return false;
    }
    orig[1..17] == new[1..17] && orig[ho..ho + 16] == new[hn..hn + 16]
}

fn aws_hmac() -> &'static aws_lc_rs::hmac::Algorithm {
    &aws_lc_rs::hmac::HMAC_SHA256
}

pub struct SimLink {
    pub shared: Shared,
}

impl Allocator for SimLink {
    fn for_udp(
        &mut self,
        _group: &Group,
        addr: SocketAddr,
        dispatch: &Dispatch,
        _monitors: &Monitors,
        _pcaps: &mut pcap::Registry,
    ) -> PacketQueue {
        let (tx_sender, mut tx_receiver) = vec_deque::Queue::builder()
            .with_capacity(None)
            .with_overflow(vec_deque::Overflow::PreferOldest)
            .build::<Segments>()
            .mutex()
            .channel();
        let (rx_sender, rx_receiver) = vec_deque::Queue::builder()
            .with_capacity(Some(RX_QUEUE_PACKETS))
            .with_overflow(vec_deque::Overflow::PreferOldest)
            .build::<Packet>()
            .mutex()
            .channel();
        let _: &Sender<Segments> = &tx_sender;

        let shared = self.shared.clone();
        let dispatch = dispatch.clone();
        async move {
            while let Ok(segments) = tx_receiver.recv().await {
                for packet in segments {
                    let outs = shared.lock().unwrap().on_send(packet);
                    for o in outs {
                        let shared = shared.clone();
                        let dispatch = dispatch.clone();
                        async move {
                            if o.delay_us > 0 {
                                bach::time::sleep(Duration::from_micros(o.delay_us)).await;
                            }
                            let live = shared.lock().unwrap().on_deliver(o.rec);
                            if live {
                                dispatch.send(o.packet).await;
                            }
                        }
                        .spawn_named("pkt");
                    }
                }
            }
            let _ = tx_receiver.close();
        }
        .spawn_named(format_args!("udp://{addr}/link"));

        PacketQueue { local_sender: tx_sender, local_receiver: rx_receiver, remote_sender: rx_sender }
    }
}
