//! Batch driver shared by C16 and C19: seeded search over histories on 16 threads, panic
//! containment, ddmin minimisation, replay files, evidence.

use crate::common::*;
use serde_json::{json, Value};
use simkit::{CheckArgs, Violation};
use std::{
    cell::RefCell,
    collections::{BTreeMap, HashSet},
    panic::{catch_unwind, AssertUnwindSafe},
    sync::{
        atomic::{AtomicBool, AtomicU64, Ordering},
        Mutex,
    },
    time::{Duration, Instant},
};

pub struct CheckDef {
    pub property: &'static str,
    pub generate: fn(u64) -> History,
    pub execute: fn(&History, bool) -> Outcome,
    pub rule: &'static str,
    pub quick_runs: u64,
    pub real: &'static [&'static str],
    pub stub: &'static [&'static str],
    pub assumptions: &'static [&'static str],
    /// sample preference order (structure names)
    pub sample_order: &'static [&'static str],
}

pub static C16: CheckDef = CheckDef {
    property: "C16",
    generate: crate::c16::generate,
    execute: crate::c16::execute,
    rule: crate::c16::RULE,
    quick_runs: 250_000,
    real: &[
        "s2n_quic_core::buffer::Reassembler (write_at, write_at_fin, write_reader, pop, pop_watermarked, Storage::copy_into, skip, reset, iter and all size observers)",
        "s2n_quic_core::interval_set::IntervalSet<u8>/<u64>",
        "s2n_quic_core::ack::Ranges",
        "s2n_quic_core::packet::number::Map<u64>",
        "s2n_quic_core::packet::number::SlidingWindow",
    ],
    stub: &["the buffer::Reader handed to write_reader (chunked slice reader failing at a planned storage call = injected fault)"],
    assumptions: &[
        "release semantics (debug-assertions off, overflow-checks off) decide",
        "overlapping writes carry identical bytes for identical stream positions (QUIC requirement); content is a 64-bit position-keyed hash",
        "API preconditions are respected: packet::number::Map::insert only above the highest stored number, distances below 2^15; offsets are VarInts",
        "a reader failure after bytes were already copied into earlier slots leaves those bytes in the buffer (cursors are rolled back); C16 does not speak about reader failures, such histories continue with the weaker oracles only",
        "IntervalSet::remove refusing a split when the result would only reach (not exceed) the limit is tolerated (not part of C16)",
        "exhaustive enumeration of short sequences is bounded model checking and is not done",
    ],
    sample_order: &["reassembler", "iset_u64", "ack", "pnmap", "window", "iset_u8"],
};

pub static C19: CheckDef = CheckDef {
    property: "C19",
    generate: crate::c19::generate,
    execute: crate::c19::execute,
    rule: "one u64 seed -> one history of <= 200 steps of one of three kinds: recv (arrival sequence from a network model: sender emits k,k+1,.., the link loses ids, reorders within a span from {1,8,895,896,897,2000}, duplicates, replays old ids, jumps ahead by up to 2^40, stragglers placed exactly 894..898 below the highest delivered id, the reserved maximum id) into receiver::State::post_authentication; sender (next_key_id interleaved with StaleKey minima: old, current, +890..900, up to +2^40, replayed); loop (real sender -> reordering/duplicating/replaying link -> real receiver, every Unknown produces StaleKey{minimum_unseen_key_id} which is delivered late, out of order or repeatedly to the sender). DISTINCT = hash over the (operation, outcome) sequence. NON-TRIVIAL: recv = at least one id below the highest accepted one was accepted AND at least one arrival was refused; sender = at least one StaleKey raised the counter AND >= 2 ids issued; loop = both of the recv conditions AND a StaleKey that raised the counter.",
    quick_runs: 2_000_000,
    real: &[
        "s2n_quic_dc::path::secret::receiver::State (new, post_authentication, minimum_unseen_key_id) through the public API",
        "dc/s2n-quic-dc/src/path/secret/sender.rs State (next_key_id, update_for_stale_key): private module, unmodified source text compiled into the harness by include!",
    ],
    stub: &["network between sender and receiver (list-based link model)", "path::secret::map::SizeOf (size accounting trait needed to compile sender.rs stand-alone)", "secret_control StaleKey packet authentication (the minimum is handed to update_for_stale_key directly)"],
    assumptions: &[
        "sequential half only: one thread; concurrent callers are covered by a different engine",
        "StaleKey minima stay below 2^62-2^20: next_key_id panics by design at the end of the id space (sender.rs:41-52)",
        "an Ok for a never-seen id outside the 896 window is not required and not forbidden by C19; it is recorded, not flagged",
    ],
    sample_order: &["recv", "loop", "sender"],
};

// ---------------------------------------------------------------------------------------
// panic containment

thread_local! {
    static LAST_PANIC: RefCell<Option<String>> = const { RefCell::new(None) };
}

pub fn install_panic_hook() {
    std::panic::set_hook(Box::new(|info| {
        let msg = info
            .payload()
            .downcast_ref::<&str>()
            .map(|s| s.to_string())
            .or_else(|| info.payload().downcast_ref::<String>().cloned())
            .unwrap_or_else(|| "<non-string panic>".into());
        let loc = info.location().map(|l| format!("{}:{}", l.file(), l.line())).unwrap_or_default();
        LAST_PANIC.with(|p| *p.borrow_mut() = Some(format!("{msg} at {loc}")));
    }));
}

pub fn safe_exec(def: &CheckDef, h: &History, trace: bool) -> Outcome {
    match catch_unwind(AssertUnwindSafe(|| (def.execute)(h, trace))) {
        Ok(o) => o,
        Err(_) => {
            let msg = LAST_PANIC.with(|p| p.borrow_mut().take()).unwrap_or_default();
            let mut f = simkit::Fnv::default();
            for op in &h.ops {
                hash_op(&mut f, op);
            }
            // a panic inside the harness' own code is a harness error, not a finding
            let in_repo = !(msg.contains("/comp/src/") || msg.contains("comp-scratch/src/") || msg.contains("/simkit/src/"));
            Outcome {
                violation: Some(Violation {
                    property: def.property.into(),
                    oracle: format!("{}.{}", def.property, if in_repo { "panic" } else { "harness_panic" }),
                    detail: format!("{} history panicked: {msg}", h.structure),
                    sig: format!("{}:panic", h.structure),
                }),
                at: 0,
                hash: simkit::mix64(f.0),
                nontrivial: false,
                stats: Stats::default(),
                trace: vec![],
            }
        }
    }
}

// ---------------------------------------------------------------------------------------
// minimisation + replay files

fn oracle_of(def: &CheckDef, h: &History) -> Option<String> {
    safe_exec(def, h, false).violation.map(|v| v.oracle)
}

pub fn minimise(def: &CheckDef, h: &History, oracle: &str) -> History {
    let mut budget = 6000u32;
    let ops = simkit::ddmin(&h.ops, |ops| {
        if budget == 0 {
            return false;
        }
        budget -= 1;
        let cand = History { ops: ops.to_vec(), ..h.clone() };
        oracle_of(def, &cand).as_deref() == Some(oracle)
    });
    let cand = History { ops, ..h.clone() };
    if oracle_of(def, &cand).as_deref() == Some(oracle) {
        cand
    } else {
        h.clone()
    }
}

fn write_replay(def: &CheckDef, seed: u64, original: &History, v: &Violation) -> String {
    let min = minimise(def, original, &v.oracle);
    let o = safe_exec(def, &min, true);
    let mv = o.violation.clone().unwrap_or_else(|| v.clone());
    let name = format!("{seed}-{}", v.oracle.replace('.', "_"));
    let path_hint = format!("{}/replays/{}/{name}.json", simkit::VERIF_DIR, def.property);
    let doc = json!({
        "property": def.property,
        "seed": seed,
        "violation": mv,
        "violation_at_op": o.at,
        "history_hash": format!("{:016x}", o.hash),
        "history": min,
        "trace": o.trace,
        "original_ops": original.ops.len(),
        "original_history": original,
        "replay": format!("comp check {} --replay {path_hint}", def.property),
    });
    simkit::write_replay_doc(def.property, &name, &doc)
}

pub fn replay(def: &CheckDef, path: &str) -> i32 {
    let Ok(s) = std::fs::read_to_string(path) else {
        eprintln!("HARNESS-ERROR: cannot read {path}");
        return 2;
    };
    let doc: Value = match serde_json::from_str(&s) {
        Ok(d) => d,
        Err(e) => {
            eprintln!("HARNESS-ERROR: {path}: {e}");
            return 2;
        }
    };
    let h: History = match serde_json::from_value(doc["history"].clone()) {
        Ok(h) => h,
        Err(e) => {
            eprintln!("HARNESS-ERROR: {path}: history: {e}");
            return 2;
        }
    };
    if h.property != def.property {
        eprintln!("HARNESS-ERROR: {path} is a {} history, not {}", h.property, def.property);
        return 2;
    }
    let o = safe_exec(def, &h, true);
    println!("replay {path}: structure={} ops={} history_hash={:016x} (recorded {})", h.structure, h.ops.len(), o.hash, doc["history_hash"]);
    for (i, l) in o.trace.iter().enumerate() {
        println!("  #{i}: {l}");
    }
    match o.violation {
        None => {
            println!("replay: no violation");
            0
        }
        Some(v) => {
            if let Some(k) = simkit::is_known(&simkit::load_known(), &v) {
                println!("KNOWN-FINDING: property={} {}", v.property, k.text);
                return 0;
            }
            println!("violation: {} :: {}", v.oracle, v.detail);
            println!("VIOLATION property={} replay={path}", v.property);
            1
        }
    }
}

// ---------------------------------------------------------------------------------------
// batch

/// bound on the memory spent on counting distinct histories (global / per worker); beyond it the
/// counts are lower bounds and `distinct_count_saturated` is set
const DISTINCT_CAP: usize = 24_000_000;
const WORKER_CAP: usize = 2_000_000;

#[derive(Default)]
struct Agg {
    evaluations: u64,
    ops_total: u64,
    skipped_precondition: u64,
    structures: BTreeMap<String, u64>,
    nontrivial_by_structure: BTreeMap<String, u64>,
    ops: BTreeMap<&'static str, u64>,
    faults: BTreeMap<&'static str, u64>,
    probes: BTreeMap<&'static str, u64>,
    probe_histories: BTreeMap<&'static str, u64>,
    all: HashSet<u64>,
    nontrivial: HashSet<u64>,
    saturated: bool,
    violations: Vec<(u64, u64, Violation)>,
    /// structure -> (distance of length from 24, index, seed)
    cands: BTreeMap<String, (u64, u64, u64)>,
}

impl Agg {
    fn add(&mut self, idx: u64, h: &History, o: Outcome) {
        self.evaluations += 1;
        self.ops_total += h.ops.len() as u64;
        self.skipped_precondition += o.stats.skipped_precondition;
        *self.structures.entry(h.structure.clone()).or_insert(0) += 1;
        for (k, n) in &o.stats.ops {
            *self.ops.entry(k).or_insert(0) += n;
        }
        for (k, n) in &o.stats.faults {
            *self.faults.entry(k).or_insert(0) += n;
        }
        for (k, n) in &o.stats.probes {
            *self.probes.entry(k).or_insert(0) += n;
            *self.probe_histories.entry(k).or_insert(0) += 1;
        }
        if self.all.len() < WORKER_CAP {
            self.all.insert(o.hash);
        } else {
            self.saturated = true;
        }
        if o.nontrivial && o.violation.is_none() {
            *self.nontrivial_by_structure.entry(h.structure.clone()).or_insert(0) += 1;
            if self.nontrivial.len() < WORKER_CAP {
                self.nontrivial.insert(o.hash);
            } else {
                self.saturated = true;
            }
            if idx < 8192 {
                let key = ((h.ops.len() as i64 - 24).unsigned_abs(), idx, h.seed);
                match self.cands.get(&h.structure) {
                    Some(old) if *old <= key => {}
                    _ => {
                        self.cands.insert(h.structure.clone(), key);
                    }
                }
            }
        }
        if let Some(v) = o.violation {
            if self.violations.len() < 64 {
                self.violations.push((idx, h.seed, v));
            }
        }
    }

    fn merge(&mut self, o: Agg) {
        self.evaluations += o.evaluations;
        self.ops_total += o.ops_total;
        self.skipped_precondition += o.skipped_precondition;
        for (k, n) in o.structures {
            *self.structures.entry(k).or_insert(0) += n;
        }
        for (k, n) in o.nontrivial_by_structure {
            *self.nontrivial_by_structure.entry(k).or_insert(0) += n;
        }
        for (k, n) in o.ops {
            *self.ops.entry(k).or_insert(0) += n;
        }
        for (k, n) in o.faults {
            *self.faults.entry(k).or_insert(0) += n;
        }
        for (k, n) in o.probes {
            *self.probes.entry(k).or_insert(0) += n;
        }
        for (k, n) in o.probe_histories {
            *self.probe_histories.entry(k).or_insert(0) += n;
        }
        self.saturated |= o.saturated;
        for h in o.all {
            if self.all.len() < DISTINCT_CAP {
                self.all.insert(h);
            } else {
                self.saturated = true;
            }
        }
        for h in o.nontrivial {
            if self.nontrivial.len() < DISTINCT_CAP {
                self.nontrivial.insert(h);
            } else {
                self.saturated = true;
            }
        }
        self.violations.extend(o.violations);
        for (k, v) in o.cands {
            match self.cands.get(&k) {
                Some(old) if *old <= v => {}
                _ => {
                    self.cands.insert(k, v);
                }
            }
        }
    }
}

pub fn run(a: &CheckArgs, def: &CheckDef) -> i32 {
    if let Some(p) = &a.replay {
        return replay(def, p);
    }
    let t0 = Instant::now();
    let thorough = a.thorough();
    let budget = a.budget(55);
    let max_runs = a.runs.unwrap_or(if thorough { u64::MAX } else { def.quick_runs });
    let threads = a.threads.clamp(1, 64);

    // determinism self-check: same seed twice -> same (operation, outcome) hash
    let det_n = 64u64.min(max_runs);
    for i in 0..det_n {
        let seed = a.seed.wrapping_add(i);
        let h1 = (def.generate)(seed);
        let h2 = (def.generate)(seed);
        if h1 != h2 || safe_exec(def, &h1, false).hash != safe_exec(def, &h2, false).hash {
            eprintln!("HARNESS-ERROR: history for seed {seed} is not reproducible");
            return 2;
        }
    }

    let next = AtomicU64::new(0);
    let stop = AtomicBool::new(false);
    let truncated = AtomicBool::new(false);
    let total = Mutex::new(Agg::default());
    let started: Mutex<BTreeMap<usize, (u64, Instant)>> = Mutex::new(BTreeMap::new());
    let done_workers = AtomicU64::new(0);

    std::thread::scope(|s| {
        for w in 0..threads {
            let (next, stop, total, started, done_workers) = (&next, &stop, &total, &started, &done_workers);
            s.spawn(move || {
                let mut agg = Agg::default();
                'outer: loop {
                    if stop.load(Ordering::Relaxed) {
                        break;
                    }
                    let base = next.fetch_add(32, Ordering::Relaxed);
                    if base >= max_runs {
                        break;
                    }
                    started.lock().unwrap().insert(w, (base, Instant::now()));
                    for idx in base..(base + 32).min(max_runs) {
                        if stop.load(Ordering::Relaxed) {
                            // the claimed block is abandoned: the run is no longer a fixed set
                            break 'outer;
                        }
                        let seed = a.seed.wrapping_add(idx);
                        let h = (def.generate)(seed);
                        let o = safe_exec(def, &h, false);
                        agg.add(idx, &h, o);
                    }
                    started.lock().unwrap().remove(&w);
                }
                started.lock().unwrap().remove(&w);
                total.lock().unwrap().merge(agg);
                done_workers.fetch_add(1, Ordering::Relaxed);
            });
        }
        // budget + watchdog
        let (stop, truncated, started, done_workers, next) = (&stop, &truncated, &started, &done_workers, &next);
        s.spawn(move || loop {
            std::thread::sleep(Duration::from_millis(50));
            if done_workers.load(Ordering::Relaxed) as usize >= threads {
                break;
            }
            if t0.elapsed() > budget && !stop.load(Ordering::Relaxed) {
                stop.store(true, Ordering::Relaxed);
                if next.load(Ordering::Relaxed) < max_runs {
                    truncated.store(true, Ordering::Relaxed);
                }
            }
            for (_, (base, t)) in started.lock().unwrap().iter() {
                if t.elapsed() > Duration::from_secs(180) {
                    eprintln!("HARNESS-ERROR: histories {base}.. exceeded the wall-clock watchdog (180 s)");
                    std::process::exit(2);
                }
            }
        });
    });

    let mut g = std::mem::take(&mut *total.lock().unwrap());
    let truncated = truncated.load(Ordering::Relaxed);
    g.violations.sort_by(|x, y| x.0.cmp(&y.0));

    // harness panics are harness errors
    if let Some((_, seed, v)) = g.violations.iter().find(|(_, _, v)| v.oracle.ends_with("harness_panic")) {
        eprintln!("HARNESS-ERROR: seed {seed}: {}", v.detail);
        return 2;
    }

    // samples: one traced history per structure, preference order of the check
    let mut samples: Vec<Value> = vec![];
    for st in def.sample_order {
        if samples.len() >= 5 {
            break;
        }
        if let Some(&(_, idx, seed)) = g.cands.get(*st) {
            let h = (def.generate)(seed);
            let o = safe_exec(def, &h, true);
            samples.push(json!({
                "seed": seed,
                "index": idx,
                "structure": h.structure,
                "param": h.param,
                "ops": h.ops.len(),
                "nontrivial": o.nontrivial,
                "history_hash": format!("{:016x}", o.hash),
                "history": o.trace,
            }));
        }
    }
    if samples.is_empty() && max_runs > 0 {
        let h = (def.generate)(a.seed);
        let o = safe_exec(def, &h, true);
        samples.push(json!({"seed": a.seed, "index": 0, "structure": h.structure, "param": h.param, "ops": h.ops.len(), "nontrivial": o.nontrivial, "history": o.trace}));
    }

    let viol: Vec<(u64, Violation)> = g.violations.iter().map(|(_, s, v)| (*s, v.clone())).collect();
    let mut replay_paths: Vec<String> = vec![];
    let (exit, new_violations, known_seen) = simkit::triage(def.property, &viol, |seed, v| {
        let original = (def.generate)(seed);
        let p = write_replay(def, seed, &original, v);
        replay_paths.push(p.clone());
        p
    });

    let wall = t0.elapsed().as_secs_f64();
    let probes_at_zero: Vec<&str> = expected_probes(def.property).iter().copied().filter(|p| !g.probes.contains_key(p) && !g.faults.contains_key(p)).collect();
    let coverage = json!({
        "evaluations": g.evaluations,
        "distinct_nontrivial": g.nontrivial.len(),
        "distinct_histories": g.all.len(),
        "distinct_count_saturated": g.saturated,
        "rule": def.rule,
        "samples": samples,
        "runs_per_s": (g.evaluations as f64 / wall.max(1e-9)).round(),
        "histories_per_hour": (g.evaluations as f64 / wall.max(1e-9) * 3600.0).round(),
        "operations_executed": g.ops_total - g.skipped_precondition,
        "operations_skipped_precondition": g.skipped_precondition,
        "histories_per_structure": g.structures,
        "nontrivial_histories_per_structure": g.nontrivial_by_structure,
        "operation_counts": g.ops,
        "faults_injected": g.faults,
        "reach_probes": g.probes,
        "reach_probe_histories": g.probe_histories,
        "reach_probes_at_zero": probes_at_zero,
        "components": {"real": def.real, "stub": def.stub},
        "determinism_selfcheck": {"seeds": det_n, "rerun_equal": det_n},
        "threads": threads,
        "truncated_by_budget": truncated,
        "known_findings_seen": known_seen,
        "replays_written": replay_paths,
    });
    simkit::write_evidence(a, "exploration", coverage, def.assumptions, wall, new_violations);
    println!(
        "{} {}: {} histories ({} distinct, {} distinct non-trivial), {} operations, {:.1} s, {:.0} histories/s, violations {}{}",
        def.property,
        if thorough { "thorough" } else { "quick" },
        g.evaluations,
        g.all.len(),
        g.nontrivial.len(),
        g.ops_total - g.skipped_precondition,
        wall,
        g.evaluations as f64 / wall.max(1e-9),
        new_violations,
        if truncated { " [stopped by budget]" } else { "" }
    );
    if !probes_at_zero.is_empty() {
        eprintln!("note: reach probes at zero in this batch: {probes_at_zero:?}");
    }
    exit
}

fn expected_probes(property: &str) -> &'static [&'static str] {
    match property {
        "C16" => &[
            "write_straddled_4096_slot_boundary",
            "write_straddled_alloc_region_boundary",
            "write_overlaps_buffered",
            "write_duplicate_of_buffered",
            "write_below_cursor",
            "write_fills_gap",
            "write_rejected_by_final_size",
            "write_rejected_out_of_range",
            "write_near_varint_max",
            "skip_rejected",
            "final_size_established",
            "reading_complete_reached",
            "reader_err_before_any_byte",
            "reader_err_after_partial_copy",
            "iset_insert_merged_intervals",
            "iset_remove_split_interval",
            "iset_limit_rejected_insert",
            "ack_range_evicted_lowest",
            "ack_insert_below_lowest_rejected",
            "pnmap_ring_resized",
            "pnmap_remove_range_middle",
            "window_jump_gt_128",
            "window_distance_128_last_in_window",
            "window_distance_129_first_too_old",
            "window_evicted_nonempty",
        ],
        _ => &[
            "recv_arrival_at_distance_895",
            "recv_arrival_at_distance_896",
            "recv_arrival_at_distance_897",
            "recv_window_cleared_by_jump",
            "recv_jump_ge_2_pow_32",
            "recv_reserved_max_id_arrived",
            "recv_reordered_id_accepted",
            "recv_duplicate_rejected_already_exists",
            "recv_replay_beyond_window_unknown",
            "send_stale_key_raised_counter",
            "send_stale_key_old_value_no_effect",
            "stale_key_delivered_out_of_order_or_replayed",
        ],
    }
}
