#!/bin/bash
# Points the E4 engine (shadow manifest of s2n-quic-core, Miri runners) at an s2n-quic checkout.
#   ./set-repo.sh /tmp/wt-threads     # worktree that carries hook.patch (development)
#   ./set-repo.sh /repo               # after the hook has been committed to /repo
# All manifests use the relative path `repo/...`; only this symlink and repo_path change.
set -eu
D=/verif/sim/threads
T="${1:?usage: set-repo.sh <path to s2n-quic checkout>}"
[ -d "$T/quic/s2n-quic-core" ] || { echo "$T is not an s2n-quic checkout" >&2; exit 2; }
ln -sfn "$T" "$D/repo"
echo "$T" > "$D/repo_path"
if grep -q aws_s2n_quic_verif "$T/quic/s2n-quic-core/src/sync/primitive.rs"; then
  echo "repo -> $T (hook present)"
else
  echo "repo -> $T (hook NOT present: apply with  git -C $T apply $D/hook.patch )"
fi
