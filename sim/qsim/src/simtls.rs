//! sim-TLS: a deterministic stand-in for the TLS 1.3 handshake.
//!
//! STUB: the TLS handshake itself (messages are TLS-handshake-framed blobs carrying the
//! transport parameters, a configurable-size "certificate" and a Finished marker).
//! REAL: every key handed to the transport is a real `s2n_quic_crypto` key (Initial,
//! Handshake, 1-RTT, header protection, key update derivation).  1-RTT keys are wrapped in
//! `SimKey`, which delegates to the real key, tags itself with its generation, can report
//! reduced AEAD limits and logs every use.

use crate::{
    kernel::hashn,
    plan::{Role, TpRule},
    wire,
};
use bytes::Bytes;
use core::task::Poll;
use s2n_quic_core::{
    application::ServerName,
    crypto::{self, scatter, tls, CryptoSuite},
    transport,
};
use s2n_quic_crypto::{aws_lc_aead, handshake, hkdf, initial, one_rtt, retry, zero_rtt, SecretPair};
use std::sync::{Arc, Mutex};

pub const MSG_CLIENT_HELLO: u8 = 1;
pub const MSG_SERVER_HELLO: u8 = 2;
pub const MSG_ENCRYPTED_EXTENSIONS: u8 = 8;
pub const MSG_CERTIFICATE: u8 = 11;
pub const MSG_FINISHED: u8 = 20;

#[derive(Default, Debug)]
pub struct KeyUse {
    /// (generation, packet number) of every encryption, in call order
    pub enc: Vec<(u32, u64)>,
    /// per generation number of successful / failed decryptions
    pub dec_ok: Vec<u64>,
    pub dec_fail: Vec<u64>,
    /// highest generation derived
    pub max_gen: u32,
}

#[derive(Default, Debug)]
pub struct TlsLog {
    /// (role, session nonce) -> key use
    pub keys: std::collections::BTreeMap<(Role, u64), KeyUse>,
    /// transport parameter blocks: (sender role, nonce, bytes as put on the wire)
    pub tp_sent: Vec<(Role, u64, Vec<u8>)>,
    /// blocks as received by the peer of `role`
    pub tp_received: Vec<(Role, u64, Vec<u8>)>,
    pub handshakes_completed: Vec<(Role, u64)>,
}

pub type SharedTlsLog = Arc<Mutex<TlsLog>>;

#[derive(Clone, Debug)]
pub struct TlsCfg {
    pub role: Role,
    /// endpoint index (0 = server, 1+i = client i): session nonces are ep*1000 + k
    pub ep: u32,
    pub seed: u64,
    pub cipher: u8,
    pub cert_size: u32,
    pub tp_rule: Option<TpRule>,
    pub key_update_t: Option<u64>,
    pub integrity_limit: Option<u64>,
}

pub struct Endpoint {
    cfg: TlsCfg,
    log: SharedTlsLog,
    next_nonce: u64,
}

impl Endpoint {
    pub fn new(cfg: TlsCfg, log: SharedTlsLog) -> Self {
        let next_nonce = cfg.ep as u64 * 1000 + 1;
        Endpoint { cfg, log, next_nonce }
    }
}

pub struct Provider(pub Endpoint);

impl s2n_quic::provider::tls::Provider for Provider {
    type Server = Endpoint;
    type Client = Endpoint;
    type Error = String;
    fn start_server(self) -> Result<Self::Server, Self::Error> {
        Ok(self.0)
    }
    fn start_client(self) -> Result<Self::Client, Self::Error> {
        Ok(self.0)
    }
}

fn algorithm(cipher: u8) -> (&'static aws_lc_aead::Algorithm, hkdf::Algorithm, usize) {
    match cipher {
        1 => (&aws_lc_aead::AES_256_GCM, hkdf::HKDF_SHA384, 48),
        2 => (&aws_lc_aead::CHACHA20_POLY1305, hkdf::HKDF_SHA256, 32),
        _ => (&aws_lc_aead::AES_128_GCM, hkdf::HKDF_SHA256, 32),
    }
}

fn secret(seed: u64, nonce: u64, label: u64, cipher: u8) -> hkdf::Prk {
    let (_, alg, len) = algorithm(cipher);
    let mut bytes = [0u8; 48];
    for (i, c) in bytes.chunks_mut(8).enumerate() {
        c.copy_from_slice(&hashn(seed, &[nonce, label, i as u64]).to_le_bytes());
    }
    hkdf::Prk::new_less_safe(alg, &bytes[..len])
}

fn secrets(seed: u64, nonce: u64, level: u64, cipher: u8) -> SecretPair {
    SecretPair {
        server: secret(seed, nonce, level * 2, cipher),
        client: secret(seed, nonce, level * 2 + 1, cipher),
    }
}

pub fn apply_tp_rule(block: &[u8], rule: &TpRule) -> Vec<u8> {
    let Ok((mut entries, _)) = wire::parse_tp_block(block) else {
        return block.to_vec();
    };
    fn enc_int(v: u64) -> Vec<u8> {
        let mut o = vec![];
        wire::put_varint(&mut o, v);
        o
    }
    match rule {
        TpRule::Set { id, value } => {
            if let Some(e) = entries.iter_mut().find(|e| e.id == *id) {
                e.value = enc_int(*value);
            } else {
                entries.push(wire::TpEntry { id: *id, value: enc_int(*value) });
            }
        }
        TpRule::Raw { id, bytes } => entries.push(wire::TpEntry { id: *id, value: bytes.clone() }),
        TpRule::Duplicate { id } => {
            if let Some(e) = entries.iter().find(|e| e.id == *id).cloned() {
                entries.push(e);
            }
        }
        TpRule::Remove { id } => entries.retain(|e| e.id != *id),
        TpRule::SetBytes { id, bytes } => {
            if let Some(e) = entries.iter_mut().find(|e| e.id == *id) {
                e.value = bytes.clone();
            } else {
                entries.push(wire::TpEntry { id: *id, value: bytes.clone() });
            }
        }
        TpRule::Truncate { by } => {
            let mut b = block.to_vec();
            let n = b.len().saturating_sub(*by as usize);
            b.truncate(n);
            return b;
        }
        TpRule::Reverse => entries.reverse(),
        TpRule::Multi(rules) => {
            let mut b = block.to_vec();
            for r in rules {
                b = apply_tp_rule(&b, r);
            }
            return b;
        }
    }
    wire::encode_tp_block(&entries)
}

fn msg(ty: u8, body: &[u8]) -> Vec<u8> {
    let mut o = Vec::with_capacity(4 + body.len());
    o.push(ty);
    let l = body.len() as u32;
    o.extend_from_slice(&l.to_be_bytes()[1..]);
    o.extend_from_slice(body);
    o
}

#[derive(Default, Debug)]
struct Reader {
    buf: Vec<u8>,
}
impl Reader {
    fn push(&mut self, b: &[u8]) {
        self.buf.extend_from_slice(b);
    }
    /// pop one complete message if present
    fn pop(&mut self) -> Option<(u8, Vec<u8>)> {
        if self.buf.len() < 4 {
            return None;
        }
        let len = u32::from_be_bytes([0, self.buf[1], self.buf[2], self.buf[3]]) as usize;
        if self.buf.len() < 4 + len {
            return None;
        }
        let ty = self.buf[0];
        let body = self.buf[4..4 + len].to_vec();
        self.buf.drain(..4 + len);
        Some((ty, body))
    }
}

impl tls::Endpoint for Endpoint {
    type Session = Session;

    fn new_server_session<Params: s2n_codec::EncoderValue>(
        &mut self,
        transport_parameters: &Params,
        _connection_info: tls::ConnectionInfo,
    ) -> Self::Session {
        let mut params = transport_parameters.encode_to_vec();
        if let Some(rule) = &self.cfg.tp_rule {
            params = apply_tp_rule(&params, rule);
        }
        Session {
            cfg: self.cfg.clone(),
            log: self.log.clone(),
            params,
            nonce: 0,
            state: State::ServerInit,
            initial_rx: Reader::default(),
            handshake_rx: Reader::default(),
            peer_params: None,
            got: 0,
        }
    }

    fn new_client_session<Params: s2n_codec::EncoderValue>(
        &mut self,
        transport_parameters: &Params,
        _server_name: ServerName,
    ) -> Self::Session {
        let mut params = transport_parameters.encode_to_vec();
        if let Some(rule) = &self.cfg.tp_rule {
            params = apply_tp_rule(&params, rule);
        }
        let nonce = self.next_nonce;
        self.next_nonce += 1;
        Session {
            cfg: self.cfg.clone(),
            log: self.log.clone(),
            params,
            nonce,
            state: State::ClientInit,
            initial_rx: Reader::default(),
            handshake_rx: Reader::default(),
            peer_params: None,
            got: 0,
        }
    }

    fn max_tag_length(&self) -> usize {
        16
    }
}

#[derive(Debug, Clone, Copy, PartialEq, Eq)]
enum State {
    ClientInit,
    ClientWaitServerHello,
    ClientWaitHandshake,
    ServerInit,
    ServerWaitFinished,
    Complete,
}

pub struct Session {
    cfg: TlsCfg,
    log: SharedTlsLog,
    params: Vec<u8>,
    nonce: u64,
    state: State,
    initial_rx: Reader,
    handshake_rx: Reader,
    peer_params: Option<Vec<u8>>,
    got: u8,
}

impl core::fmt::Debug for Session {
    fn fmt(&self, f: &mut core::fmt::Formatter<'_>) -> core::fmt::Result {
        f.debug_struct("simtls::Session").field("state", &self.state).field("nonce", &self.nonce).finish()
    }
}

impl CryptoSuite for Session {
    type HandshakeKey = handshake::HandshakeKey;
    type HandshakeHeaderKey = handshake::HandshakeHeaderKey;
    type InitialKey = initial::InitialKey;
    type InitialHeaderKey = initial::InitialHeaderKey;
    type OneRttKey = SimKey;
    type OneRttHeaderKey = one_rtt::OneRttHeaderKey;
    type ZeroRttKey = zero_rtt::ZeroRttKey;
    type ZeroRttHeaderKey = zero_rtt::ZeroRttHeaderKey;
    type RetryKey = retry::RetryKey;
}

fn tls_err(reason: &'static str) -> transport::Error {
    // TLS alert decode_error (50) mapped to a CRYPTO_ERROR
    tls::Error::DECODE_ERROR.with_reason(reason).into()
}

impl Session {
    fn one_rtt(&self) -> Result<(SimKey, one_rtt::OneRttHeaderKey), transport::Error> {
        let (alg, _, _) = algorithm(self.cfg.cipher);
        let s = secrets(self.cfg.seed, self.nonce, 2, self.cfg.cipher);
        let (key, hk) = match self.cfg.role {
            Role::Server => one_rtt::OneRttKey::new_server(alg, s),
            Role::Client => one_rtt::OneRttKey::new_client(alg, s),
        }
        .ok_or_else(|| tls_err("cipher"))?;
        Ok((
            SimKey {
                inner: key,
                gen: 0,
                role: self.cfg.role,
                sess: self.nonce,
                conf: self.cfg.key_update_t.map(|t| 10_000 + t),
                integ: self.cfg.integrity_limit,
                log: self.log.clone(),
            },
            hk,
        ))
    }

    fn handshake_keys(
        &self,
    ) -> Result<(handshake::HandshakeKey, handshake::HandshakeHeaderKey), transport::Error> {
        let (alg, _, _) = algorithm(self.cfg.cipher);
        let s = secrets(self.cfg.seed, self.nonce, 1, self.cfg.cipher);
        match self.cfg.role {
            Role::Server => handshake::HandshakeKey::new_server(alg, s),
            Role::Client => handshake::HandshakeKey::new_client(alg, s),
        }
        .ok_or_else(|| tls_err("cipher"))
    }

    fn poll_impl<C: tls::Context<Self>>(
        &mut self,
        cx: &mut C,
    ) -> Poll<Result<(), transport::Error>> {
        loop {
            match self.state {
                State::ClientInit => {
                    let mut body = Vec::new();
                    body.extend_from_slice(&self.nonce.to_be_bytes());
                    body.push(self.cfg.cipher);
                    body.extend_from_slice(&(self.params.len() as u16).to_be_bytes());
                    body.extend_from_slice(&self.params);
                    // pad like a realistic ClientHello
                    while body.len() < 250 {
                        body.push(0);
                    }
                    self.log.lock().unwrap().tp_sent.push((
                        Role::Client,
                        self.nonce,
                        self.params.clone(),
                    ));
                    cx.send_initial(Bytes::from(msg(MSG_CLIENT_HELLO, &body)));
                    cx.on_server_name(ServerName::from_static("localhost"))?;
                    self.state = State::ClientWaitServerHello;
                }
                State::ClientWaitServerHello => {
                    while let Some(b) = cx.receive_initial(None) {
                        self.initial_rx.push(&b);
                    }
                    let Some((ty, body)) = self.initial_rx.pop() else {
                        return Poll::Pending;
                    };
                    if ty != MSG_SERVER_HELLO || body.len() != 1 || body[0] != self.cfg.cipher {
                        return Poll::Ready(Err(tls_err("bad server hello")));
                    }
                    let (k, hk) = self.handshake_keys()?;
                    cx.on_handshake_keys(k, hk)?;
                    self.state = State::ClientWaitHandshake;
                }
                State::ClientWaitHandshake => {
                    while let Some(b) = cx.receive_handshake(None) {
                        self.handshake_rx.push(&b);
                    }
                    while let Some((ty, body)) = self.handshake_rx.pop() {
                        match ty {
                            MSG_ENCRYPTED_EXTENSIONS => {
                                if body.len() < 2 {
                                    return Poll::Ready(Err(tls_err("bad ee")));
                                }
                                let l = u16::from_be_bytes([body[0], body[1]]) as usize;
                                if body.len() != 2 + l {
                                    return Poll::Ready(Err(tls_err("bad ee len")));
                                }
                                self.peer_params = Some(body[2..].to_vec());
                                self.got |= 1;
                            }
                            MSG_CERTIFICATE => self.got |= 2,
                            MSG_FINISHED => self.got |= 4,
                            _ => return Poll::Ready(Err(tls_err("unexpected handshake message"))),
                        }
                    }
                    if self.got != 7 {
                        return Poll::Pending;
                    }
                    let params = self.peer_params.take().unwrap();
                    self.log.lock().unwrap().tp_received.push((
                        Role::Client,
                        self.nonce,
                        params.clone(),
                    ));
                    cx.send_handshake(Bytes::from(msg(MSG_FINISHED, &[0x5a; 32])));
                    cx.on_application_protocol(Bytes::from_static(b"sim"))?;
                    cx.on_key_exchange_group(tls::NamedGroup {
                        group_name: "sim_group",
                        contains_kem: false,
                    })?;
                    let (k, hk) = self.one_rtt()?;
                    cx.on_one_rtt_keys(
                        k,
                        hk,
                        tls::ApplicationParameters { transport_parameters: &params },
                    )?;
                    cx.on_handshake_complete()?;
                    self.log.lock().unwrap().handshakes_completed.push((Role::Client, self.nonce));
                    self.state = State::Complete;
                    return Poll::Ready(Ok(()));
                }
                State::ServerInit => {
                    while let Some(b) = cx.receive_initial(None) {
                        self.initial_rx.push(&b);
                    }
                    let Some((ty, body)) = self.initial_rx.pop() else {
                        return Poll::Pending;
                    };
                    if ty != MSG_CLIENT_HELLO || body.len() < 11 {
                        return Poll::Ready(Err(tls_err("bad client hello")));
                    }
                    let mut n = [0u8; 8];
                    n.copy_from_slice(&body[..8]);
                    self.nonce = u64::from_be_bytes(n);
                    if body[8] != self.cfg.cipher {
                        return Poll::Ready(Err(tls::Error::HANDSHAKE_FAILURE
                            .with_reason("no shared cipher")
                            .into()));
                    }
                    let l = u16::from_be_bytes([body[9], body[10]]) as usize;
                    if body.len() < 11 + l {
                        return Poll::Ready(Err(tls_err("bad client hello len")));
                    }
                    let client_params = body[11..11 + l].to_vec();
                    {
                        let mut log = self.log.lock().unwrap();
                        log.tp_received.push((Role::Server, self.nonce, client_params.clone()));
                        log.tp_sent.push((Role::Server, self.nonce, self.params.clone()));
                    }
                    cx.send_initial(Bytes::from(msg(MSG_SERVER_HELLO, &[self.cfg.cipher])));
                    let (k, hk) = self.handshake_keys()?;
                    cx.on_handshake_keys(k, hk)?;

                    let mut ee = Vec::new();
                    ee.extend_from_slice(&(self.params.len() as u16).to_be_bytes());
                    ee.extend_from_slice(&self.params);
                    let mut flight = msg(MSG_ENCRYPTED_EXTENSIONS, &ee);
                    let mut cert = vec![0u8; self.cfg.cert_size as usize];
                    for (i, c) in cert.chunks_mut(8).enumerate() {
                        let w = hashn(self.cfg.seed ^ 0xce47, &[i as u64]).to_le_bytes();
                        c.copy_from_slice(&w[..c.len()]);
                    }
                    flight.extend_from_slice(&msg(MSG_CERTIFICATE, &cert));
                    flight.extend_from_slice(&msg(MSG_FINISHED, &[0xa5; 32]));
                    cx.send_handshake(Bytes::from(flight));

                    cx.on_application_protocol(Bytes::from_static(b"sim"))?;
                    cx.on_key_exchange_group(tls::NamedGroup {
                        group_name: "sim_group",
                        contains_kem: false,
                    })?;
                    let (k, hk) = self.one_rtt()?;
                    cx.on_one_rtt_keys(
                        k,
                        hk,
                        tls::ApplicationParameters { transport_parameters: &client_params },
                    )?;
                    cx.on_server_name(ServerName::from_static("localhost"))?;
                    self.state = State::ServerWaitFinished;
                }
                State::ServerWaitFinished => {
                    while let Some(b) = cx.receive_handshake(None) {
                        self.handshake_rx.push(&b);
                    }
                    let Some((ty, _)) = self.handshake_rx.pop() else {
                        return Poll::Pending;
                    };
                    if ty != MSG_FINISHED {
                        return Poll::Ready(Err(tls_err("expected finished")));
                    }
                    cx.on_handshake_complete()?;
                    self.log.lock().unwrap().handshakes_completed.push((Role::Server, self.nonce));
                    self.state = State::Complete;
                    return Poll::Ready(Ok(()));
                }
                State::Complete => return Poll::Ready(Ok(())),
            }
        }
    }
}

impl tls::Session for Session {
    fn poll<C: tls::Context<Self>>(&mut self, cx: &mut C) -> Poll<Result<(), transport::Error>> {
        self.poll_impl(cx)
    }
}

/// 1-RTT key wrapper: real key inside, generation tag, optional reduced limits, use log.
pub struct SimKey {
    inner: one_rtt::OneRttKey,
    pub gen: u32,
    role: Role,
    sess: u64,
    conf: Option<u64>,
    integ: Option<u64>,
    log: SharedTlsLog,
}

impl core::fmt::Debug for SimKey {
    fn fmt(&self, f: &mut core::fmt::Formatter<'_>) -> core::fmt::Result {
        write!(f, "SimKey(gen={})", self.gen)
    }
}

impl crypto::Key for SimKey {
    #[inline]
    fn decrypt(
        &self,
        packet_number: u64,
        header: &[u8],
        payload: &mut [u8],
    ) -> Result<(), crypto::packet_protection::Error> {
        let r = self.inner.decrypt(packet_number, header, payload);
        let mut log = self.log.lock().unwrap();
        let e = log.keys.entry((self.role, self.sess)).or_default();
        let g = self.gen as usize;
        if e.dec_ok.len() <= g {
            e.dec_ok.resize(g + 1, 0);
            e.dec_fail.resize(g + 1, 0);
        }
        if r.is_ok() {
            e.dec_ok[g] += 1;
        } else {
            e.dec_fail[g] += 1;
        }
        r
    }

    #[inline]
    fn encrypt(
        &mut self,
        packet_number: u64,
        header: &[u8],
        payload: &mut scatter::Buffer,
    ) -> Result<(), crypto::packet_protection::Error> {
        let r = self.inner.encrypt(packet_number, header, payload);
        if r.is_ok() {
            let mut log = self.log.lock().unwrap();
            let e = log.keys.entry((self.role, self.sess)).or_default();
            e.enc.push((self.gen, packet_number));
        }
        r
    }

    #[inline]
    fn tag_len(&self) -> usize {
        self.inner.tag_len()
    }

    #[inline]
    fn aead_confidentiality_limit(&self) -> u64 {
        self.conf.unwrap_or_else(|| self.inner.aead_confidentiality_limit())
    }

    #[inline]
    fn aead_integrity_limit(&self) -> u64 {
        self.integ.unwrap_or_else(|| self.inner.aead_integrity_limit())
    }

    #[inline]
    fn cipher_suite(&self) -> tls::CipherSuite {
        self.inner.cipher_suite()
    }
}

impl crypto::OneRttKey for SimKey {
    fn derive_next_key(&self) -> Self {
        let gen = self.gen + 1;
        {
            let mut log = self.log.lock().unwrap();
            let e = log.keys.entry((self.role, self.sess)).or_default();
            e.max_gen = e.max_gen.max(gen);
        }
        SimKey {
            inner: crypto::OneRttKey::derive_next_key(&self.inner),
            gen,
            role: self.role,
            sess: self.sess,
            conf: self.conf,
            integ: self.integ,
            log: self.log.clone(),
        }
    }
}
