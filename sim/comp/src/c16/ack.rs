//! C16: `s2n_quic_core::ack::Ranges` (capacity-bounded ACK range set) against a
//! `BTreeSet<u64>` of packet numbers.
//!
//! Reference behaviour (ack/ranges.rs:35-83): an insert that cannot be merged while the set is
//! at capacity drops the *lowest* range (`LowestRangeDropped{min,max}` = exactly that range) and
//! then holds the new range, unless the new range lies below the lowest range, in which case the
//! set is unchanged (`RangeInsertionFailed`).  Nothing but the lowest range is ever discarded.

use crate::common::*;
use s2n_quic_core::{
    ack::{ranges::Error as AckError, Ranges},
    frame::ack::AckRanges as _,
    interval_set::IntervalSetError,
    packet::number::{PacketNumber, PacketNumberRange, PacketNumberSpace},
    varint::VarInt,
};
use simkit::Rng;
use std::collections::BTreeSet;

fn pn(v: u64) -> PacketNumber {
    PacketNumberSpace::ApplicationData.new_packet_number(VarInt::new(v).unwrap())
}

struct Exec<'r> {
    real: Ranges,
    m: BTreeSet<u64>,
    cap: usize,
    rec: &'r mut Rec,
    evictions: u64,
    merges: u64,
    rejected: u64,
}

impl Exec<'_> {
    fn compare(&mut self, kind: &str) {
        if self.rec.failed() {
            return;
        }
        let got: Vec<(u64, u64)> = self.real.inclusive_ranges().map(|r| (r.start().as_u64(), r.end().as_u64())).collect();
        let want = runs(&self.m);
        self.rec.out(0xac4, got.len() as u64, self.m.len() as u64);
        if got != want {
            return self.rec.fail("C16.ack.elements", kind, format!("ranges hold {got:?}, reference {want:?} (capacity {})", self.cap));
        }
        if got.len() > self.cap {
            return self.rec.fail("C16.ack.capacity", kind, format!("{} ranges held, capacity {}", got.len(), self.cap));
        }
        // the view used to build ACK frames: descending, same ranges
        let mut frame: Vec<(u64, u64)> = (&self.real).ack_ranges().map(|r| (r.start().as_u64(), r.end().as_u64())).collect();
        frame.reverse();
        if frame != want {
            return self.rec.fail("C16.ack.ack_ranges_view", kind, format!("ack_ranges() (reversed) = {frame:?}, reference {want:?}"));
        }
        let spread = match (self.m.iter().next(), self.m.iter().next_back()) {
            (Some(a), Some(b)) => (b - a) as usize,
            _ => 0,
        };
        if self.real.spread() != spread {
            return self.rec.fail("C16.ack.spread", kind, format!("spread()={} reference {spread}", self.real.spread()));
        }
        for &(a, b) in &want {
            for v in [a.wrapping_sub(1), a, b, b + 1] {
                if v <= VARINT_MAX && self.real.contains(&pn(v)) != self.m.contains(&v) {
                    return self.rec.fail("C16.ack.contains", kind, format!("contains({v}) wrong for {want:?}"));
                }
            }
        }
    }

    fn insert(&mut self, lo: u64, hi: u64, single: bool) {
        let r = if single { self.real.insert_packet_number(pn(lo)) } else { self.real.insert_packet_number_range(PacketNumberRange::new(pn(lo), pn(hi))) };
        let before = runs(&self.m);
        let mut after = self.m.clone();
        for v in lo..=hi {
            after.insert(v);
        }
        let after_runs = runs(&after).len();
        let want: Result<(), AckError> = if after_runs <= before.len() || before.len() < self.cap {
            self.m = after;
            if after_runs <= before.len() && !before.is_empty() {
                self.merges += 1;
                self.rec.stats.probe("ack_insert_merged");
            }
            Ok(())
        } else {
            // at capacity and a new range is needed
            let (mn, mx) = before[0];
            if mx < lo {
                for v in mn..=mx {
                    after.remove(&v);
                }
                self.m = after;
                self.evictions += 1;
                self.rec.stats.probe("ack_range_evicted_lowest");
                Err(AckError::LowestRangeDropped { min: pn(mn), max: pn(mx) })
            } else {
                self.rejected += 1;
                self.rec.stats.probe("ack_insert_below_lowest_rejected");
                Err(AckError::RangeInsertionFailed { min: pn(lo), max: pn(hi) })
            }
        };
        self.rec.out(0xac5, r.is_ok() as u64, want.is_ok() as u64);
        self.rec.note(|| format!("{r:?}"));
        if r != want {
            self.rec.fail("C16.ack.insert_result", "insert", format!("insert [{lo}, {hi}] returned {r:?}, reference {want:?} (capacity {}, before {before:?})", self.cap));
        }
    }

    fn step(&mut self, op: &Op) {
        match *op {
            Op::AckPn { pn: v } if v <= VARINT_MAX => {
                self.rec.stats.op("ack.insert_packet_number");
                self.insert(v, v, true);
            }
            Op::AckRange { lo, hi } if lo <= hi && hi <= VARINT_MAX && hi - lo <= 1024 => {
                self.rec.stats.op("ack.insert_packet_number_range");
                self.insert(lo, hi, false);
            }
            Op::Rem { lo, hi } if lo <= hi && hi <= VARINT_MAX && hi - lo <= 4096 => {
                self.rec.stats.op("ack.remove");
                let r = self.real.remove(pn(lo)..=pn(hi));
                let before_runs = runs(&self.m).len();
                let mut after = self.m.clone();
                let doomed: Vec<u64> = after.range(lo..=hi).copied().collect();
                for v in doomed {
                    after.remove(&v);
                }
                let after_runs = runs(&after).len();
                let split = after_runs > before_runs;
                self.rec.out(0xac6, r.is_ok() as u64, split as u64);
                self.rec.note(|| format!("{r:?}"));
                // same tolerant rule as for IntervalSet::remove (see iset.rs)
                let err_legal = split && after_runs >= self.cap;
                let ok_legal = !(split && after_runs > self.cap);
                match r {
                    Ok(()) if ok_legal => {
                        if split {
                            self.rec.stats.probe("ack_remove_split_range");
                        }
                        self.m = after;
                    }
                    Err(IntervalSetError::LimitExceeded) if err_legal => {
                        self.rejected += 1;
                        self.rec.stats.probe("ack_remove_refused_at_capacity");
                    }
                    _ => self.rec.fail("C16.ack.remove_result", "remove", format!("remove [{lo}, {hi}] returned {r:?} ({before_runs} -> {after_runs} ranges, capacity {})", self.cap)),
                }
            }
            Op::PopMin => {
                self.rec.stats.op("ack.pop_min");
                let r = self.real.pop_min().map(|i| (i.start_inclusive().as_u64(), i.end_inclusive().as_u64()));
                let want = runs(&self.m).first().copied();
                self.rec.out(0xac7, r.map_or(u64::MAX, |x| x.0), r.map_or(u64::MAX, |x| x.1));
                if r != want {
                    return self.rec.fail("C16.ack.pop_min", "pop_min", format!("pop_min()={r:?}, lowest reference range {want:?}"));
                }
                if let Some((a, b)) = want {
                    for v in a..=b {
                        self.m.remove(&v);
                    }
                }
            }
            Op::Clear => {
                self.rec.stats.op("ack.clear");
                self.real.clear();
                self.m.clear();
            }
            _ => self.rec.stats.skipped_precondition += 1,
        }
    }
}

pub fn execute(h: &History, trace: bool) -> Outcome {
    let mut rec = Rec::new("C16", "ack", trace);
    let nontrivial;
    {
        let cap = h.param.clamp(1, 64) as usize;
        let mut e = Exec { real: Ranges::new(cap), m: BTreeSet::new(), cap, rec: &mut rec, evictions: 0, merges: 0, rejected: 0 };
        for (i, op) in h.ops.iter().enumerate() {
            e.rec.begin(i, op);
            e.step(op);
            e.compare("after op");
            if e.rec.failed() {
                break;
            }
        }
        nontrivial = e.evictions >= 1 && e.merges >= 1;
    }
    rec.finish(nontrivial)
}

pub fn generate(seed: u64) -> History {
    let mut rng = Rng::new(seed ^ 0xac4_ac4);
    let n = rng.range(1, 200) as usize;
    let cap = rng.pick(&[1u64, 2, 3, 4, 5, 8, 10]);
    // receive process: packet numbers mostly ascending with gaps (loss), stragglers (reordering),
    // duplicates; ranges are removed from below when "acked"
    let base = rng.pick(&[0u64, 0, 1, 1000, (1 << 32) - 50, VARINT_MAX - 3000]);
    let mut next = base;
    let mut ops = Vec::with_capacity(n);
    let mut seen: Vec<u64> = vec![];
    while ops.len() < n {
        let op = match rng.below(100) {
            0..=54 => {
                // next packet, possibly after a gap
                if rng.chance(35, 100) {
                    next = next.saturating_add(rng.range(1, 4));
                }
                let v = next.min(VARINT_MAX);
                next = next.saturating_add(1);
                seen.push(v);
                Op::AckPn { pn: v }
            }
            55..=69 => {
                // straggler / duplicate: something at or below the current head
                let back = rng.range(0, 40);
                let v = next.saturating_sub(back).min(VARINT_MAX);
                Op::AckPn { pn: v }
            }
            70..=79 => {
                let lo = next.saturating_sub(rng.range(0, 30)).min(VARINT_MAX);
                let hi = lo.saturating_add(rng.range(0, 12)).min(VARINT_MAX);
                next = next.max(hi.saturating_add(1));
                Op::AckRange { lo, hi }
            }
            80..=84 => Op::AckPn { pn: rng.range(base.saturating_sub(5), base.saturating_add(10)).min(VARINT_MAX) },
            85..=93 => {
                // peer acknowledged our ACK up to some packet: drop everything up to it
                let up_to = next.saturating_sub(rng.range(1, 60)).min(VARINT_MAX);
                if rng.chance(2, 3) {
                    Op::Rem { lo: up_to.saturating_sub(rng.range(0, 200)), hi: up_to }
                } else {
                    let lo = up_to.saturating_sub(rng.range(0, 6));
                    Op::Rem { lo, hi: up_to }
                }
            }
            94..=96 => Op::PopMin,
            97 => Op::Clear,
            _ => Op::AckPn { pn: if seen.is_empty() { next.min(VARINT_MAX) } else { seen[rng.below(seen.len() as u64) as usize] } },
        };
        ops.push(op);
    }
    History { property: "C16".into(), structure: "ack".into(), seed, param: cap, ops }
}
