//! Guarded global allocator: every allocation of at least `MIN` bytes gets `PAD` bytes of
//! canary-filled slack behind it.  A write past the end of a Rust heap buffer (the dc crate writes
//! packets through raw pointers with `assume!`-only bounds in release builds) then lands in the
//! slack instead of in allocator metadata: the process survives, the run stays deterministic and
//! the overrun is reported by an oracle when the buffer is freed, with its size and extent.
//! C allocations (aws-lc) do not pass through here.

use std::{
    alloc::{GlobalAlloc, Layout, System},
    cell::Cell,
};

const MIN: usize = 1024;
const PAD: usize = 64;
const CANARY: u8 = 0xa5;

thread_local! {
    static OVERRUNS: Cell<u64> = const { Cell::new(0) };
    static LAST_SIZE: Cell<usize> = const { Cell::new(0) };
    static LAST_EXTENT: Cell<usize> = const { Cell::new(0) };
}

pub struct Guarded;

#[inline]
fn padded(layout: Layout) -> Option<Layout> {
    if layout.size() >= MIN {
        Layout::from_size_align(layout.size() + PAD, layout.align()).ok()
    } else {
        None
    }
}

unsafe fn check(ptr: *mut u8, size: usize) {
    let tail = std::slice::from_raw_parts(ptr.add(size), PAD);
    if let Some(last) = tail.iter().rposition(|b| *b != CANARY) {
        // thread-locals without destructors: safe to touch from the allocator
        let _ = OVERRUNS.try_with(|c| c.set(c.get() + 1));
        let _ = LAST_SIZE.try_with(|c| c.set(size));
        let _ = LAST_EXTENT.try_with(|c| c.set(last + 1));
    }
}

unsafe impl GlobalAlloc for Guarded {
    #[inline]
    unsafe fn alloc(&self, layout: Layout) -> *mut u8 {
        match padded(layout) {
            None => System.alloc(layout),
            Some(l2) => {
                let p = System.alloc(l2);
                if !p.is_null() {
                    std::ptr::write_bytes(p.add(layout.size()), CANARY, PAD);
                }
                p
            }
        }
    }

    #[inline]
    unsafe fn alloc_zeroed(&self, layout: Layout) -> *mut u8 {
        match padded(layout) {
            None => System.alloc_zeroed(layout),
            Some(l2) => {
                let p = System.alloc_zeroed(l2);
                if !p.is_null() {
                    std::ptr::write_bytes(p.add(layout.size()), CANARY, PAD);
                }
                p
            }
        }
    }

    #[inline]
    unsafe fn dealloc(&self, ptr: *mut u8, layout: Layout) {
        match padded(layout) {
            None => System.dealloc(ptr, layout),
            Some(l2) => {
                check(ptr, layout.size());
                System.dealloc(ptr, l2)
            }
        }
    }

    #[inline]
    unsafe fn realloc(&self, ptr: *mut u8, layout: Layout, new_size: usize) -> *mut u8 {
        let new_layout = Layout::from_size_align_unchecked(new_size, layout.align());
        match (padded(layout), padded(new_layout)) {
            (None, None) => System.realloc(ptr, layout, new_size),
            (Some(l2), Some(n2)) => {
                check(ptr, layout.size());
                let p = System.realloc(ptr, l2, n2.size());
                if !p.is_null() {
                    std::ptr::write_bytes(p.add(new_size), CANARY, PAD);
                }
                p
            }
            _ => {
                let p = self.alloc(new_layout);
                if !p.is_null() {
                    std::ptr::copy_nonoverlapping(ptr, p, layout.size().min(new_size));
                    self.dealloc(ptr, layout);
                }
                p
            }
        }
    }
}

/// (number of overrun buffers freed on this thread since the last call, size of the last one,
/// bytes written past its end)
pub fn take() -> (u64, usize, usize) {
    let n = OVERRUNS.with(|c| c.replace(0));
    (n, LAST_SIZE.with(|c| c.get()), LAST_EXTENT.with(|c| c.get()))
}
