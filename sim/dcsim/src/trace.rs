//! Observation of `path::secret::Map` events inside the simulation.  The maps built by
//! `stream::testing::{Client, Server}` publish to `event::tracing::Subscriber` (not replaceable
//! from outside), which emits one `tracing` event per map event with the event name as target.
//! A thread-local `tracing` subscriber counts the ones that matter here.

use std::{cell::RefCell, collections::BTreeMap};
use tracing::{span, subscriber::Interest, Event, Metadata};

thread_local! {
    static COUNTS: RefCell<BTreeMap<&'static str, u64>> = RefCell::new(BTreeMap::new());
}

const TARGETS: &[&str] = &[
    "unknown_path_secret_packet_received",
    "unknown_path_secret_packet_accepted",
    "unknown_path_secret_packet_rejected",
    "unknown_path_secret_packet_dropped",
    "stale_key_packet_received",
    "stale_key_packet_accepted",
    "stale_key_packet_rejected",
    "stale_key_packet_dropped",
    "replay_detected_packet_received",
    "replay_detected_packet_accepted",
    "replay_detected_packet_rejected",
    "replay_detected_packet_dropped",
    "replay_definitely_detected",
    "replay_potentially_detected",
    "path_secret_map_background_handshake_requested",
    "path_secret_map_id_entry_evicted",
    "path_secret_map_address_entry_evicted",
    "path_secret_map_entry_inserted",
    "path_secret_map_entry_replaced",
    "key_accepted",
];

fn interesting(t: &str) -> Option<&'static str> {
    TARGETS.iter().find(|x| **x == t).copied()
}

pub struct Capture;

impl tracing::Subscriber for Capture {
    fn register_callsite(&self, meta: &'static Metadata<'static>) -> Interest {
        if interesting(meta.target()).is_some() {
            Interest::always()
        } else {
            Interest::never()
        }
    }
    fn enabled(&self, meta: &Metadata<'_>) -> bool {
        interesting(meta.target()).is_some()
    }
    fn new_span(&self, _span: &span::Attributes<'_>) -> span::Id {
        span::Id::from_u64(1)
    }
    fn record(&self, _span: &span::Id, _values: &span::Record<'_>) {}
    fn record_follows_from(&self, _span: &span::Id, _follows: &span::Id) {}
    fn event(&self, event: &Event<'_>) {
        if let Some(t) = interesting(event.metadata().target()) {
            COUNTS.with(|c| *c.borrow_mut().entry(t).or_insert(0) += 1);
        }
    }
    fn enter(&self, _span: &span::Id) {}
    fn exit(&self, _span: &span::Id) {}
}

/// installs the capture subscriber as this thread's default for the lifetime of the guard
pub fn install() -> tracing::subscriber::DefaultGuard {
    tracing::subscriber::set_default(Capture)
}

pub fn reset() {
    COUNTS.with(|c| c.borrow_mut().clear());
}

pub fn take() -> BTreeMap<String, u64> {
    COUNTS.with(|c| std::mem::take(&mut *c.borrow_mut())).into_iter().map(|(k, v)| (k.to_string(), v)).collect()
}
