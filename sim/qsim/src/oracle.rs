//! Oracles: functions over the recorded history of one run.

use crate::{
    kernel::{Fnv, Violation},
    obs::{CloseKind, Ev, PktRec, Space},
    plan::*,
    run::{ErrClass, RecvOutcome, RunOutput, SendOutcome, StreamKey},
    wire::{self, Frame, PeerParams},
};
use std::collections::{BTreeMap, BTreeSet};

/// one side of one connection
#[derive(Clone, Copy, Debug, PartialEq, Eq, Hash, PartialOrd, Ord)]
pub struct Side {
    pub ep: u32,
    pub conn: u64,
}

pub struct View<'a> {
    pub out: &'a RunOutput,
    /// server-internal connection id for each client index
    pub server_conn: Vec<Option<u64>>,
    pub tx_frames: Vec<Result<Vec<Frame>, wire::ParseError>>,
    pub rx_frames: Vec<Result<Vec<Frame>, wire::ParseError>>,
    /// transport parameters as received by the client (i.e. the server's), per client idx
    pub tp_at_client: Vec<Option<Result<PeerParams, String>>>,
    /// transport parameters as received by the server (i.e. the client's), per client idx
    pub tp_at_server: Vec<Option<Result<PeerParams, String>>>,
}

pub fn nonce_of_client(idx: u32) -> u64 {
    (1 + idx as u64) * 1000 + 1
}

impl<'a> View<'a> {
    pub fn new(out: &'a RunOutput) -> Self {
        let n = out.plan.conns.len();
        let mut server_conn: Vec<Option<u64>> = vec![None; n];
        // handshake matching through Initial payload hashes
        let mut h2ep: BTreeMap<u64, u32> = BTreeMap::new();
        // only payloads carrying the (unique) ClientHello identify a client: ACK-only Initial
        // packets of different clients can be byte-identical
        let has_hello = |p: &PktRec| {
            wire::parse_frames(&p.payload)
                .map(|(f, _)| f.iter().any(|f| matches!(f, Frame::Crypto { len, .. } if *len >= 100)))
                .unwrap_or(false)
        };
        for t in out.obs.tx.iter().filter(|t| t.ep >= 1 && t.space == Space::Initial) {
            if has_hello(t) {
                h2ep.insert(t.hash, t.ep);
            }
        }
        for r in out.obs.rx.iter().filter(|r| r.ep == 0 && r.space == Space::Initial) {
            if let Some(ep) = h2ep.get(&r.hash) {
                let idx = (*ep - 1) as usize;
                if idx < n && server_conn[idx].is_none() {
                    server_conn[idx] = Some(r.conn);
                }
            }
        }
        for ((idx, role), c) in &out.app.conns {
            if *role == Role::Server {
                if let Some(id) = c.internal_id {
                    if server_conn[*idx as usize].is_none() {
                        server_conn[*idx as usize] = Some(id);
                    }
                }
            }
        }
        let tx_frames = out.obs.tx.iter().map(|p| wire::parse_frames(&p.payload).map(|x| x.0)).collect();
        // (lenient: a byzantine frame with an impossible offset must not hide the honest frames
        // that share its packet)
        let rx_frames = out.obs.rx.iter().map(|p| wire::parse_frames_opts(&p.payload, false).map(|x| x.0)).collect();
        let mut tp_at_client = vec![None; n];
        let mut tp_at_server = vec![None; n];
        for (role, nonce, bytes) in &out.tls.tp_received {
            let idx = (nonce / 1000).wrapping_sub(1) as usize;
            if idx >= n {
                continue;
            }
            let parsed = wire::parse_tp_block(bytes).map_err(|e| e.0).and_then(|(e, _)| {
                wire::tp_verdict(&e, *role == Role::Server)
            });
            match role {
                Role::Client => tp_at_client[idx] = Some(parsed),
                Role::Server => tp_at_server[idx] = Some(parsed),
            }
        }
        View { out, server_conn, tx_frames, rx_frames, tp_at_client, tp_at_server }
    }

    pub fn side(&self, idx: u32, role: Role) -> Option<Side> {
        match role {
            Role::Client => {
                // a client endpoint hosts exactly one connection
                let ep = 1 + idx;
                let conn = self
                    .out
                    .obs
                    .tx
                    .iter()
                    .find(|t| t.ep == ep)
                    .map(|t| t.conn)
                    .or_else(|| self.out.obs.evs.iter().find(|e| e.ep == ep).map(|e| e.conn))?;
                Some(Side { ep, conn })
            }
            Role::Server => self.server_conn[idx as usize].map(|conn| Side { ep: 0, conn }),
        }
    }

    /// peer transport parameters as received by `role` of connection idx
    pub fn peer_tp(&self, idx: u32, role: Role) -> Option<&PeerParams> {
        let v = match role {
            Role::Client => &self.tp_at_client,
            Role::Server => &self.tp_at_server,
        };
        v.get(idx as usize)?.as_ref()?.as_ref().ok()
    }

    pub fn closed_event(&self, side: Side) -> Option<(u64, CloseKind, Option<u64>, &str)> {
        self.out.obs.evs.iter().find_map(|e| {
            if e.ep == side.ep && e.conn == side.conn {
                if let Ev::Closed { kind, code, error } = &e.ev {
                    return Some((e.t_ns, *kind, *code, error.as_str()));
                }
            }
            None
        })
    }
}

fn viol(prop: &str, oracle: &str, sig: String, detail: String) -> Violation {
    Violation { property: prop.into(), oracle: oracle.into(), detail, sig }
}

// ---------------------------------------------------------------------------------------
// run statistics / reach probes

#[derive(Clone, Debug, Default)]
pub struct RunStats {
    pub sig: u64,
    pub sim_time_ns: u64,
    pub faults_fired: u64,
    pub progress: bool,
    pub probes: BTreeMap<&'static str, u64>,
    pub faults: BTreeMap<&'static str, u64>,
    pub frame_types: BTreeSet<&'static str>,
    pub varint_widths: [u64; 4],
}

pub fn stats(v: &View) -> RunStats {
    let out = v.out;
    let mut s = RunStats { sim_time_ns: out.end_ns, ..Default::default() };
    let mut f = Fnv::default();
    // interleaving signature: order of observable events by global sequence
    let mut evs: Vec<(u64, u32, u8)> = Vec::with_capacity(out.obs.tx.len() + out.obs.rx.len());
    for t in &out.obs.tx {
        evs.push((t.seq, t.ep, 0 + 2 * t.space as u8));
    }
    for r in &out.obs.rx {
        evs.push((r.seq, r.ep, 1 + 2 * r.space as u8));
    }
    evs.sort();
    for (_, ep, k) in &evs {
        f.write(&[*ep as u8, *k]);
    }
    for r in &out.net.log {
        f.write(&[r.deliveries.len() as u8, r.drop_reason.map_or(0, |x| x.len() as u8)]);
    }
    s.sig = f.0;
    for (k, n) in &out.net.fired {
        *s.faults.entry(k).or_insert(0) += n;
        s.faults_fired += n;
    }
    let p = &mut s.probes;
    let mut bump = |k: &'static str| *p.entry(k).or_insert(0) += 1;
    if out.plan.property == "C05" {
        for t in &out.obs.tx {
            if let Ok((_, st)) = wire::parse_frames(&t.payload) {
                for k in 0..4 {
                    s.varint_widths[k] += st.widths[k] as u64;
                }
            }
        }
    }
    for (i, fr) in v.tx_frames.iter().enumerate() {
        let Ok(frames) = fr else { continue };
        let _ = i;
        for fr in frames {
            s.frame_types.insert(fr.type_name());
            match fr {
                Frame::StreamDataBlocked { .. } => bump("stream_data_blocked_sent"),
                Frame::DataBlocked { .. } => bump("data_blocked_sent"),
                Frame::StreamsBlocked { .. } => bump("streams_blocked_sent"),
                Frame::ResetStream { .. } => bump("reset_stream_sent"),
                Frame::StopSending { .. } => bump("stop_sending_sent"),
                Frame::NewConnectionId { .. } => bump("new_connection_id_sent"),
                Frame::RetireConnectionId { .. } => bump("retire_connection_id_sent"),
                Frame::PathChallenge { .. } => bump("path_challenge_sent"),
                Frame::ConnectionClose { .. } => bump("connection_close_sent"),
                Frame::MaxStreams { .. } => bump("max_streams_sent"),
                Frame::MaxData { .. } => bump("max_data_sent"),
                Frame::MaxStreamData { .. } => bump("max_stream_data_sent"),
                Frame::Ack { ranges, ecn, .. } => {
                    if ranges.len() > 1 {
                        bump("ack_with_gaps_sent");
                    }
                    if ecn.is_some() {
                        bump("ack_ecn_sent");
                    }
                }
                _ => {}
            }
        }
    }
    for e in &out.obs.evs {
        match &e.ev {
            Ev::Metrics { pto_count, .. } if *pto_count >= 3 => bump("pto_count_ge3"),
            Ev::Metrics { limited: true, .. } => bump("congestion_limited"),
            Ev::KeySpaceDiscarded { .. } => bump("key_space_discarded"),
            Ev::RetryReceived => bump("retry_received"),
            Ev::KeyUpdate { .. } => bump("key_update"),
            Ev::PacketLost { .. } => bump("packet_lost"),
            Ev::Duplicate { .. } => bump("duplicate_packet"),
            Ev::Congestion { .. } => bump("congestion_event"),
            Ev::PacketDropped { .. } => bump("packet_dropped"),
            Ev::MtuUpdated { .. } => bump("mtu_updated"),
            Ev::ActivePathUpdated => bump("active_path_updated"),
            Ev::Closed { kind, .. } => match kind {
                CloseKind::IdleTimerExpired => bump("closed_idle"),
                CloseKind::Transport => bump("closed_transport"),
                CloseKind::StatelessReset => bump("closed_stateless_reset"),
                CloseKind::Application => bump("closed_application"),
                _ => bump("closed_other"),
            },
            _ => {}
        }
    }
    // progress: some stream bytes were read after the first fault fired
    let first_fault = out
        .net
        .log
        .iter()
        .find(|r| r.drop_reason.is_some() || r.deliveries.len() > 1)
        .map(|r| r.t_send_ns);
    let last_read = out.app.recvs.values().map(|r| r.t_end_ns).max().unwrap_or(0);
    s.progress = match first_fault {
        Some(t) => last_read > t && out.app.recvs.values().any(|r| r.read > 0),
        None => false,
    };
    for r in out.app.recvs.values() {
        if matches!(r.outcome, RecvOutcome::Eof) {
            bump("stream_eof");
        }
    }
    if !out.app.capped_tasks.is_empty() {
        bump("harness_budget_or_hang_at_cap");
    }
    s
}

// ---------------------------------------------------------------------------------------
// C01

pub fn c01(v: &View) -> Vec<Violation> {
    let mut out = vec![];
    // a panic on the data path (in the library or while the harness looks at what a read
    // returned) ends delivery for good
    if let Some(p) = &v.out.panic {
        if !(p.contains("Runtime stalled") || p.contains("runtime stalled")) {
            let first = p.lines().next().unwrap_or("").to_string();
            out.push(viol("C01", "c01.panic", format!("panic:{}", first.chars().take(80).collect::<String>()), format!("simulation ended by panic: {}", p.chars().take(1500).collect::<String>())));
        }
    }
    let app = &v.out.app;
    for (key, r) in &app.recvs {
        if let Some((off, what)) = &r.mismatch {
            out.push(viol(
                "C01",
                "c01.content",
                format!("content"),
                format!("stream {key:?}: byte at stream offset {off} differs from what the sender wrote: {what}"),
            ));
        }
        let Some(snd) = app.sends.get(key) else {
            if r.read > 0 {
                out.push(viol(
                    "C01",
                    "c01.phantom",
                    "phantom".into(),
                    format!("stream {key:?}: {} bytes read but the peer never sent on it", r.read),
                ));
            }
            continue;
        };
        if r.read > snd.written + snd.inflight_chunk {
            out.push(viol(
                "C01",
                "c01.prefix",
                "prefix".into(),
                format!(
                    "stream {key:?}: read {} bytes but only {} (+{} in flight) were written",
                    r.read, snd.written, snd.inflight_chunk
                ),
            ));
        }
        if r.outcome == RecvOutcome::Eof {
            if !snd.fin_requested {
                out.push(viol(
                    "C01",
                    "c01.eof_without_fin",
                    "eof_without_fin".into(),
                    format!("stream {key:?}: clean end of stream observed but the sender never finished (sender outcome {:?})", snd.outcome),
                ));
            } else if r.read != snd.written {
                out.push(viol(
                    "C01",
                    "c01.eof_short",
                    "eof_short".into(),
                    format!(
                        "stream {key:?}: clean end of stream after {} bytes, sender wrote {} before finishing",
                        r.read, snd.written
                    ),
                ));
            }
        }
    }
    out
}

// ---------------------------------------------------------------------------------------
// C02

/// what "complete" means for one stream direction given its scripts
fn stream_complete(key: &StreamKey, v: &View) -> Result<bool, String> {
    let app = &v.out.app;
    let plan = &v.out.plan.conns[key.conn as usize];
    // locate the script
    let _ = plan;
    let snd = app.sends.get(key);
    let rcv = app.recvs.get(key);
    match (snd, rcv) {
        // a stream reset before the peer ever saw it need not be accepted by the peer
        (Some(s), None)
            if matches!(s.outcome, SendOutcome::ResetByUs)
                || matches!(&s.outcome, SendOutcome::Error(ErrClass::StreamReset(_), _)) =>
        {
            Ok(true)
        }
        (Some(s), Some(r)) => {
            let sender_ok = matches!(
                s.outcome,
                SendOutcome::Finished | SendOutcome::Closed | SendOutcome::Dropped | SendOutcome::ResetByUs
            ) || matches!(&s.outcome, SendOutcome::Error(ErrClass::StreamReset(_), _));
            let recv_ok = match &r.outcome {
                RecvOutcome::Eof => r.read == s.written,
                RecvOutcome::StoppedByUs => true,
                RecvOutcome::Error(ErrClass::StreamReset(_), _) => {
                    matches!(s.outcome, SendOutcome::ResetByUs)
                        || matches!(&s.outcome, SendOutcome::Error(ErrClass::StreamReset(_), _))
                }
                _ => false,
            };
            Ok(sender_ok && recv_ok)
        }
        _ => Ok(false),
    }
}

/// Latest instant at which the endpoint's own idle timer can legitimately still be armed:
/// it is (re)armed when a packet is processed and at the first ack-eliciting transmission after
/// that, for max(negotiated idle timeout, 3 x PTO) with the PTO (including backoff and the
/// peer's max_ack_delay) of that moment. None when the side is closed / unknown / has no timeout.
pub fn idle_deadline_ns(v: &View, idx: u32, role: Role) -> Option<u64> {
    let o = v.out;
    let side = v.side(idx, role)?;
    // (a close at the cap itself is the harness tearing the run down)
    let cap_ns = o.plan.time_cap_us.saturating_mul(1000);
    if v.closed_event(side).map_or(false, |c| c.0 + 1_000_000 < cap_ns) {
        return None;
    }
    let own = match role {
        Role::Client => o.plan.cfg.client.limits.idle_timeout_ms,
        Role::Server => o.plan.cfg.server.limits.idle_timeout_ms,
    };
    let peer = v.peer_tp(idx, role).map(|p| p.max_idle_timeout_ms).unwrap_or(0);
    let idle_ms = match (own, peer) {
        (0, 0) => return Some(u64::MAX / 4), // no idle timeout negotiated at all
        (0, x) | (x, 0) => x,
        (a, b) => a.min(b),
    };
    // (ordered by the global sequence number, not by time: several packets are processed and
    // sent within one instant)
    let last = o.obs.rx.iter().filter(|r| r.ep == side.ep && r.conn == side.conn).max_by_key(|r| r.seq)?;
    let (last_rx, last_seq) = (last.t_ns, last.seq);
    // first ack-eliciting transmission after the last processed packet
    let first_tx_after_seq = o
        .obs
        .tx
        .iter()
        .enumerate()
        .filter(|(_, t)| t.ep == side.ep && t.conn == side.conn && t.seq > last_seq)
        .filter(|(i, _)| v.tx_frames[*i].as_ref().map_or(true, |f| f.iter().any(|f| !matches!(f, Frame::Ack { .. } | Frame::Padding { .. } | Frame::ConnectionClose { .. }))))
        .map(|(_, t)| t.seq)
        .min()
        .unwrap_or(last_seq);
    let mut deadline = last_rx + idle_ms * 1_000_000;
    // the metrics event that follows the transmission belongs to it as well
    let mut after = 0;
    for e in o.obs.evs.iter().filter(|e| e.ep == side.ep && e.conn == side.conn && e.seq >= last_seq) {
        if e.seq > first_tx_after_seq {
            after += 1;
            if after > 3 {
                break;
            }
        }
        if let Ev::Metrics { smoothed_us, var_us, max_ack_delay_us, pto_count, .. } = &e.ev {
            let base = smoothed_us + (4 * var_us).max(1000) + max_ack_delay_us;
            let pto_us = base.saturating_mul(1u64 << (*pto_count).min(40));
            let d = e.t_ns + (idle_ms * 1_000_000).max(3 * pto_us.saturating_mul(1000));
            deadline = deadline.max(d);
        }
    }
    Some(deadline)
}

pub fn c02(v: &View) -> Vec<Violation> {
    let mut out = vec![];
    let o = v.out;
    let fam = o.plan.family.as_str();
    // 1. nothing may still be pending at the cap: the cap is far beyond every legitimate bound
    // a run that was still making application progress shortly before the cap merely exceeded
    // the harness budget (slow workload): that is not a hang
    let cap_ns = o.plan.time_cap_us.saturating_mul(1000);
    let still_progressing = cap_ns.saturating_sub(o.app.last_progress_ns) < 200_000_000_000;
    // a parked task whose connection still has its idle timer legitimately armed beyond the cap
    // will be released by that timer: s2n-quic's effective idle timeout is max(negotiated,
    // 3 x current PTO) where the current PTO includes the exponential backoff, so after a long
    // blackhole during the handshake the deadline can lie hours ahead
    let all_excused = !o.app.capped_tasks.is_empty()
        && o.app.capped_tasks.iter().all(|name| {
            let mut it = name.split('/');
            let idx = it.next().and_then(|c| c.strip_prefix('c')).and_then(|c| c.parse::<u32>().ok());
            let role = match it.next() {
                Some("Client") => Some(Role::Client),
                Some("Server") => Some(Role::Server),
                _ => None,
            };
            match (idx, role) {
                (Some(idx), Some(role)) => idle_deadline_ns(v, idx, role).map_or(false, |d| d + 1_000_000_000 >= cap_ns),
                _ => false,
            }
        });
    if !o.app.capped_tasks.is_empty() && !still_progressing && !all_excused {
        let mut pend: Vec<String> =
            o.app.pending_ops.values().map(|p| format!("{}:{}@{}ms", p.who, p.what, p.t_begin_ns / 1_000_000)).collect();
        pend.sort();
        let kinds: BTreeSet<&str> = o.app.pending_ops.values().map(|p| p.what).collect();
        out.push(viol(
            "C02",
            "c02.hang",
            format!("hang:{}", kinds.into_iter().collect::<Vec<_>>().join(",")),
            format!(
                "application tasks still parked at the virtual-time cap ({} ms, faults ended at {:?} us): {:?}; pending operations: {:?}",
                o.plan.time_cap_us / 1000,
                o.plan.faults_end_us,
                o.app.capped_tasks,
                pend
            ),
        ));
    }
    if let Some(p) = &o.panic {
        let first = p.lines().next().unwrap_or("").to_string();
        let stalled = p.contains("Runtime stalled") || p.contains("runtime stalled");
        out.push(viol(
            "C02",
            if stalled { "c02.stall" } else { "c02.panic" },
            if stalled { "stall".into() } else { format!("panic:{}", first.chars().take(80).collect::<String>()) },
            format!("simulation ended by panic: {}", p.chars().take(1500).collect::<String>()),
        ));
    }
    // 2. outcome consistency per connection
    for (idx, c) in o.plan.conns.iter().enumerate() {
        let idx = idx as u32;
        let hard_close = matches!(c.close, CloseSpec::At { .. });
        if hard_close {
            continue;
        }
        let mut incomplete = vec![];
        let mut total = 0;
        for sp in [Role::Client, Role::Server] {
            let (mut b, mut u) = (0u64, 0u64);
            for p in c.streams.iter().filter(|p| p.opener == sp) {
                let low = match (sp, p.bidi) {
                    (Role::Client, true) => 0,
                    (Role::Server, true) => 1,
                    (Role::Client, false) => 2,
                    (Role::Server, false) => 3,
                };
                let id = if p.bidi {
                    b += 1;
                    (b - 1) * 4 + low
                } else {
                    u += 1;
                    (u - 1) * 4 + low
                };
                let mut keys = vec![StreamKey { conn: idx, id, sender: sp }];
                if p.bidi && p.rev.is_some() {
                    keys.push(StreamKey { conn: idx, id, sender: sp.peer() });
                }
                for k in keys {
                    total += 1;
                    if !matches!(stream_complete(&k, v), Ok(true)) {
                        incomplete.push(k);
                    }
                }
            }
        }
        if incomplete.is_empty() {
            continue;
        }
        if !(fam.starts_with("c02.finite") || fam.starts_with("c02.block") || fam.starts_with("c02.partial_reads") || fam.starts_with("c01")) {
            continue;
        }
        // an application that drops its connection handle (CloseSpec::DropHandles) puts the
        // connection into the flushing state: streams the peer opens afterwards are refused and
        // the connection ends with a plain `Closed`. That is the application's decision, not a
        // transport failure (e.g. the peer's first stream frames were delayed by a fault).
        if matches!(c.close, CloseSpec::DropHandles)
            && [v.side(idx, Role::Client), v.side(idx, Role::Server)]
                .iter()
                .flatten()
                .filter_map(|s| v.closed_event(*s))
                .any(|(_, k, _, e)| k == CloseKind::Closed && e.contains("initiator: Local"))
        {
            continue;
        }
        if !o.app.capped_tasks.is_empty() || o.panic.is_some() {
            continue; // already reported as hang / panic (or budget exceeded)
        }
        // Incomplete streams are legitimate only when the connection was killed by the faults.
        let cs = v.side(idx, Role::Client);
        let ss = v.side(idx, Role::Server);
        let is_err = |k: CloseKind| !matches!(k, CloseKind::Closed | CloseKind::Application);
        let deaths: Vec<(u64, CloseKind)> = [cs, ss]
            .iter()
            .flatten()
            .filter_map(|s| v.closed_event(*s))
            .filter(|(_, k, _, _)| is_err(*k))
            .map(|(t, k, _, _)| (t, k))
            .collect();
        let first_death = deaths.iter().map(|d| d.0).min();
        let first_fault = o
            .net
            .log
            .iter()
            .find(|r| r.drop_reason.is_some() || r.deliveries.len() != 1 || r.deliveries.iter().any(|d| d.label != crate::net::Label::Genuine))
            .map(|r| r.t_send_ns);
        let tf_ns = o.plan.faults_end_us.unwrap_or(0).saturating_mul(1000);
        let max_idle_ns = o.plan.cfg.client.limits.idle_timeout_ms.max(o.plan.cfg.server.limits.idle_timeout_ms) * 1_000_000;
        let handshake_done_both = o.app.conns.get(&(idx, Role::Client)).map_or(false, |c| c.t_connected_ns.is_some())
            && o.app.conns.get(&(idx, Role::Server)).map_or(false, |c| c.t_connected_ns.is_some());
        let faulted_before = |t: u64| first_fault.map_or(false, |f| f <= t);
        let excused = match first_death {
            None => false,
            Some(t) if !faulted_before(t) => false,
            // backed-off probe timers may keep a healthy path silent for up to twice the outage
            Some(t) if t <= 3 * tf_ns + max_idle_ns + 5_000_000_000 => true,
            Some(_) if !handshake_done_both => true,
            Some(_) => false,
        };
        if !excused {
            // cause analysis for one known defect: a receiver that abandons a stream (STOP_SENDING)
            // only tracks one missing range [received prefix, first FIN offset seen afterwards)
            // (MissingData in receive_stream.rs): a FIN that arrived before the STOP_SENDING, or
            // any out-of-order arrival afterwards, leaves it waiting for data or a RESET_STREAM
            // that a sender whose stream is completely acknowledged never sends. The stream is
            // never released and its stream-count credit never returned.
            let mut stuck_stop = false;
            for side in [cs, ss].iter().flatten() {
                let mut stops: BTreeSet<u64> = BTreeSet::new();
                for (i, t) in o.obs.tx.iter().enumerate() {
                    if t.ep != side.ep || t.conn != side.conn {
                        continue;
                    }
                    if let Ok(fr) = &v.tx_frames[i] {
                        for f in fr {
                            if let Frame::StopSending { id, .. } = f {
                                stops.insert(*id);
                            }
                        }
                    }
                }
                for id in &stops {
                    let mut fin_seen = false;
                    let mut reset_seen = false;
                    for (i, r) in o.obs.rx.iter().enumerate() {
                        if r.ep != side.ep || r.conn != side.conn {
                            continue;
                        }
                        if let Ok(fr) = &v.rx_frames[i] {
                            for f in fr {
                                match f {
                                    Frame::Stream { id: sid, fin, .. } if sid == id => fin_seen |= *fin,
                                    Frame::ResetStream { id: sid, .. } if sid == id => reset_seen = true,
                                    _ => {}
                                }
                            }
                        }
                    }
                    // the peer finished the stream normally and (rightly) never reset it
                    if fin_seen && !reset_seen {
                        stuck_stop = true;
                    }
                }
            }
            out.push(viol(
                "C02",
                "c02.undelivered",
                if stuck_stop {
                    "undelivered:stop_sending_on_stream_the_peer_finished_never_completes".to_string()
                } else {
                    format!("undelivered:{}", first_death.map_or("alive", |_| "died_after_recovery"))
                },
                format!(
                    "connection {idx}: {}/{} stream directions incomplete ({:?}) although the network was healthy from {} ms on; first fault at {:?} ms, connection deaths {:?} (ms)",
                    incomplete.len(), total,
                    incomplete.iter().take(4).collect::<Vec<_>>(),
                    tf_ns / 1_000_000,
                    first_fault.map(|t| t / 1_000_000),
                    deaths.iter().map(|(t, k)| (t / 1_000_000, *k)).collect::<Vec<_>>()
                ),
            ));
        }
    }
    // 3. permanent blackhole: failure must be reported within the effective idle timeout
    if fam.starts_with("c02.blackhole") {
        out.extend(c02_blackhole(v));
    }
    out
}

fn c02_blackhole(v: &View) -> Vec<Violation> {
    let mut out = vec![];
    let o = v.out;
    for idx in 0..o.plan.conns.len() as u32 {
        for role in [Role::Client, Role::Server] {
            let Some(side) = v.side(idx, role) else { continue };
            // last instant this side processed a packet
            let last_rx = o.obs.rx.iter().filter(|r| r.ep == side.ep && r.conn == side.conn).map(|r| r.t_ns).max();
            let Some(last_rx) = last_rx else { continue };
            // effective idle timeout = min(advertised both) but at least 3*PTO
            let local = match role {
                Role::Client => o.plan.cfg.client.limits.idle_timeout_ms,
                Role::Server => o.plan.cfg.server.limits.idle_timeout_ms,
            };
            let peer = v.peer_tp(idx, role).map(|p| p.max_idle_timeout_ms);
            let hs_ms = match role {
                Role::Client => o.plan.cfg.client.limits.handshake_ms,
                Role::Server => o.plan.cfg.server.limits.handshake_ms,
            };
            let idle_ms = match peer {
                Some(0) | None => local,
                Some(p) if local == 0 => p,
                Some(p) => p.min(local),
            };
            if idle_ms == 0 {
                continue;
            }
            // largest PTO period the endpoint itself could have used: from its own metrics
            let mut pto_us = 0u64;
            for e in o.obs.evs.iter().filter(|e| e.ep == side.ep && e.conn == side.conn) {
                if let Ev::Metrics { smoothed_us, var_us, max_ack_delay_us, pto_count, .. } = &e.ev {
                    // "current PTO" as the endpoint computes it: period times its backoff
                    // (one further doubling may happen after the last metrics event)
                    let p = (smoothed_us + (4 * var_us).max(1000) + max_ack_delay_us)
                        .saturating_mul(1u64 << (*pto_count + 1).min(20));
                    pto_us = pto_us.max(p);
                }
            }
            let idle_eff_ns = (idle_ms * 1_000_000).max(3 * pto_us * 1000);
            // before the handshake is confirmed the handshake timer bounds it instead
            let bound_ns = last_rx + 2 * idle_eff_ns.max(hs_ms * 1_000_000) + 1_000_000_000;
            match v.closed_event(side) {
                Some((t, _, _, _)) if t <= bound_ns => {}
                Some((t, k, _, _)) => out.push(viol(
                    "C02",
                    "c02.late_failure",
                    "late_failure".into(),
                    format!("connection {idx} {role:?}: failure ({k:?}) reported at {} ms, last packet processed at {} ms, bound {} ms (idle_eff {} ms)",
                        t / 1_000_000, last_rx / 1_000_000, bound_ns / 1_000_000, idle_eff_ns / 1_000_000),
                )),
                None => {
                    if o.end_ns > bound_ns {
                        out.push(viol(
                            "C02",
                            "c02.no_failure_reported",
                            "no_failure".into(),
                            format!("connection {idx} {role:?}: network never recovered, last packet processed at {} ms, no connection_closed by {} ms (run ended {} ms)",
                                last_rx / 1_000_000, bound_ns / 1_000_000, o.end_ns / 1_000_000),
                        ));
                    }
                }
            }
        }
    }
    out
}

// ---------------------------------------------------------------------------------------
// C03

#[derive(Default, Debug, Clone)]
struct Granted {
    max_data: u64,
    max_streams_bidi: u64,
    max_streams_uni: u64,
    max_stream_data: BTreeMap<u64, u64>,
}

fn is_client_initiated(id: u64) -> bool {
    id & 1 == 0
}
fn is_bidi(id: u64) -> bool {
    id & 2 == 0
}

pub fn c03(v: &View) -> Vec<Violation> {
    let mut out = vec![];
    let o = v.out;
    for idx in 0..o.plan.conns.len() as u32 {
        for role in [Role::Client, Role::Server] {
            let Some(side) = v.side(idx, role) else { continue };
            let Some(tp) = v.peer_tp(idx, role) else { continue };
            let mut g = Granted {
                max_data: tp.initial_max_data,
                max_streams_bidi: tp.initial_max_streams_bidi,
                max_streams_uni: tp.initial_max_streams_uni,
                max_stream_data: BTreeMap::new(),
            };
            let initial_stream_limit = |id: u64| -> u64 {
                let mine = is_client_initiated(id) == (role == Role::Client);
                if !is_bidi(id) {
                    tp.initial_max_stream_data_uni
                } else if mine {
                    // I opened it: it is "remote" from the peer's point of view
                    tp.initial_max_stream_data_bidi_remote
                } else {
                    tp.initial_max_stream_data_bidi_local
                }
            };
            // merge rx and tx of this side by sequence number
            let mut evs: Vec<(u64, bool, usize)> = vec![];
            for (i, r) in o.obs.rx.iter().enumerate() {
                if r.ep == side.ep && r.conn == side.conn && r.space == Space::App {
                    evs.push((r.seq, false, i));
                }
            }
            for (i, t) in o.obs.tx.iter().enumerate() {
                if t.ep == side.ep && t.conn == side.conn && t.space == Space::App && t.byz.is_none() {
                    evs.push((t.seq, true, i));
                }
            }
            evs.sort();
            let mut used: BTreeMap<u64, u64> = BTreeMap::new();
            let mut flagged: BTreeSet<String> = BTreeSet::new();
            for (_, is_tx, i) in evs {
                if !is_tx {
                    let Ok(frames) = &v.rx_frames[i] else { continue };
                    for f in frames {
                        match f {
                            Frame::MaxData { max } => g.max_data = g.max_data.max(*max),
                            Frame::MaxStreamData { id, max } => {
                                let e = g.max_stream_data.entry(*id).or_insert(0);
                                *e = (*e).max(*max);
                            }
                            Frame::MaxStreams { bidi: true, max } => g.max_streams_bidi = g.max_streams_bidi.max(*max),
                            Frame::MaxStreams { bidi: false, max } => g.max_streams_uni = g.max_streams_uni.max(*max),
                            _ => {}
                        }
                    }
                    continue;
                }
                let Ok(frames) = &v.tx_frames[i] else { continue };
                let pkt = &o.obs.tx[i];
                for f in frames {
                    let (id, end, what) = match f {
                        Frame::Stream { id, off, len, .. } => (*id, off + *len as u64, "STREAM"),
                        Frame::ResetStream { id, final_size, .. } => (*id, *final_size, "RESET_STREAM"),
                        Frame::StreamDataBlocked { id, .. }
                        | Frame::MaxStreamData { id, .. }
                        | Frame::StopSending { id, .. } => {
                            // references a stream: count limit only
                            (*id, u64::MAX, "ref")
                        }
                        _ => continue,
                    };
                    // stream-count limit for streams this side initiates
                    let mine = is_client_initiated(id) == (role == Role::Client);
                    if mine {
                        let index = id / 4;
                        let lim = if is_bidi(id) { g.max_streams_bidi } else { g.max_streams_uni };
                        if index >= lim && flagged.insert(format!("streams:{id}")) {
                            out.push(viol(
                                "C03",
                                "c03.stream_count",
                                format!("stream_count:{what}"),
                                format!("conn {idx} {role:?} pn {}: {what} frame references own stream {id} (index {index}) but peer allowed only {lim} streams of that type", pkt.pn),
                            ));
                        }
                    }
                    if end == u64::MAX {
                        continue;
                    }
                    let lim = g.max_stream_data.get(&id).copied().unwrap_or(0).max(initial_stream_limit(id));
                    if end > lim && flagged.insert(format!("stream:{id}:{what}")) {
                        out.push(viol(
                            "C03",
                            if what == "STREAM" { "c03.stream_data_gt_stream_limit" } else { "c03.reset_final_size_gt_stream_limit" },
                            format!("{}_gt_stream_limit", what.to_lowercase()),
                            format!("conn {idx} {role:?} pn {}: {what} on stream {id} ends at {end} but the largest per-stream limit received is {lim}", pkt.pn),
                        ));
                    }
                    let e = used.entry(id).or_insert(0);
                    *e = (*e).max(end);
                    let sum: u64 = used.values().sum();
                    if sum > g.max_data && flagged.insert(format!("conn:{what}")) {
                        out.push(viol(
                            "C03",
                            if what == "STREAM" { "c03.stream_data_gt_conn_limit" } else { "c03.reset_final_size_gt_conn_limit" },
                            format!("{}_gt_conn_limit", what.to_lowercase()),
                            format!("conn {idx} {role:?} pn {}: sum of stream lengths {sum} exceeds the largest connection limit received {}", pkt.pn, g.max_data),
                        ));
                    }
                }
            }
        }
    }
    out
}

pub fn evaluate(property: &str, v: &View) -> Vec<Violation> {
    match property {
        "C01" => c01(v),
        "C02" => c02(v),
        "C03" => c03(v),
        "C04" => crate::oracle3::c04(v),
        "C05" => crate::oracle4::c05(v),
        "C06" => crate::oracle2::c06(v),
        "C08" => crate::oracle2::c08(v),
        "C09" => crate::oracle8::c09(v),
        "C10" => crate::oracle8::c10(v),
        "C11" => crate::oracle5::c11(v),
        "C12" => crate::oracle2::c12(v),
        "C13" => crate::oracle7::c13(v),
        "C14" => crate::oracle6::c14(v),
        "C15" => {
            // keys must also keep working: the data and liveness oracles run on the same history
            let mut vs = crate::oracle9::c15(v);
            for mut x in c01(v).into_iter().chain(c02(v)) {
                x.oracle = format!("c15.keys_stopped_working:{}", x.oracle);
                x.property = "C15".into();
                vs.push(x);
            }
            vs
        }
        _ => vec![],
    }
}

pub fn payload_of(p: &PktRec) -> &[u8] {
    &p.payload
}

/// hash of the complete observable history of a run (determinism self-check)
pub fn history_hash(out: &RunOutput) -> u64 {
    let mut f = Fnv::default();
    for t in &out.obs.tx {
        f.u64(t.seq);
        f.u64(t.ep as u64);
        f.u64(t.conn);
        f.u64(t.pn);
        f.u64(t.t_ns);
        f.u64(t.hash);
    }
    for t in &out.obs.rx {
        f.u64(t.seq);
        f.u64(t.ep as u64);
        f.u64(t.conn);
        f.u64(t.pn);
        f.u64(t.t_ns);
        f.u64(t.hash);
    }
    for d in &out.obs.tx_dgrams {
        f.u64(d.seq);
        f.u64(d.t_ns);
        f.write(&d.bytes);
    }
    for e in &out.obs.evs {
        f.u64(e.seq);
        f.u64(e.t_ns);
        f.write(format!("{:?}", e.ev).as_bytes());
    }
    for r in &out.net.log {
        f.u64(r.t_send_ns);
        f.u64(r.ordinal);
        f.u64(r.hash);
        f.u64(r.len as u64);
        for d in &r.deliveries {
            f.u64(d.t_us);
            f.u64(d.hash);
        }
    }
    for (t, dst, src, len, _) in &out.net.delivered {
        f.u64(*t);
        f.write(format!("{dst:?}{src:?}").as_bytes());
        f.u64(*len as u64);
    }
    for (k, s) in &out.app.sends {
        f.write(format!("{k:?}{s:?}").as_bytes());
    }
    for (k, s) in &out.app.recvs {
        f.write(format!("{k:?}{s:?}").as_bytes());
    }
    f.u64(out.end_ns);
    f.0
}

/// property-specific rule for "this run exercised the property non-trivially"
pub fn nontrivial(property: &str, v: &View, s: &RunStats) -> bool {
    let p = |k: &str| s.probes.get(k).copied().unwrap_or(0);
    let fam = v.out.plan.family.as_str();
    match property {
        "C01" => s.faults_fired > 0 && s.progress && p("stream_eof") > 0,
        "C02" => {
            if fam == "c02.blackhole" {
                s.faults_fired > 0 && !v.out.obs.rx.is_empty()
            } else if fam == "c02.block" {
                p("stream_data_blocked_sent") + p("data_blocked_sent") + p("streams_blocked_sent") > 0
            } else {
                s.faults_fired > 0 && s.progress
            }
        }
        "C03" => {
            p("stream_data_blocked_sent") + p("data_blocked_sent") + p("streams_blocked_sent") + p("reset_stream_sent") > 0
        }
        "C04" => {
            // the byzantine frame was actually processed by the victim
            v.out.obs.byz_fired.iter().any(|(_, _, _, seq)| {
                v.out.obs.tx.iter().find(|t| t.seq == *seq).map_or(false, |t| {
                    v.out.obs.rx.iter().any(|r| r.space == t.space && r.pn == t.pn && r.hash == t.hash)
                })
            })
        }
        "C05" => {
            // mutated bytes reached a real decoder (datagram mutation or cleartext rewrite)
            v.out.net.delivered.iter().any(|d| d.4 == crate::net::Label::Mutated || d.4 == crate::net::Label::Injected)
                || !v.out.obs.byz_fired.is_empty()
        }
        "C06" => {
            // a forged / mutated / replayed datagram actually reached an endpoint
            v.out.net.delivered.iter().any(|d| d.4 != crate::net::Label::Genuine) && p("stream_eof") > 0
        }
        "C08" => s.faults_fired > 0 && (p("ack_with_gaps_sent") > 0 || p("packet_lost") > 0),
        "C11" => {
            // the server was actually amplification-limited (large first flight) or an
            // unattributable datagram was answered
            let big_flight = v.out.plan.cfg.cert_size >= 3000;
            let replied = v.out.net.hosts.iter().find(|h| h.idx == u32::MAX).map_or(false, |a| v.out.net.log.iter().any(|r| r.dst == a.addr));
            (big_flight && !v.out.obs.rx.is_empty()) || replied
        }
        "C09" | "C10" => s.faults_fired > 0 && s.progress && (p("packet_lost") > 0 || p("pto_count_ge3") > 0 || p("congestion_event") > 0),
        "C15" => p("key_update") >= 4 && s.progress,
        "C13" => {
            // ids were issued beyond the handshake one and something forced a change of ids:
            // a retirement, a rebinding or a lost NEW/RETIRE_CONNECTION_ID frame
            p("new_connection_id_sent") > 0 && (p("retire_connection_id_sent") > 0 || s.faults_fired > 0)
        }
        "C14" => {
            // the rewritten block reached the peer
            !v.out.tls.tp_received.is_empty() && (v.out.plan.cfg.client.tp_rule.is_some() || v.out.plan.cfg.server.tp_rule.is_some())
        }
        "C12" => {
            p("reset_stream_sent") + p("stop_sending_sent") + p("connection_close_sent") > 0
                && (s.faults_fired > 0 || p("packet_lost") > 0)
        }
        _ => s.faults_fired > 0 && s.progress,
    }
}
