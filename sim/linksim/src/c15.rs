//! C15 (component half): two-party KeySet simulator.
//!
//! Two real `s2n_quic_core::crypto::application::KeySet<SimKey>` instances are driven the way
//! `s2n-quic-transport/src/space/application.rs` drives them: `encrypt_packet` with a closure
//! that runs the real `Short::encode_packet`, `ProtectedPacket::decode` + `unprotect` +
//! `decrypt_packet(.., datagram.timestamp + pto)` and `on_timeout` from a timer on the simulated
//! clock.  The endpoints are joined by a lossy / reordering / duplicating queue; an adversary
//! injects undecryptable packets.  `SimKey` tags every ciphertext with its generation and a
//! keyed hash, so only the right generation opens a packet and forgeries never do.
//!
//! Precondition (DESIGN 3.15), checked at run time through public API and never hidden: the
//! active key must not enter its update window while the previous update is still waiting for
//! its derivation timer (`key_update_in_progress() && active_key().needs_update()`); a run in
//! which this happens is stopped and counted as `precondition_violated`, not as a pass.

use crate::drv::{Engine, Outcome};
use s2n_codec::{DecoderBufferMut, Encoder, EncoderBuffer};
use s2n_quic_core::{
    connection::{id::ConnectionInfo, ProcessingError},
    crypto::{
        self,
        application::{limited::Limits, KeySet},
        packet_protection, scatter, HeaderProtectionMask,
    },
    inet::SocketAddress,
    packet::{
        encoding::{PacketEncoder, PacketEncodingError},
        number::{PacketNumber, PacketNumberSpace},
        short::{Short, SpinBit},
        KeyPhase, ProtectedPacket,
    },
    time::{timer::Provider as _, Timestamp},
    transport,
    varint::VarInt,
};
use serde::{Deserialize, Serialize};
use serde_json::{json, Value};
use simkit::{ddmin, hashn, mix64, Fnv, Rng, Violation};
use std::{
    cmp::Reverse,
    collections::{BTreeMap, BinaryHeap},
    time::Duration,
};

// ---------------------------------------------------------------------------------------
// instrumented key

const TAG_LEN: usize = 16;

#[derive(Debug)]
pub struct SimKey {
    secret: u64,
    pub gen: u64,
    conf_limit: u64,
    integ_limit: u64,
}

fn tag_for(secret: u64, gen: u64, pn: u64, header: &[u8], body: &[u8]) -> [u8; TAG_LEN] {
    let mut f = Fnv::default();
    f.write(header);
    f.u64(0xfeed);
    f.write(body);
    let h = hashn(secret, &[gen, pn, f.0, body.len() as u64]);
    let mut t = [0u8; TAG_LEN];
    t[..8].copy_from_slice(&gen.to_le_bytes());
    t[8..].copy_from_slice(&h.to_le_bytes());
    t
}

impl crypto::Key for SimKey {
    fn decrypt(&self, packet_number: u64, header: &[u8], payload: &mut [u8]) -> Result<(), packet_protection::Error> {
        if payload.len() < TAG_LEN {
            return Err(packet_protection::Error::DECRYPT_ERROR);
        }
        let (body, tag) = payload.split_at(payload.len() - TAG_LEN);
        if tag == tag_for(self.secret, self.gen, packet_number, header, body) {
            Ok(())
        } else {
            Err(packet_protection::Error::DECRYPT_ERROR)
        }
    }

    fn encrypt(&mut self, packet_number: u64, header: &[u8], payload: &mut scatter::Buffer) -> Result<(), packet_protection::Error> {
        let buffer = payload.flatten();
        let tag = {
            let (body, _) = buffer.split_mut();
            tag_for(self.secret, self.gen, packet_number, header, body)
        };
        buffer.write_slice(&tag);
        Ok(())
    }

    fn tag_len(&self) -> usize {
        TAG_LEN
    }

    fn aead_confidentiality_limit(&self) -> u64 {
        self.conf_limit
    }

    fn aead_integrity_limit(&self) -> u64 {
        self.integ_limit
    }

    fn cipher_suite(&self) -> crypto::tls::CipherSuite {
        crypto::tls::CipherSuite::Unknown
    }
}

impl crypto::OneRttKey for SimKey {
    fn derive_next_key(&self) -> Self {
        SimKey { secret: mix64(self.secret ^ 0x6b65_7975_7064), gen: self.gen + 1, conf_limit: self.conf_limit, integ_limit: self.integ_limit }
    }
}

/// header protection is the identity (mask 0, no sample): the key-phase bit stays readable,
/// which is all the KeySet cares about
#[derive(Debug, Default)]
struct NoHp;
impl crypto::HeaderKey for NoHp {
    fn opening_header_protection_mask(&self, _s: &[u8]) -> HeaderProtectionMask {
        [0; 5]
    }
    fn opening_sample_len(&self) -> usize {
        0
    }
    fn sealing_header_protection_mask(&self, _s: &[u8]) -> HeaderProtectionMask {
        [0; 5]
    }
    fn sealing_sample_len(&self) -> usize {
        0
    }
}
impl crypto::OneRttHeaderKey for NoHp {}

// ---------------------------------------------------------------------------------------
// plan

#[derive(Clone, Debug, Serialize, Deserialize, PartialEq)]
pub enum KFaultKind {
    /// genuine packet `ord` of direction `dir` is dropped
    Drop,
    /// delivered a second time `us` later
    Dup { us: u64 },
    /// delivered `us` later than normal (reordering)
    Delay { us: u64 },
    /// adversary: a copy of genuine packet `ord` with one bit flipped is delivered as well
    BitFlip { bit: u32 },
    /// adversary: random bytes behind a valid short header (key phase bit = `phase`), sent at
    /// the time genuine packet `ord` is sent
    Forge { phase: u8, len: u16 },
    /// `on_timeout` is called on the receiver of `dir` at the send time of `ord` (other
    /// connection timers firing)
    SpuriousTimeout,
}

#[derive(Clone, Debug, Serialize, Deserialize, PartialEq)]
pub struct KFault {
    /// 0: A->B, 1: B->A
    pub dir: u8,
    pub ord: u64,
    pub kind: KFaultKind,
}

#[derive(Clone, Debug, Serialize, Deserialize)]
pub struct KPlan {
    pub seed: u64,
    pub family: String,
    pub conf_limit: u64,
    pub key_update_window: u64,
    pub integ_limit: u64,
    /// derivation delay handed to `decrypt_packet` (the transport passes now + PTO)
    pub pto_us: u64,
    pub owd_us: [u64; 2],
    pub gap_us: [u64; 2],
    pub jitter_us: u64,
    pub packets: [u64; 2],
    /// endpoint (1 = B) stops sending after this many packets ("peer never answers")
    pub mute_b_after: Option<u64>,
    pub payload_len: u16,
    pub faults: Vec<KFault>,
}

pub fn gen_plan(seed: u64) -> KPlan {
    let mut r = Rng::new(seed);
    let fam = r.below(10);
    let family = match fam {
        0 | 1 => "silent_peer",
        2 | 3 => "forgery_storm",
        _ => "updates_under_reordering",
    };
    let owd = [r.range(200, 20_000), r.range(200, 20_000)];
    let gap = [r.range(50, 2_000), r.range(50, 2_000)];
    let jitter = r.pick(&[0, 10, 200]);
    let pto_us = r.range(1_000, 3 * (owd[0] + owd[1]).max(1_000));
    let max_delay = r.pick(&[0u64, 500, 5_000, 30_000]);
    // packets protected per endpoint between "first packet in the new phase leaves" and "next
    // key derived" is bounded by (rtt + worst queueing of faults + pto) / gap; T = limit - window
    // is chosen well above twice that bound (precondition of DESIGN 3.15)
    let min_gap = gap[0].min(gap[1]).max(1);
    let burst_loss = r.pick(&[0u64, 1, 3, 6]);
    let span = owd[0] + owd[1] + pto_us + 2 * max_delay + (burst_loss + 2) * (gap[0] + gap[1]) + 4 * jitter;
    let in_flight = span / min_gap + 4;
    let t = 2 * in_flight + r.range(8, 64);
    let mut window = r.range(2, 40);
    let mut conf_limit = t + window;
    // one plan in eight: a key whose confidentiality limit is smaller than the update window.
    // "starts a key update before reaching the limit" then means: right away. (The DESIGN 3.15
    // precondition cannot hold here; such runs are stopped once an update is in progress and
    // the promoted key asks for the next one, and are never counted as passes. What they can
    // still show is an endpoint that never starts an update and runs its key into the limit.)
    if family != "silent_peer" && r.chance(1, 8) {
        // (the limit itself stays well above the packets in flight, see above)
        window = conf_limit + r.range(1, 100);
    }
    let integ_limit = r.range(1, 24);
    let updates = r.range(2, 7);
    let n = (t + window) * updates;
    let packets = if family == "silent_peer" { [conf_limit * 2 + 40, r.range(5, t / 2 + 6)] } else { [n, n * gap[0] / gap[1] + 1] };
    let mute_b_after = if family == "silent_peer" { Some(packets[1]) } else { None };
    let mut faults = vec![];
    let rate = r.pick(&[0u64, 5, 20, 60, 150]); // per mille, per fault kind
    for dir in 0..2u8 {
        let mut ord = 0;
        while ord < packets[dir as usize] {
            if rate > 0 && r.chance(rate, 1000) {
                // a burst of drops, never longer than burst_loss
                let k = if burst_loss == 0 { 0 } else { r.range(1, burst_loss) };
                for j in 0..k {
                    faults.push(KFault { dir, ord: ord + j, kind: KFaultKind::Drop });
                }
                ord += k + 1;
                continue;
            }
            if max_delay > 0 && r.chance(rate, 1000) {
                faults.push(KFault { dir, ord, kind: KFaultKind::Delay { us: r.range(1, max_delay) } });
            }
            if r.chance(rate, 1000) {
                faults.push(KFault { dir, ord, kind: KFaultKind::Dup { us: r.range(0, max_delay.max(50)) } });
            }
            if r.chance(rate / 4 + 1, 1000) {
                faults.push(KFault { dir, ord, kind: KFaultKind::SpuriousTimeout });
            }
            ord += 1;
        }
    }
    // adversary
    let forge_rate = match family {
        "forgery_storm" => r.pick(&[50u64, 150, 400]),
        _ => r.pick(&[0u64, 0, 2, 10]),
    };
    for dir in 0..2u8 {
        for ord in 0..packets[dir as usize] {
            if forge_rate > 0 && r.chance(forge_rate, 1000) {
                let kind = if r.chance(1, 2) { KFaultKind::BitFlip { bit: r.below(4096) as u32 } } else { KFaultKind::Forge { phase: r.below(2) as u8, len: r.range(24, 200) as u16 } };
                faults.push(KFault { dir, ord, kind });
            }
        }
    }
    KPlan {
        seed,
        family: family.into(),
        conf_limit,
        key_update_window: window,
        integ_limit,
        pto_us,
        owd_us: owd,
        gap_us: gap,
        jitter_us: jitter,
        packets,
        mute_b_after,
        payload_len: r.range(24, 120) as u16,
        faults,
    }
}

// ---------------------------------------------------------------------------------------
// simulation

#[derive(Clone, Debug, PartialEq, Eq, PartialOrd, Ord)]
enum Ev {
    Timer { ep: usize },
    Deliver { to: usize, wire: usize },
    Send { ep: usize },
    Spurious { ep: usize },
}

#[derive(Clone, Debug)]
struct Wire {
    bytes: Vec<u8>,
    /// Some((pn, generation)) for a genuine packet, None for adversarial bytes
    genuine: Option<(u64, u64)>,
    from: usize,
}

struct Endpoint {
    ks: KeySet<SimKey>,
    limits: Limits,
    next_pn: u64,
    sent: u64,
    largest_rx: u64,
    /// (pn, generation) of the last packet protected
    last_enc: Option<(u64, u64)>,
    enc_per_gen: BTreeMap<u64, u64>,
    failures: u64,
    closed: bool,
    refused: bool,
    timer_at: Option<u64>,
    rollback_cause: Option<String>,
}

fn ts(us: u64) -> Timestamp {
    unsafe { Timestamp::from_duration(Duration::from_micros(us.max(1))) }
}

fn ts_us(t: Timestamp) -> u64 {
    unsafe { t.as_duration().as_micros() as u64 }
}

fn pn0() -> PacketNumber {
    PacketNumberSpace::ApplicationData.new_packet_number(VarInt::from_u8(0))
}

fn pn(v: u64) -> PacketNumber {
    PacketNumberSpace::ApplicationData.new_packet_number(VarInt::new(v).unwrap())
}

const DCID: [u8; 8] = [0xc1, 0x5c, 0, 0, 0, 0, 0, 1];

struct Sim<'p> {
    plan: &'p KPlan,
    now: u64,
    seq: u64,
    q: BinaryHeap<Reverse<(u64, u64, Ev)>>,
    wires: Vec<Wire>,
    eps: [Endpoint; 2],
    out: Outcome,
    kinds: Fnv,
    faults: BTreeMap<(u8, u64), Vec<KFaultKind>>,
    stop: bool,
    keep_tail: bool,
    tail: std::collections::VecDeque<String>,
}

fn active_gen(e: &mut Endpoint) -> u64 {
    e.ks.active_key_mut().key_mut().gen
}

impl<'p> Sim<'p> {
    fn new(plan: &'p KPlan) -> Self {
        let mk = |plan: &KPlan| {
            let mut limits = Limits::default();
            limits.key_update_window = plan.key_update_window;
            let key = SimKey { secret: mix64(plan.seed ^ 0x5ec2e7), gen: 0, conf_limit: plan.conf_limit, integ_limit: plan.integ_limit };
            Endpoint {
                ks: KeySet::new(key, limits),
                limits,
                next_pn: 0,
                sent: 0,
                largest_rx: 0,
                last_enc: None,
                enc_per_gen: BTreeMap::new(),
                failures: 0,
                closed: false,
                refused: false,
                timer_at: None,
                rollback_cause: None,
            }
        };
        let mut faults: BTreeMap<(u8, u64), Vec<KFaultKind>> = BTreeMap::new();
        for f in &plan.faults {
            faults.entry((f.dir, f.ord)).or_default().push(f.kind.clone());
        }
        let mut s = Sim { plan, now: 1, seq: 0, q: BinaryHeap::new(), wires: vec![], eps: [mk(plan), mk(plan)], out: Outcome::default(), kinds: Fnv::default(), faults, stop: false, keep_tail: true, tail: Default::default() };
        s.push(1, Ev::Send { ep: 0 });
        s.push(1 + plan.gap_us[1] / 2, Ev::Send { ep: 1 });
        s
    }

    fn push(&mut self, at: u64, ev: Ev) {
        self.seq += 1;
        self.q.push(Reverse((at.max(self.now), self.seq, ev)));
    }

    fn log(&mut self, kind: &'static str, detail: impl FnOnce(&Self) -> String) {
        self.out.events += 1;
        self.kinds.write(kind.as_bytes());
        if self.out.first_events.len() < 24 {
            let d = detail(self);
            self.out.first_events.push(format!("t={}us {} {}", self.now, kind, d));
        } else if self.keep_tail {
            let d = detail(self);
            if self.tail.len() == 60 {
                self.tail.pop_front();
            }
            self.tail.push_back(format!("t={}us {} {}", self.now, kind, d));
        }
    }

    fn violate(&mut self, oracle: &str, sig: &str, detail: String) {
        if self.stop {
            return;
        }
        self.out.violations.push(Violation { property: "C15".into(), oracle: oracle.into(), detail: format!("t={}us {}", self.now, detail), sig: sig.into() });
        self.stop = true;
    }

    fn sync_timer(&mut self, ep: usize) {
        let next = self.eps[ep].ks.next_expiration().map(ts_us);
        if next != self.eps[ep].timer_at {
            self.eps[ep].timer_at = next;
            if let Some(t) = next {
                self.push(t, Ev::Timer { ep });
            }
        }
    }

    /// precondition of DESIGN 3.15, observed through public API only
    fn precondition_ok(&mut self, ep: usize) -> bool {
        let e = &self.eps[ep];
        if e.ks.key_update_in_progress() && e.ks.active_key().needs_update(&e.limits) {
            self.out.observe("precondition_violated_run_stopped");
            self.log("precondition_violated", |_| format!("ep{ep}"));
            self.stop = true;
            return false;
        }
        true
    }

    fn send(&mut self, ep: usize) {
        let plan = self.plan;
        let e = &mut self.eps[ep];
        if e.closed || e.refused {
            return;
        }
        if e.sent >= plan.packets[ep] {
            // workload done: with a talking peer the run ends here, otherwise the other side
            // would look like a peer that never answers
            if plan.mute_b_after.is_none() {
                self.stop = true;
            }
            return;
        }
        if ep == 1 && plan.mute_b_after.is_some_and(|m| e.sent >= m) {
            return;
        }
        if !self.precondition_ok(ep) {
            return;
        }
        let e = &mut self.eps[ep];
        let ord = e.sent;
        let pnv = e.next_pn;
        let payload: Vec<u8> = (0..plan.payload_len as u64).map(|i| (hashn(plan.seed, &[ep as u64, pnv, i]) & 0xff) as u8 | 1).collect();
        let mut buf = vec![0u8; 400];
        let mut used_gen = None;
        let mut used_phase = KeyPhase::Zero;
        let hk = NoHp;
        let res = {
            let buffer = EncoderBuffer::new(&mut buf);
            e.ks.encrypt_packet(buffer, |buffer, key, key_phase| {
                used_gen = Some(key.gen);
                used_phase = key_phase;
                let packet = Short { spin_bit: SpinBit::Zero, key_phase, destination_connection_id: &DCID[..], packet_number: pn(pnv), payload: &payload[..] };
                packet.encode_packet(key, &hk, pn0(), None, buffer)
            })
            .map(|(protected, _rest)| protected.len())
        };
        self.out.oracle_evals += 1;
        match res {
            Ok(len) => {
                let g = used_gen.unwrap();
                let e = &mut self.eps[ep];
                e.next_pn += 1;
                e.sent += 1;
                let n = {
                    let c = e.enc_per_gen.entry(g).or_insert(0);
                    *c += 1;
                    *c
                };
                let prev = e.last_enc.replace((pnv, g));
                let active = active_gen(e);
                if g != active {
                    self.out.probe("sent_with_next_key_before_rotation");
                }
                self.log("send", |_| format!("ep{ep} pn={pnv} gen={g} phase={} n_gen={n}", used_phase as u8));
                // oracle 1: per generation, #encryptions <= reported confidentiality limit
                if n > plan.conf_limit {
                    self.violate("conf_limit_exceeded", "conf_limit_exceeded", format!("ep{ep} protected packet #{n} with generation {g}, reported aead_confidentiality_limit={}", plan.conf_limit));
                }
                // oracle 2: generation non-decreasing in pn per sender (RFC 9001 6.4)
                if let Some((ppn, pg)) = prev {
                    if g < pg {
                        let cause = self.eps[ep].rollback_cause.clone();
                        let sig = if cause.is_some() { "generation_regressed:old_phase_packet_rolled_back_keys" } else { "generation_regressed:other" };
                        self.violate(
                            "generation_regressed",
                            sig,
                            format!("ep{ep} protected pn={pnv} with generation {g} after pn={ppn} with generation {pg} (RFC 9001 6.4: higher packet numbers MUST use the same or newer keys); cause: {}", cause.unwrap_or_else(|| "unknown".into())),
                        );
                    }
                }
                buf.truncate(len);
                let wire = self.wires.len();
                self.wires.push(Wire { bytes: buf, genuine: Some((pnv, g)), from: ep });
                self.transmit(ep, ord, wire);
            }
            Err(PacketEncodingError::AeadLimitReached(_)) => {
                let e = &mut self.eps[ep];
                e.refused = true;
                // which generation would have been used: active or next
                let a = active_gen(e);
                let counts = e.enc_per_gen.clone();
                self.out.probe("encrypt_refused_aead_limit");
                self.log("send_refused", |_| format!("ep{ep} AeadLimitReached active_gen={a} counts={counts:?}"));
                // "the endpoint starts a key update before reaching the limit": with a peer that
                // keeps answering (every family but silent_peer; loss bursts and delays are
                // bounded by the plan) no key may ever be used up
                if plan.mute_b_after.is_none() {
                    let cause = self.eps[0].rollback_cause.clone().or(self.eps[1].rollback_cause.clone());
                    let sig = if cause.is_some() { "refused_although_peer_answers:old_phase_packet_rolled_back_keys" } else { "refused_although_peer_answers:other" };
                    self.violate(
                        "refused_although_peer_answers",
                        sig,
                        format!("ep{ep}: encrypt_packet returned AeadLimitReached (active generation {a}, per-generation counts {counts:?}, limit {}) although the peer answers: no key update was started or completed in time; cause: {}", plan.conf_limit, cause.unwrap_or_else(|| "unknown".into())),
                    );
                }
            }
            Err(other) => {
                let m = format!("{other:?}");
                self.violate("harness_encode_error", "harness", format!("unexpected encoding error {}", &m[..m.len().min(80)]));
            }
        }
        // next send
        let e = &self.eps[ep];
        if !e.refused && e.sent < plan.packets[ep] {
            let j = if plan.jitter_us > 0 { hashn(plan.seed, &[0x71, ep as u64, e.sent]) % plan.jitter_us } else { 0 };
            let at = self.now + plan.gap_us[ep] + j;
            self.push(at, Ev::Send { ep });
        } else if !e.refused && plan.mute_b_after.is_none() {
            // workload done: with a talking peer the run ends here, otherwise the other side
            // would look like a peer that never answers
            self.stop = true;
        }
    }

    fn transmit(&mut self, from: usize, ord: u64, wire: usize) {
        let plan = self.plan;
        let to = 1 - from;
        let dir = from as u8;
        let base = self.now + plan.owd_us[from];
        let fs = self.faults.get(&(dir, ord)).cloned().unwrap_or_default();
        let mut dropped = false;
        let mut delay = 0;
        for f in &fs {
            match f {
                KFaultKind::Drop => dropped = true,
                KFaultKind::Delay { us } => delay += us,
                _ => {}
            }
        }
        for f in &fs {
            match f {
                KFaultKind::Dup { us } => {
                    self.out.fault("dup");
                    self.push(base + delay + us, Ev::Deliver { to, wire });
                }
                KFaultKind::BitFlip { bit } => {
                    let mut b = self.wires[wire].bytes.clone();
                    // never touch the first byte's form/fixed bits or the DCID: the packet must
                    // still be routed to this connection's 1-RTT space
                    let lo = (1 + DCID.len()) * 8;
                    let nbits = b.len() * 8;
                    let pos = lo + (*bit as usize) % (nbits - lo);
                    b[pos / 8] ^= 1 << (pos % 8);
                    let w = self.wires.len();
                    self.wires.push(Wire { bytes: b, genuine: None, from });
                    self.out.fault("forged_bitflip");
                    self.push(base + 1, Ev::Deliver { to, wire: w });
                }
                KFaultKind::Forge { phase, len } => {
                    let mut b = vec![0u8; *len as usize + 1 + DCID.len()];
                    Rng::new(hashn(plan.seed, &[0xf0, dir as u64, ord])).fill(&mut b);
                    // short header, fixed bit, reserved bits 0, pn length 2
                    b[0] = 0x40 | ((*phase & 1) << 2) | 0x01;
                    b[1..1 + DCID.len()].copy_from_slice(&DCID);
                    let w = self.wires.len();
                    self.wires.push(Wire { bytes: b, genuine: None, from });
                    self.out.fault("forged_random");
                    self.push(base, Ev::Deliver { to, wire: w });
                }
                KFaultKind::SpuriousTimeout => {
                    self.push(self.now, Ev::Spurious { ep: to });
                }
                _ => {}
            }
        }
        if dropped {
            self.out.fault("loss");
            self.log("drop", |_| format!("dir{dir} ord={ord}"));
            return;
        }
        if delay > 0 {
            self.out.fault("reorder");
        }
        self.push(base + delay, Ev::Deliver { to, wire });
    }

    fn deliver(&mut self, to: usize, wire: usize) {
        let plan = self.plan;
        if self.eps[to].closed {
            return;
        }
        let w = self.wires[wire].clone();
        let mut bytes = w.bytes.clone();
        let remote = SocketAddress::default();
        let info = ConnectionInfo::new(&remote);
        let (c_before, in_progress, phase_before) = {
            let e = &mut self.eps[to];
            (active_gen(e), e.ks.key_update_in_progress(), e.ks.key_phase())
        };
        let largest_rx = self.eps[to].largest_rx;
        let deadline = ts(self.now + plan.pto_us);
        // decode exactly like the endpoint: ProtectedPacket::decode -> unprotect -> decrypt_packet
        let decoded = ProtectedPacket::decode(DecoderBufferMut::new(&mut bytes), &info, &DCID.len());
        let Ok((ProtectedPacket::Short(protected), _)) = decoded else {
            self.log("rx_undecodable", |_| format!("ep{to} wire={wire}"));
            return;
        };
        let Ok(encrypted) = protected.unprotect(&NoHp, pn0()) else {
            self.log("rx_unprotect_failed", |_| format!("ep{to} wire={wire}"));
            return;
        };
        let pkt_phase = encrypted.key_phase();
        let pkt_pn = encrypted.packet_number.as_u64();
        let res = self.eps[to].ks.decrypt_packet(encrypted, pn(largest_rx), deadline);
        let res: Result<Option<u16>, ProcessingError> = res.map(|(_, g)| g);
        self.out.oracle_evals += 1;
        let (c_after, phase_after) = {
            let e = &mut self.eps[to];
            (active_gen(e), e.ks.key_phase())
        };
        let is_limit_err = |r: &Result<Option<u16>, ProcessingError>| matches!(r, Err(ProcessingError::ConnectionError(e)) if *e == transport::Error::AEAD_LIMIT_REACHED.into());
        match (&w.genuine, &res) {
            (Some((gpn, g)), Ok(rot)) => {
                let (gpn, g) = (*gpn, *g);
                if gpn != pkt_pn {
                    self.violate("harness_pn_mismatch", "harness", format!("decoded pn {pkt_pn} != sent {gpn}"));
                }
                self.log("rx_ok", |_| format!("ep{to} pn={gpn} gen={g} phase={} rcv_gen {c_before}->{c_after} in_progress={in_progress} rotated={rot:?}", pkt_phase as u8));
                let e = &mut self.eps[to];
                e.largest_rx = e.largest_rx.max(gpn);
                if g == c_before + 1 {
                    // peer moved to the next generation: the receiver must follow (RFC 9001 6.2)
                    self.out.probe("key_update_completed");
                    if c_after != c_before + 1 || rot.is_none() {
                        self.violate("update_not_followed", "update_not_followed", format!("ep{to} opened pn={gpn} of generation {g} but its active generation is {c_after} (was {c_before}), returned {rot:?}"));
                    }
                } else if g == c_before {
                    if c_after != c_before || rot.is_some() || phase_after != phase_before {
                        self.violate("spurious_rotation", "spurious_rotation", format!("ep{to} opened pn={gpn} of its current generation {g} and moved to generation {c_after}"));
                    }
                } else if g + 1 == c_before {
                    // a delayed / duplicated packet of the previous generation inside the
                    // retention window: must be readable and must not change the send keys
                    self.out.probe("old_generation_packet_opened_after_update");
                    if c_after != c_before || phase_after != phase_before {
                        // Not yet a violation of the property statement: recorded as the cause
                        // and reported when this endpoint next protects a packet with the older
                        // generation (RFC 9001 6.4) or fails to open a genuine packet.
                        self.out.observe("old_phase_packet_rolled_back_keys");
                        let d = format!(
                            "at t={}us ep{to} (active generation {c_before}, phase {}, derivation timer armed={in_progress}) opened delayed genuine pn={gpn} of generation {g} (phase bit {}) and decrypt_packet switched its active key back to generation {c_after} / phase {} reporting key-update generation {rot:?}",
                            self.now, phase_before as u8, pkt_phase as u8, phase_after as u8
                        );
                        self.log("ROLLBACK", |_| d.clone());
                        self.eps[to].rollback_cause = Some(d);
                    }
                } else {
                    self.violate("opened_with_wrong_generation", "opened_with_wrong_generation", format!("ep{to} active generation {c_before} opened pn={gpn} of generation {g}"));
                }
            }
            (Some((gpn, g)), Err(err)) => {
                let (gpn, g) = (*gpn, *g);
                self.eps[to].failures += 1;
                let n = self.eps[to].failures;
                let must = g == c_before || (g == c_before + 1 && !in_progress) || (g + 1 == c_before && in_progress);
                self.log("rx_genuine_rejected", |_| format!("ep{to} pn={gpn} gen={g} rcv_gen={c_before} in_progress={in_progress} failures={n} err={err:?}"));
                if must {
                    // oracle 3
                    let cause = self.eps[w.from].rollback_cause.clone().or(self.eps[to].rollback_cause.clone());
                    let sig = if cause.is_some() { "genuine_packet_rejected:old_phase_packet_rolled_back_keys" } else { "genuine_packet_rejected:other" };
                    self.violate(
                        "genuine_packet_rejected",
                        sig,
                        format!("ep{to} (active generation {c_before}, derivation timer armed={in_progress}) failed to open genuine pn={gpn} protected with generation {g} by ep{}; cause: {}", w.from, cause.unwrap_or_else(|| "unknown".into())),
                    );
                } else {
                    self.out.observe("late_old_generation_packet_dropped");
                }
                self.integrity(to, n, is_limit_err(&res));
            }
            (None, Ok(_)) => {
                self.violate("forged_packet_accepted", "forged_packet_accepted", format!("ep{to} opened an adversarial packet (wire {wire})"));
            }
            (None, Err(_)) => {
                self.eps[to].failures += 1;
                let n = self.eps[to].failures;
                self.log("rx_forged_rejected", |_| format!("ep{to} phase={} failures={n} limit_err={}", pkt_phase as u8, is_limit_err(&res)));
                if c_after != c_before || phase_after != phase_before {
                    self.violate("forged_packet_changed_keys", "forged_packet_changed_keys", format!("ep{to} generation {c_before}->{c_after} after a failed authentication"));
                }
                self.integrity(to, n, is_limit_err(&res));
            }
        }
        self.sync_timer(to);
    }

    /// oracle 4: AEAD_LIMIT_REACHED exactly from the failure that reaches the integrity limit
    fn integrity(&mut self, ep: usize, failures: u64, limit_err: bool) {
        let lim = self.plan.integ_limit;
        self.out.oracle_evals += 1;
        if failures >= lim {
            self.out.probe("integrity_limit_reached");
            if !limit_err {
                self.violate("integrity_limit_not_enforced", "integrity_limit_not_enforced", format!("ep{ep}: failed authentication #{failures} with aead_integrity_limit={lim} did not report AEAD_LIMIT_REACHED"));
            }
            // the connection is closed by the transport at this point
            self.eps[ep].closed = true;
            self.log("closed_aead_limit", |_| format!("ep{ep} failures={failures}"));
        } else if limit_err {
            self.violate("integrity_limit_premature", "integrity_limit_premature", format!("ep{ep}: AEAD_LIMIT_REACHED after {failures} failed authentications, aead_integrity_limit={lim}"));
        }
    }

    fn timer(&mut self, ep: usize, spurious: bool) {
        if self.eps[ep].closed {
            return;
        }
        if !spurious {
            if self.eps[ep].timer_at != Some(self.now) {
                return; // re-armed meanwhile
            }
            self.eps[ep].timer_at = None;
        } else {
            self.out.fault("spurious_timeout");
        }
        let before = self.eps[ep].ks.key_update_in_progress();
        let g_before = active_gen(&mut self.eps[ep]);
        self.eps[ep].ks.on_timeout(ts(self.now));
        let after = self.eps[ep].ks.key_update_in_progress();
        let g_after = active_gen(&mut self.eps[ep]);
        if before && !after {
            self.out.probe("next_key_derived_on_timer");
            self.log("derive_next", |_| format!("ep{ep} active_gen={g_after}"));
        }
        if g_before != g_after {
            self.violate("timer_changed_active_key", "timer_changed_active_key", format!("ep{ep} generation {g_before}->{g_after} in on_timeout"));
        }
        self.sync_timer(ep);
    }

    fn run(mut self) -> Outcome {
        let cap_events = 2_000_000u64;
        while let Some(Reverse((at, _, ev))) = self.q.pop() {
            if self.stop || self.out.events > cap_events {
                break;
            }
            self.now = at;
            match ev {
                Ev::Send { ep } => self.send(ep),
                Ev::Deliver { to, wire } => self.deliver(to, wire),
                Ev::Timer { ep } => self.timer(ep, false),
                Ev::Spurious { ep } => self.timer(ep, true),
            }
            // AEAD_LIMIT_REACHED closes the connection for both sides
            if self.eps.iter().any(|e| e.closed) {
                break;
            }
        }
        // end-of-run oracle 5: a sender whose peer never answered must have been refused
        // before exceeding the limit, and must have been refused at all once a generation was
        // used up (it keeps sending until `packets` otherwise)
        let plan = self.plan;
        if !self.stop {
            for ep in 0..2 {
                let e = &self.eps[ep];
                let over: Vec<_> = e.enc_per_gen.iter().filter(|(_, c)| **c > plan.conf_limit).collect();
                if !over.is_empty() {
                    let d = format!("ep{ep} per-generation encryption counts {:?} exceed {}", e.enc_per_gen, plan.conf_limit);
                    self.violate("conf_limit_exceeded", "conf_limit_exceeded", d);
                }
            }
        }
        let updates: u64 = self.out.probes.get("key_update_completed").copied().unwrap_or(0);
        let reorder_or_forge = self.out.faults.iter().any(|(k, v)| *v > 0 && *k != "spurious_timeout");
        let pre_ok = self.out.obs.get("precondition_violated_run_stopped").is_none();
        self.out.nontrivial = pre_ok
            && reorder_or_forge
            && (updates >= 2 || self.out.probes.contains_key("integrity_limit_reached") || self.out.probes.contains_key("encrypt_refused_aead_limit"));
        if !self.tail.is_empty() {
            self.out.first_events.push("...".into());
            self.out.first_events.extend(self.tail.drain(..));
        }
        self.out.aux = vec![self.eps[0].sent, self.eps[1].sent];
        self.out.sim_us = self.now;
        self.out.kind_hash = simkit::mix64(self.kinds.0);
        self.out
    }
}

pub fn run_plan(plan: &KPlan) -> Outcome {
    Sim::new(plan).run()
}

// ---------------------------------------------------------------------------------------

pub struct C15;

impl Engine for C15 {
    type Plan = KPlan;

    fn property(&self) -> &'static str {
        "C15"
    }

    fn gen(&self, seed: u64) -> KPlan {
        gen_plan(seed)
    }

    fn run(&self, plan: &KPlan) -> Outcome {
        run_plan(plan)
    }

    fn minimise(&self, plan: &KPlan, oracle: &str) -> KPlan {
        let mut budget = 250u32;
        let mut fails = |p: &KPlan| {
            if budget == 0 {
                return false;
            }
            budget -= 1;
            run_plan(p).violations.iter().any(|v| v.oracle == oracle)
        };
        let mut cur = plan.clone();
        // 1. end the workload right after the violation
        let out = run_plan(&cur);
        if out.aux.len() == 2 && !out.violations.is_empty() {
            let mut p = cur.clone();
            p.packets = [(out.aux[0] + 2).min(p.packets[0]), (out.aux[1] + 2).min(p.packets[1])];
            if let Some(m) = p.mute_b_after {
                p.mute_b_after = Some(m.min(p.packets[1]));
            }
            p.faults.retain(|f| f.ord < p.packets[f.dir as usize]);
            if fails(&p) {
                cur = p;
            }
        }
        // 2. ddmin over the fault list
        let faults = cur.faults.clone();
        let base = cur.clone();
        let min = ddmin(&faults, |fs| {
            let mut p = base.clone();
            p.faults = fs.to_vec();
            fails(&p)
        });
        let mut p = cur.clone();
        p.faults = min;
        if fails(&p) {
            cur = p;
        }
        if cur.jitter_us != 0 {
            let mut p = cur.clone();
            p.jitter_us = 0;
            if fails(&p) {
                cur = p;
            }
        }
        cur
    }

    fn sample(&self, plan: &KPlan, out: &Outcome) -> Value {
        let mut p = plan.clone();
        let nf = p.faults.len();
        p.faults.truncate(12);
        json!({"plan_head": p, "faults_total": nf, "events": out.events, "probes": out.probes, "faults_fired": out.faults,
               "first_events": out.first_events.iter().take(14).collect::<Vec<_>>()})
    }

    fn rule(&self) -> &'static str {
        "plan = f(seed): families updates_under_reordering / forgery_storm / silent_peer; limits, windows, delays, send gaps and an explicit per-packet fault list (drop, dup, delay, bit-flip copy, forged random packet, spurious on_timeout) are all drawn from one simkit::Rng; execution consumes no randomness. non-trivial = the DESIGN 3.15 precondition held for the whole run AND at least one loss/dup/reorder/forgery fired AND (>= 2 key updates completed OR the integrity limit was reached OR encrypt_packet refused with AeadLimitReached); distinct = hash of the sequence of event kinds (send, drop, rx_ok, rx_forged_rejected, derive_next, ...)"
    }

    fn components(&self) -> Value {
        json!({
            "real": ["s2n_quic_core::crypto::application::KeySet", "crypto::application::limited::{Key,Limits}", "packet::short::Short::encode_packet / ProtectedPacket::decode / unprotect / EncryptedShort::decrypt", "packet::KeyPhase", "time::Timer"],
            "stub": ["AEAD (SimKey: generation-tagged keyed hash instead of a cipher)", "header protection (identity mask)", "network (two one-way queues)", "clock", "everything above the KeySet (ack manager, transport's close on AEAD_LIMIT_REACHED is taken as given)"]
        })
    }

    fn assumptions(&self) -> Vec<&'static str> {
        vec![
            "sampling, not proof",
            "precondition (DESIGN 3.15): confidentiality_limit - key_update_window exceeds the packets an endpoint protects between starting an update and deriving the following key; runs where the public API shows it violated are stopped and not counted",
            "the derivation deadline passed to decrypt_packet is now + pto_us as the transport does (datagram.timestamp + PTO)",
            "after AEAD_LIMIT_REACHED the endpoint is treated as closed (the transport closes the connection)",
        ]
    }

    fn unreached(&self) -> Vec<&'static str> {
        vec![
            "connection close with AEAD_LIMIT_REACHED on the wire (transport; only the KeySet's return value is observed)",
            "real cipher suites' limits (s2n-quic-crypto cipher_suite.rs constants) - the instrumented key reports tiny limits",
            "key_update events (transport publisher)",
            "the ApplicationSpace::key_limits() constant window of 10 000 (transport); Limits are set through the public field",
        ]
    }

    fn required_probes(&self) -> Vec<&'static str> {
        vec!["key_update_completed", "integrity_limit_reached", "encrypt_refused_aead_limit", "next_key_derived_on_timer"]
    }

    fn quick_runs(&self) -> u64 {
        std::env::var("LINKSIM_QUICK_RUNS").ok().and_then(|s| s.parse().ok()).unwrap_or(6_000)
    }
}
