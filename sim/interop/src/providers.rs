//! Deterministic replacements for the s2n-quic providers that would otherwise draw from the OS
//! RNG (after qsim/src/providers.rs).  STUB: the values.  REAL: everything the transport does
//! with them.

use core::time::Duration;
use s2n_quic_core::{
    connection::{
        self,
        id::{ConnectionInfo, Generator, Validator},
    },
    endpoint::limits::{ConnectionAttempt, Limiter, Outcome},
    random, stateless_reset,
};
use simkit::{hash_bytes, hashn, Rng};

pub struct SimRandom {
    public: Rng,
    private: Rng,
}

impl SimRandom {
    pub fn new(seed: u64) -> Self {
        SimRandom { public: Rng::new(hashn(seed, &[1])), private: Rng::new(hashn(seed, &[2])) }
    }
}

impl random::Generator for SimRandom {
    fn public_random_fill(&mut self, dest: &mut [u8]) {
        self.public.fill(dest)
    }
    fn private_random_fill(&mut self, dest: &mut [u8]) {
        self.private.fill(dest)
    }
}

impl s2n_quic::provider::random::Provider for SimRandom {
    type Generator = Self;
    type Error = core::convert::Infallible;
    fn start(self) -> Result<Self, Self::Error> {
        Ok(self)
    }
}

#[derive(Debug)]
pub struct SimCidFormat {
    pub len: usize,
    pub key: u64,
    pub counter: u64,
}

impl Generator for SimCidFormat {
    fn generate(&mut self, _info: &ConnectionInfo) -> connection::LocalId {
        let mut id = [0u8; connection::id::MAX_LEN];
        self.counter += 1;
        for (i, c) in id.chunks_mut(8).enumerate() {
            let w = hashn(self.key, &[self.counter, i as u64]).to_le_bytes();
            c.copy_from_slice(&w[..c.len()]);
        }
        (&id[..self.len]).try_into().expect("length checked")
    }
    fn lifetime(&self) -> Option<Duration> {
        None
    }
    fn rotate_handshake_connection_id(&self) -> bool {
        true
    }
}

impl Validator for SimCidFormat {
    fn validate(&self, _info: &ConnectionInfo, buffer: &[u8]) -> Option<usize> {
        if buffer.len() >= self.len {
            Some(self.len)
        } else {
            None
        }
    }
}

#[derive(Debug)]
pub struct SimTokenGen {
    pub key: u64,
}

impl stateless_reset::token::Generator for SimTokenGen {
    /// library default: unattributable packets are not answered with stateless resets
    const ENABLED: bool = false;
    fn generate(&mut self, local_connection_id: &[u8]) -> stateless_reset::Token {
        let h = hash_bytes(local_connection_id);
        let a = hashn(self.key, &[h, 0]).to_le_bytes();
        let b = hashn(self.key, &[h, 1]).to_le_bytes();
        let mut t = [0u8; 16];
        t[..8].copy_from_slice(&a);
        t[8..].copy_from_slice(&b);
        t.into()
    }
}

impl s2n_quic::provider::stateless_reset_token::Provider for SimTokenGen {
    type Generator = Self;
    type Error = core::convert::Infallible;
    fn start(self) -> Result<Self, Self::Error> {
        Ok(self)
    }
}

pub struct RetryLimiter {
    pub retry: bool,
}

impl Limiter for RetryLimiter {
    fn on_connection_attempt(&mut self, _info: &ConnectionAttempt) -> Outcome {
        if self.retry {
            Outcome::retry()
        } else {
            Outcome::allow()
        }
    }
}
