//! Executes one plan inside a seeded bach runtime with the simulated link and returns everything
//! the oracles need (application log, link log, map events, end state).

use crate::{
    link::{self, LinkState, Shared, SimLink},
    plan::*,
    trace,
};
use bach::ext::*;
use s2n_quic_dc::{
    path::secret::Map,
    stream::testing::{server::Handle, Client, Reader, Server, Writer},
};
use serde::Serialize;
use simkit::{hashn, payload_check, payload_fill};
use std::{
    collections::BTreeMap,
    future::Future,
    pin::Pin,
    sync::{
        atomic::{AtomicU64, Ordering},
        Arc, Mutex,
    },
    task::{Context, Poll},
    time::Duration,
};
use tokio::io::{AsyncReadExt, AsyncWriteExt};

pub const ROLE_CW: u8 = 0;
pub const ROLE_SR: u8 = 1;
pub const ROLE_SW: u8 = 2;
pub const ROLE_CR: u8 = 3;
pub const ROLE_CONNECT: u8 = 4;

pub fn role_name(r: u8) -> &'static str {
    match r {
        ROLE_CW => "client_writer",
        ROLE_SR => "server_reader",
        ROLE_SW => "server_writer",
        ROLE_CR => "client_reader",
        _ => "connect",
    }
}

pub const HEADER_LEN: usize = 8;
pub const IDLE_TIMEOUT_NS: u64 = 30_000_000_000;
/// hang detector (a): slack on top of the idle timeout
pub const PARKED_SLACK_NS: u64 = 15_000_000_000;
/// hang detector (b): no application progress for this long while traffic continues (5 x idle timeout)
pub const LIVELOCK_NS: u64 = 150_000_000_000;
/// hang detector (c): the same after 45 s when the traffic since the last progress is massive
pub const BUSY_LIVELOCK_NS: u64 = 45_000_000_000;
pub const BUSY_LIVELOCK_DATAGRAMS: u64 = 300_000;

#[derive(Clone, Debug, Default, Serialize)]
pub struct Actor {
    pub started: bool,
    pub done: bool,
    /// payload bytes written successfully / read
    pub bytes: u64,
    pub ops: u32,
    /// "" (pending) | "eof" | "shutdown_ok" | "dropped" | "ok" | "no_stream" | "err:<kind>:<msg>"
    pub end: String,
    pub t_start_ns: u64,
    pub t_end_ns: u64,
    pub last_op: String,
    pub last_op_start_ns: u64,
    /// offset of the first byte that differs from the payload oracle
    pub mismatch: Option<u64>,
    pub bytes_after_fault: u64,
    /// inside an awaited stream operation (as opposed to a planned pause)
    pub in_op: bool,
}

#[derive(Default, Clone)]
pub struct AppLog {
    pub actors: BTreeMap<(u8, u8, u8), Actor>,
    pub ghosts: Vec<String>,
    pub pending: i64,
    pub last_progress_ns: u64,
    pub last_change_ns: u64,
    pub accepted: u64,
    /// the run was stopped by the harness' datagram budget
    pub over_budget: bool,
    /// accepted streams still reading their 8-byte header: handler id -> start of the pending read
    pub handler_reads: BTreeMap<u64, u64>,
    /// why the hang detector fired
    pub hang_reason: String,
    /// per-packet authentication failures reported by the receivers (snapshot at the end of the run)
    pub rejects: trace::Rejects,
}

#[derive(Clone, Debug, Default, Serialize)]
pub struct ClientEnd {
    pub secrets_len: usize,
    pub contains_server: bool,
    pub next_key_id: Option<u64>,
    pub streams_opened: u64,
    pub handshake_requests: u64,
}

#[derive(Clone, Debug, Default, Serialize)]
pub struct EndState {
    pub clients: Vec<ClientEnd>,
    pub server_secrets_len: usize,
    pub server_handshake_requests: u64,
    pub server_next_key_id: Option<u64>,
}

pub struct RunOut {
    pub app: AppLog,
    pub log: Vec<link::Rec>,
    pub stats: link::LinkStats,
    pub vanish_t_ns: Option<u64>,
    pub last_rx_ns: BTreeMap<String, u64>,
    pub client_ips: Vec<Option<std::net::IpAddr>>,
    pub events: BTreeMap<String, u64>,
    pub counters: BTreeMap<String, u64>,
    pub end: EndState,
    pub end_ns: u64,
    pub capped: bool,
    pub cap_extended: u32,
    pub panic: Option<String>,
    /// (buffers overrun, size of the last one, bytes past its end) from the guarded allocator
    pub heap_overruns: (u64, usize, usize),
    /// the link stopped recording datagrams (memory bound of pathological runs)
    pub log_truncated: bool,
    pub log_truncated_at_ns: u64,
}

fn now_ns() -> u64 {
    bach::time::Instant::now().elapsed_since_start().as_nanos() as u64
}

struct YieldNow(bool);
impl Future for YieldNow {
    type Output = ();
    fn poll(mut self: Pin<&mut Self>, cx: &mut Context<'_>) -> Poll<()> {
        if self.0 {
            Poll::Ready(())
        } else {
            self.0 = true;
            cx.waker().wake_by_ref();
            Poll::Pending
        }
    }
}

#[derive(Clone)]
struct Ctx {
    plan: Arc<Plan>,
    app: Arc<Mutex<AppLog>>,
    link: Shared,
}

impl Ctx {
    fn spawned(&self) {
        let mut a = self.app.lock().unwrap();
        a.pending += 1;
        a.last_change_ns = now_ns();
    }
    fn finished(&self) {
        let mut a = self.app.lock().unwrap();
        a.pending -= 1;
        a.last_change_ns = now_ns();
    }
    fn start(&self, k: (u8, u8, u8)) {
        let mut a = self.app.lock().unwrap();
        let t = now_ns();
        let e = a.actors.entry(k).or_default();
        e.started = true;
        e.t_start_ns = t;
    }
    fn op(&self, k: (u8, u8, u8), name: &str) {
        let mut a = self.app.lock().unwrap();
        let t = now_ns();
        let e = a.actors.entry(k).or_default();
        e.ops += 1;
        e.last_op = name.to_string();
        e.last_op_start_ns = t;
        e.in_op = true;
    }
    /// the awaited operation returned without moving payload bytes (the stream header)
    fn op_done(&self, k: (u8, u8, u8)) {
        let mut a = self.app.lock().unwrap();
        a.actors.entry(k).or_default().in_op = false;
    }
    fn handler_read(&self, id: u64, pending: bool) {
        let mut a = self.app.lock().unwrap();
        if pending {
            let t = now_ns();
            a.handler_reads.insert(id, t);
        } else {
            a.handler_reads.remove(&id);
        }
    }
    fn progress(&self, k: (u8, u8, u8), n: u64) {
        let after_fault = self.link.lock().unwrap().fault_seen();
        let mut a = self.app.lock().unwrap();
        let t = now_ns();
        a.last_progress_ns = t;
        let e = a.actors.entry(k).or_default();
        e.bytes += n;
        e.in_op = false;
        if after_fault {
            e.bytes_after_fault += n;
        }
    }
    fn mismatch(&self, k: (u8, u8, u8), off: u64) {
        let mut a = self.app.lock().unwrap();
        let e = a.actors.entry(k).or_default();
        if e.mismatch.is_none() {
            e.mismatch = Some(off);
        }
    }
    fn end(&self, k: (u8, u8, u8), end: String) {
        let mut a = self.app.lock().unwrap();
        let t = now_ns();
        a.last_change_ns = t;
        let e = a.actors.entry(k).or_default();
        e.in_op = false;
        if !e.done {
            e.done = true;
            e.end = end;
            e.t_end_ns = t;
        }
    }
    fn ghost(&self, s: String) {
        self.app.lock().unwrap().ghosts.push(s);
    }
    async fn jitter(&self, task: u64, k: u64) {
        if self.plan.cfg.yield_key == 0 {
            return;
        }
        let n = hashn(self.plan.cfg.yield_key, &[task, k]) % 4;
        for _ in 0..n {
            YieldNow(false).await;
        }
    }
}

fn err_str(e: &std::io::Error) -> String {
    let mut m = e.to_string();
    m.truncate(80);
    format!("err:{:?}:{}", e.kind(), m)
}

pub fn header_for(key: u64, c: u8, s: u8) -> [u8; HEADER_LEN] {
    let h = hashn(key, &[0xd5c0de, c as u64, s as u64]).to_le_bytes();
    [0xd5, c, s, h[0], h[1], h[2], h[3], h[4]]
}

fn task_id(k: (u8, u8, u8)) -> u64 {
    ((k.0 as u64) << 16) | ((k.1 as u64) << 8) | k.2 as u64
}

async fn pause_for(pauses: &[(u64, u64)], idx: &mut usize, off: u64) {
    while *idx < pauses.len() && pauses[*idx].0 <= off {
        let us = pauses[*idx].1;
        *idx += 1;
        if us > 0 {
            bach::time::sleep(Duration::from_micros(us)).await;
        }
    }
}

async fn writer_task(ctx: Ctx, k: (u8, u8, u8), mut w: Writer, half: Half, header: Option<[u8; HEADER_LEN]>, dir: u64) {
    ctx.start(k);
    if let Some(h) = header {
        ctx.op(k, "write_header");
        if let Err(e) = w.write_all(&h).await {
            ctx.end(k, err_str(&e));
            return;
        }
        ctx.op_done(k);
    }
    let chunk = half.chunk.max(1) as usize;
    let mut buf = vec![0u8; chunk];
    let mut off = 0u64;
    let mut pi = 0usize;
    let mut opn = 0u64;
    while off < half.total {
        pause_for(&half.w_pauses, &mut pi, off).await;
        ctx.jitter(task_id(k), opn).await;
        opn += 1;
        let n = chunk.min((half.total - off) as usize);
        payload_fill(ctx.plan.cfg.data_key, k.0 as u64, k.1 as u64, dir, off, &mut buf[..n]);
        ctx.op(k, "write");
        match w.write(&buf[..n]).await {
            Ok(0) => {
                ctx.end(k, "err:WriteZero:write returned 0".into());
                return;
            }
            Ok(m) => {
                off += m as u64;
                ctx.progress(k, m as u64);
            }
            Err(e) => {
                ctx.end(k, err_str(&e));
                return;
            }
        }
    }
    if half.finish == 0 {
        ctx.op(k, "shutdown");
        match w.shutdown() {
            Ok(()) => ctx.end(k, "shutdown_ok".into()),
            Err(e) => ctx.end(k, err_str(&e)),
        }
    } else {
        drop(w);
        ctx.end(k, "dropped".into());
    }
}

async fn reader_task(ctx: Ctx, k: (u8, u8, u8), mut r: Reader, half: Half, dir: u64) {
    ctx.start(k);
    let rs = half.read.max(1) as usize;
    let mut buf = vec![0u8; rs];
    let mut off = 0u64;
    let mut pi = 0usize;
    let mut opn = 0u64;
    loop {
        if let Some(d) = half.r_drop_at {
            if off >= d {
                drop(r);
                ctx.end(k, "dropped".into());
                return;
            }
        }
        pause_for(&half.r_pauses, &mut pi, off).await;
        ctx.jitter(task_id(k), opn).await;
        opn += 1;
        ctx.op(k, "read");
        match r.read(&mut buf[..rs]).await {
            Ok(0) => {
                ctx.end(k, "eof".into());
                return;
            }
            Ok(n) => {
                if let Some(i) = payload_check(ctx.plan.cfg.data_key, k.0 as u64, k.1 as u64, dir, off, &buf[..n]) {
                    ctx.mismatch(k, off + i as u64);
                }
                off += n as u64;
                ctx.progress(k, n as u64);
            }
            Err(e) => {
                ctx.end(k, err_str(&e));
                return;
            }
        }
    }
}

async fn server_handler(ctx: Ctx, stream: s2n_quic_dc::stream::testing::Stream) {
    let (mut r, w) = stream.into_split();
    // identify the stream from its 8-byte header
    let mut hdr = [0u8; HEADER_LEN];
    let mut have = 0usize;
    let hid = ctx.app.lock().unwrap().accepted;
    while have < HEADER_LEN {
        ctx.handler_read(hid, true);
        let res = r.read(&mut hdr[have..]).await;
        ctx.handler_read(hid, false);
        match res {
            Ok(0) => {
                ctx.ghost(format!("eof_before_header have={have}"));
                ctx.finished();
                return;
            }
            Ok(n) => have += n,
            Err(e) => {
                ctx.ghost(format!("error_before_header have={have} {}", err_str(&e)));
                ctx.finished();
                return;
            }
        }
    }
    let (c, s) = (hdr[1], hdr[2]);
    let known = (c as usize) < ctx.plan.clients.len()
        && (s as usize) < ctx.plan.clients[c as usize].streams.len()
        && hdr == header_for(ctx.plan.cfg.data_key, c, s);
    if !known {
        ctx.ghost(format!("bad_header {hdr:02x?}"));
        ctx.finished();
        return;
    }
    {
        let mut a = ctx.app.lock().unwrap();
        if a.actors.get(&(c, s, ROLE_SR)).map_or(false, |x| x.started) {
            a.ghosts.push(format!("duplicate_stream client={c} stream={s}"));
            drop(a);
            ctx.finished();
            return;
        }
    }
    let sp = ctx.plan.clients[c as usize].streams[s as usize].clone();
    if sp.resp_start == 1 {
        ctx.spawned();
        let ctx2 = ctx.clone();
        let resp = sp.resp.clone();
        async move {
            writer_task(ctx2.clone(), (c, s, ROLE_SW), w, resp, None, 1).await;
            ctx2.finished();
        }
        .spawn_named("sw");
        reader_task(ctx.clone(), (c, s, ROLE_SR), r, sp.req.clone(), 0).await;
    } else {
        reader_task(ctx.clone(), (c, s, ROLE_SR), r, sp.req.clone(), 0).await;
        writer_task(ctx.clone(), (c, s, ROLE_SW), w, sp.resp.clone(), None, 1).await;
    }
    ctx.finished();
}

struct Slots {
    server: Option<Server>,
    handle: Option<Handle>,
    clients: Vec<Option<(Client, Map)>>,
    client_ips: Vec<Option<std::net::IpAddr>>,
    hs_requests: Vec<Arc<AtomicU64>>,
    server_hs_requests: Arc<AtomicU64>,
    streams_opened: Vec<u64>,
}

const COUNTERS: &[&str] = &[
    "stream_packet_lost",
    "stream_packet_spuriously_retransmitted",
    "stream_probe_transmitted",
    "stream_receiver_errored",
    "stream_sender_errored",
    "stream_decrypt_packet",
    "stream_max_data_received",
    "stream_write_blocked",
    "stream_read_blocked",
    "stream_packet_transmitted",
    "stream_control_packet_transmitted",
    "acceptor_udp_packet_dropped",
    "acceptor_udp_stream_enqueued",
];

fn read_counters(sub: &s2n_quic_dc::event::testing::Subscriber, into: &mut BTreeMap<String, u64>) {
    macro_rules! c {
        ($($f:ident),*) => {$(
            *into.entry(stringify!($f).to_string()).or_insert(0) += sub.$f.load(Ordering::Relaxed);
        )*};
    }
    c!(
        stream_packet_lost,
        stream_packet_spuriously_retransmitted,
        stream_probe_transmitted,
        stream_receiver_errored,
        stream_sender_errored,
        stream_decrypt_packet,
        stream_max_data_received,
        stream_write_blocked,
        stream_read_blocked,
        stream_packet_transmitted,
        stream_control_packet_transmitted,
        acceptor_udp_packet_dropped,
        acceptor_udp_stream_enqueued
    );
    let _ = COUNTERS;
}

thread_local! {
    static PANIC_INFO: std::cell::RefCell<Option<String>> = const { std::cell::RefCell::new(None) };
}

pub fn install_panic_hook() {
    static ONCE: std::sync::Once = std::sync::Once::new();
    ONCE.call_once(|| {
        std::panic::set_hook(Box::new(|info| {
            let msg = if let Some(s) = info.payload().downcast_ref::<&str>() {
                s.to_string()
            } else if let Some(s) = info.payload().downcast_ref::<String>() {
                s.clone()
            } else {
                "panic".to_string()
            };
            let loc = info.location().map(|l| format!("{}:{}", l.file(), l.line())).unwrap_or_default();
            let mut m = format!("{msg} @ {loc}");
            m.truncate(600);
            PANIC_INFO.with(|p| {
                let mut p = p.borrow_mut();
                if p.is_none() {
                    *p = Some(m);
                }
            });
        }));
    });
}

pub fn take_panic() -> Option<String> {
    PANIC_INFO.with(|p| p.borrow_mut().take())
}

pub fn execute(plan: &Plan) -> RunOut {
    install_panic_hook();
    let t_exec0 = std::time::Instant::now();
    PANIC_INFO.with(|p| *p.borrow_mut() = None);
    trace::reset();
    let _ = crate::guard::take();
    let plan = Arc::new(plan.clone());
    let link: Shared = Arc::new(Mutex::new(LinkState::new(&plan)));
    let app = Arc::new(Mutex::new(AppLog::default()));
    let n_clients = plan.clients.len();
    let slots = Arc::new(Mutex::new(Slots {
        server: None,
        handle: None,
        clients: (0..n_clients).map(|_| None).collect(),
        client_ips: vec![None; n_clients],
        hs_requests: (0..n_clients).map(|_| Arc::new(AtomicU64::new(0))).collect(),
        server_hs_requests: Arc::new(AtomicU64::new(0)),
        streams_opened: vec![0; n_clients],
    }));
    let result: Arc<Mutex<(EndState, u64, bool, u32, BTreeMap<String, u64>, BTreeMap<String, u64>, AppLog)>> = Default::default();

    let mut rt = bach::environment::default::Runtime::new()
        .with_seed(plan.cfg.bach_seed)
        .with_net_queues(Some(Box::new(SimLink { shared: link.clone() })));

    let ctx = Ctx { plan: plan.clone(), app: app.clone(), link: link.clone() };
    let run = std::panic::catch_unwind(std::panic::AssertUnwindSafe(|| {
        rt.run(|| {
            // ---- server
            {
                let ctx = ctx.clone();
                let slots = slots.clone();
                async move {
                    let server = Server::udp().port(443).mtu(ctx.plan.cfg.server_mtu).build();
                    {
                        let mut l = ctx.link.lock().unwrap();
                        l.server_ip = Some(server.local_addr().ip());
                        l.server_map = Some(server.map().clone());
                    }
                    {
                        let mut s = slots.lock().unwrap();
                        let cnt = s.server_hs_requests.clone();
                        server.map().register_request_handshake(Box::new(move |_addr, _reason| {
                            cnt.fetch_add(1, Ordering::Relaxed);
                            None
                        }));
                        s.handle = Some(server.handle());
                        s.server = Some(server.clone());
                    }
                    while let Ok((stream, _addr)) = server.accept().await {
                        ctx.app.lock().unwrap().accepted += 1;
                        ctx.spawned();
                        server_handler(ctx.clone(), stream).spawn_named("handler");
                    }
                }
                .group("server")
                .spawn_named("server");
            }
            // ---- clients
            for (ci, cp) in plan.clients.iter().enumerate() {
                {
                    let mut a = app.lock().unwrap();
                    a.pending += cp.streams.len() as i64;
                }
                let ctx = ctx.clone();
                let slots = slots.clone();
                let cp = cp.clone();
                async move {
                    let client = Client::builder().mtu(cp.mtu).build();
                    // wait for the server
                    let handle = loop {
                        if let Some(h) = slots.lock().unwrap().handle.clone() {
                            break h;
                        }
                        YieldNow(false).await;
                    };
                    // `handshake_with` is the only way to reach the client's map; it inserts a pair
                    // with a secret drawn from the OS RNG (no seam).  That pair is immediately
                    // superseded by one inserted through the maps' public dc::Path callbacks with
                    // a secret derived from the plan, so that every key, credential id and
                    // ciphertext byte of the run is a function of the plan (a mutated datagram
                    // then parses the same way in every execution).
                    let peer = client.handshake_with(&handle).expect("test_insert_pair");
                    let map = peer.map().clone();
                    drop(peer);
                    {
                        let server = slots.lock().unwrap().server.clone().expect("server is set before its handle");
                        let mut cparams = s2n_quic_core::dc::testing::TEST_APPLICATION_PARAMS;
                        cparams.max_datagram_size = std::sync::atomic::AtomicU16::new(ctx.plan.cfg.server_mtu);
                        let mut sparams = s2n_quic_core::dc::testing::TEST_APPLICATION_PARAMS;
                        sparams.max_datagram_size = std::sync::atomic::AtomicU16::new(cp.mtu);
                        let suite = if hashn(ctx.plan.seed, &[0xc1f4e5]) & 1 == 0 {
                            s2n_quic_core::crypto::tls::CipherSuite::TLS_AES_128_GCM_SHA256
                        } else {
                            s2n_quic_core::crypto::tls::CipherSuite::TLS_AES_256_GCM_SHA384
                        };
                        let client_addr: std::net::SocketAddr = format!("127.0.0.1:{}", 2000 + ci).parse().unwrap();
                        crate::mapdrv::handshake_with_params(
                            &map,
                            server.map(),
                            client_addr,
                            server.local_addr(),
                            suite,
                            hashn(ctx.plan.cfg.data_key, &[0x5ec2e7, ci as u64]),
                            cparams,
                            sparams,
                        )
                        .expect("deterministic path secret");
                    }
                    {
                        let mut s = slots.lock().unwrap();
                        let cnt = s.hs_requests[ci].clone();
                        map.register_request_handshake(Box::new(move |_addr, _reason| {
                            cnt.fetch_add(1, Ordering::Relaxed);
                            None
                        }));
                        s.clients[ci] = Some((client.clone(), map));
                    }
                    for (si, sp) in cp.streams.iter().enumerate() {
                        let ctx = ctx.clone();
                        let slots = slots.clone();
                        let client = client.clone();
                        let handle = handle.clone();
                        let sp = sp.clone();
                        let (c, s) = (ci as u8, si as u8);
                        async move {
                            if sp.open_delay_us > 0 {
                                bach::time::sleep(Duration::from_micros(sp.open_delay_us)).await;
                            }
                            let kc = (c, s, ROLE_CONNECT);
                            ctx.start(kc);
                            ctx.op(kc, "connect");
                            slots.lock().unwrap().streams_opened[ci] += 1;
                            match client.connect_to(&handle).await {
                                Err(e) => {
                                    ctx.end(kc, err_str(&e));
                                    ctx.end((c, s, ROLE_CW), "no_stream".into());
                                    ctx.end((c, s, ROLE_CR), "no_stream".into());
                                }
                                Ok(stream) => {
                                    ctx.end(kc, "ok".into());
                                    if let Ok(a) = stream.local_addr() {
                                        slots.lock().unwrap().client_ips[ci] = Some(a.ip());
                                    }
                                    let (r, w) = stream.into_split();
                                    ctx.spawned();
                                    let ctx2 = ctx.clone();
                                    let resp = sp.resp.clone();
                                    async move {
                                        reader_task(ctx2.clone(), (c, s, ROLE_CR), r, resp, 1).await;
                                        ctx2.finished();
                                    }
                                    .spawn_named("cr");
                                    let hdr = header_for(ctx.plan.cfg.data_key, c, s);
                                    writer_task(ctx.clone(), (c, s, ROLE_CW), w, sp.req.clone(), Some(hdr), 0).await;
                                }
                            }
                            ctx.finished();
                        }
                        .spawn_named("cstream");
                    }
                }
                .group(format!("client{ci}"))
                .spawn_named("client");
            }
            // ---- supervisor (the only primary task)
            {
                let ctx = ctx.clone();
                let slots = slots.clone();
                let result = result.clone();
                async move {
                    let grace_ns = (2 * (ctx.plan.cfg.base_delay_us + ctx.plan.cfg.jitter_us) + 50_000) * 1000;
                    let quiet_limit_ns: u64 = LIVELOCK_NS;
                    let mut cap_ns = ctx.plan.cfg.cap_s * 1_000_000_000;
                    let hard_ns = cap_ns * 12;
                    let mut extended = 0u32;
                    let mut step_us = 500u64;
                    let mut capped = false;
                    let mut over_budget = false;
                    let debug = std::env::var("VERIF_DEBUG").is_ok();
                    let mut hang_reason = String::new();
                    let mut mark = (0u64, 0u64); // (last progress/change time, datagrams at that time)
                    loop {
                        bach::time::sleep(Duration::from_micros(step_us)).await;
                        step_us = (step_us * 2).min(1_000_000);
                        let t = now_ns();
                        let (pending, last_change, last_progress) = {
                            let a = ctx.app.lock().unwrap();
                            (a.pending, a.last_change_ns, a.last_progress_ns)
                        };
                        if pending <= 0 && t.saturating_sub(last_change) >= grace_ns {
                            break;
                        }
                        // hang detector: tasks pending and neither application progress nor any task
                        // start/finish for 50 s (150 s in the vanish family) of virtual time, i.e.
                        // well beyond the 30 s stream idle timeout, or the absolute cap
                        let quiet = t.saturating_sub(last_progress.max(last_change));
                        let (over, last_delivery, datagrams) = {
                            let l = ctx.link.lock().unwrap();
                            if debug {
                                eprintln!("supervisor: t={} ms pending={} quiet={} ms datagrams={} bytes={}", t / 1_000_000, pending, quiet / 1_000_000, l.datagrams, l.bytes_moved);
                            }
                            (l.over_budget, l.last_deliver_ns, l.datagrams)
                        };
                        if last_progress.max(last_change) != mark.0 {
                            mark = (last_progress.max(last_change), datagrams);
                        }
                        // operations currently awaited (planned pauses are not operations)
                        let op_starts: Vec<u64> = {
                            let a = ctx.app.lock().unwrap();
                            a.actors.values().filter(|x| x.in_op && !x.done).map(|x| x.last_op_start_ns).chain(a.handler_reads.values().copied()).collect()
                        };
                        // (a) parked: an operation has been pending and the network silent for longer
                        //     than the stream idle timeout plus 15 s
                        let parked = op_starts.iter().any(|s| t.saturating_sub((*s).max(last_delivery)) > IDLE_TIMEOUT_NS + PARKED_SLACK_NS);
                        // (b) livelocked: datagrams keep flowing, yet no byte was read or written and no
                        //     task finished for LIVELOCK_NS while an operation has been pending that long
                        let livelocked = quiet > quiet_limit_ns && op_starts.iter().any(|s| t.saturating_sub(*s) > quiet_limit_ns);
                        // (c) busy livelock: the same for BUSY_LIVELOCK_NS (1.5 x idle timeout) while at least
                        //     BUSY_LIVELOCK_DATAGRAMS datagrams were exchanged since the last progress
                        let busy = quiet > BUSY_LIVELOCK_NS
                            && datagrams.saturating_sub(mark.1) > BUSY_LIVELOCK_DATAGRAMS
                            && op_starts.iter().any(|s| t.saturating_sub(*s) > BUSY_LIVELOCK_NS);
                        let livelocked = livelocked || busy;
                        if over && !(parked || livelocked) {
                            over_budget = true;
                            break;
                        }
                        if parked || livelocked {
                            // (also when the datagram budget ends the run at the same moment: the
                            // reason decides the cause signature, an empty one read as "parked")
                            over_budget = over;
                            capped = true;
                            hang_reason = if parked {
                                format!("an operation has been pending and no datagram was delivered for more than {} s (idle timeout 30 s)", (IDLE_TIMEOUT_NS + PARKED_SLACK_NS) / 1_000_000_000)
                            } else {
                                format!(
                                    "datagrams still flow ({} since the last progress) but no byte was read or written and no task finished for {} s of virtual time",
                                    datagrams.saturating_sub(mark.1),
                                    quiet / 1_000_000_000
                                )
                            };
                            break;
                        }
                        if t >= cap_ns {
                            if t < hard_ns && quiet < 60_000_000_000 {
                                cap_ns += ctx.plan.cfg.cap_s * 1_000_000_000;
                                extended += 1;
                            } else {
                                capped = true;
                                break;
                            }
                        }
                    }
                    ctx.link.lock().unwrap().closed = true;
                    // end state, observed through public API
                    let mut end = EndState::default();
                    let mut counters = BTreeMap::new();
                    let s = slots.lock().unwrap();
                    let server_addr = s.handle.as_ref().map(|h| AsRef::<Handle>::as_ref(h).clone());
                    let server_local = s.server.as_ref().map(|sv| sv.local_addr());
                    for (ci, c) in s.clients.iter().enumerate() {
                        let mut ce = ClientEnd::default();
                        if let (Some((client, map)), Some(addr)) = (c, server_local) {
                            ce.secrets_len = map.secrets_len();
                            ce.contains_server = map.contains(&addr);
                            ce.next_key_id = map.get_untracked(addr).map(|p| p.seal_once().1.key_id.as_u64());
                            read_counters(&client.subscriber(), &mut counters);
                        }
                        ce.streams_opened = s.streams_opened[ci];
                        ce.handshake_requests = s.hs_requests[ci].load(Ordering::Relaxed);
                        end.clients.push(ce);
                    }
                    let _ = server_addr;
                    if let Some(sv) = &s.server {
                        end.server_secrets_len = sv.map().secrets_len();
                        end.server_next_key_id =
                            sv.map().get_untracked("127.0.0.1:1337".parse().unwrap()).map(|p| p.seal_once().1.key_id.as_u64());
                        read_counters(&sv.subscriber(), &mut counters);
                    }
                    end.server_handshake_requests = s.server_hs_requests.load(Ordering::Relaxed);
                    let mut app_snapshot = ctx.app.lock().unwrap().clone();
                    app_snapshot.over_budget = over_budget;
                    app_snapshot.rejects = trace::take_rejects();
                    app_snapshot.hang_reason = hang_reason;
                    *result.lock().unwrap() = (end, now_ns(), capped, extended, counters, trace::take(), app_snapshot);
                }
                .primary()
                .spawn_named("supervisor");
            }
        });
    }));
    let t_run_done = std::time::Instant::now();
    let panic = match run {
        Ok(()) => None,
        Err(_) => Some(PANIC_INFO.with(|p| p.borrow_mut().take()).unwrap_or_else(|| "panic".into())),
    };
    let client_ips = slots.lock().unwrap().client_ips.clone();
    if panic.is_some() {
        // the executor refuses to close while panicking state is unclear; leak it
        std::mem::forget(rt);
        std::mem::forget(slots);
    } else {
        // drop handles inside the runtime's lifetime, then the runtime
        {
            let mut s = slots.lock().unwrap();
            s.server = None;
            s.handle = None;
            s.clients.clear();
        }
        link.lock().unwrap().server_map = None;
        drop(rt);
    }
    if std::env::var("VERIF_TIMING").is_ok() {
        eprintln!("timing: run {:?} teardown {:?}", t_run_done.duration_since(t_exec0), t_run_done.elapsed());
    }
    let _ = trace::take();
    let (end, end_ns, capped, cap_extended, counters, events, app_snapshot) = std::mem::take(&mut *result.lock().unwrap());
    // after a panic there is no snapshot: fall back to the live log
    let app = if panic.is_some() { std::mem::take(&mut *app.lock().unwrap()) } else { app_snapshot };
    let mut l = link.lock().unwrap();
    RunOut {
        app,
        log: std::mem::take(&mut l.log),
        stats: std::mem::take(&mut l.stats),
        vanish_t_ns: l.vanish_t_ns,
        last_rx_ns: l.last_rx_ns.iter().map(|(k, v)| (k.to_string(), *v)).collect(),
        client_ips,
        events,
        counters,
        end,
        end_ns,
        capped,
        cap_extended,
        panic,
        heap_overruns: crate::guard::take(),
        log_truncated: l.log_truncated,
        log_truncated_at_ns: l.log_truncated_at_ns,
    }
}
