//! C16: `s2n_quic_core::buffer::Reassembler` against a position-set model.
//!
//! Model = set of written stream positions (`RangeSet`, semantically BTreeSet<u64>; the byte at a
//! position is the 64-bit position-keyed hash `common::payload`) + consumed cursor + highest
//! offset seen + final size.
//!
//! What an error must leave unchanged (read off the real code, never more than the property):
//!  * `OutOfRange` / `InvalidFin` (write or skip): everything observable (reassembler.rs:223/231
//!    reject before touching state; `handle_reader_fin` reassembler.rs:111-150 returns before
//!    mutating on the error paths; `skip` reassembler.rs:454-470 checks before mutating).
//!  * `ReaderError` raised before the reader delivered any byte into a slot: everything
//!    observable (cursor snapshot restored reassembler.rs:245-262; a freshly allocated slot is
//!    pushed only after the reader succeeded reassembler.rs:306-313, 394-397; an existing slot is
//!    advanced only after `copy_into` succeeded slot.rs:114,166).
//!  * `ReaderError` after the reader already delivered bytes into earlier slots (fault at a later
//!    chunk): the code restores the *cursors* only; bytes already copied stay.  The property
//!    statement does not speak about reader failures, so this is NOT treated as a violation: the
//!    history continues in "tainted" mode where the delivered positions are `may` positions and
//!    only the weaker oracles apply (content by position, order, exactly-once, accessor
//!    self-consistency, bounds on len).

use crate::{
    common::*,
    rangeset::{union_run_end, RangeSet},
};
use bytes::BytesMut;
use s2n_quic_core::{
    buffer::{
        reader::{storage::Chunk, Storage as ReaderStorage},
        writer::Storage as WriterStorage,
        Error, Reader, Reassembler,
    },
    varint::VarInt,
};
use simkit::Rng;

#[derive(Clone, Copy, Debug, PartialEq, Eq)]
pub enum Class {
    Ok,
    OutOfRange,
    InvalidFin,
    ReaderError,
}

impl Class {
    fn code(self) -> u64 {
        self as u64
    }
}

fn class_of<T, E>(r: &Result<T, Error<E>>) -> Class {
    match r {
        Ok(_) => Class::Ok,
        Err(Error::OutOfRange) => Class::OutOfRange,
        Err(Error::InvalidFin) => Class::InvalidFin,
        Err(Error::ReaderError(_)) => Class::ReaderError,
    }
}

#[derive(Clone, Debug, Default)]
pub struct Model {
    pub must: RangeSet,
    pub may: RangeSet,
    pub cursor: u64,
    pub max_end: u64,
    pub fin: Option<u64>,
    pub tainted: bool,
}

impl Model {
    /// Verdict for a write of [off, off+len) whose reader reports final offset `fin`
    /// (RFC 9000 4.5 final size rules as implemented in reassembler.rs:111-150).
    pub fn write_verdict(&self, off: u64, len: u64, fin: Option<u64>) -> Class {
        let end = match off.checked_add(len) {
            Some(e) if e <= VARINT_MAX => e,
            _ => return Class::OutOfRange,
        };
        match (fin, self.fin) {
            (Some(a), Some(e)) => {
                if a != e {
                    return Class::InvalidFin;
                }
            }
            (Some(a), None) => {
                if self.max_end > a {
                    return Class::InvalidFin;
                }
            }
            (None, Some(e)) => {
                if e < end {
                    return Class::InvalidFin;
                }
            }
            (None, None) => {}
        }
        Class::Ok
    }

    pub fn apply_write(&mut self, off: u64, len: u64, fin: Option<u64>) {
        let end = off + len;
        if let Some(a) = fin {
            self.fin = Some(a);
        }
        self.max_end = self.max_end.max(end);
        let a = off.max(self.cursor);
        if a < end {
            self.must.insert(a, end);
            self.may.remove(a, end);
        }
    }

    pub fn skip_verdict(&self, len: u64) -> Class {
        if len == 0 {
            return Class::Ok;
        }
        let new = match self.cursor.checked_add(len) {
            Some(n) if n <= VARINT_MAX => n,
            _ => return Class::OutOfRange,
        };
        if let Some(f) = self.fin {
            if f < new {
                return Class::InvalidFin;
            }
        }
        Class::Ok
    }

    pub fn apply_skip(&mut self, len: u64) {
        if len == 0 {
            return;
        }
        let new = self.cursor + len;
        self.max_end = self.max_end.max(new);
        self.consume_to(new);
    }

    pub fn consume_to(&mut self, new: u64) {
        self.cursor = new;
        self.must.remove_below(new);
        self.may.remove_below(new);
    }

    pub fn lower_len(&self) -> u64 {
        self.must.run_end(self.cursor) - self.cursor
    }

    pub fn upper_len(&self) -> u64 {
        if self.may.is_empty() {
            self.lower_len()
        } else {
            union_run_end(&self.must, &self.may, self.cursor) - self.cursor
        }
    }
}

// ---------------------------------------------------------------------------------------
// fault-injecting reader

#[derive(Clone, Copy, Debug, PartialEq, Eq)]
pub struct Injected;

/// A `Reader` over a slice that exposes its data in `chunk`-sized pieces to `read_chunk` and
/// fails at storage call number `fail_at` (and on every later call).
pub struct FaultReader<'a> {
    off: u64,
    data: &'a [u8],
    final_off: Option<u64>,
    chunk: usize,
    pub calls: u32,
    fail_at: Option<u32>,
    pub fired: bool,
    /// ranges handed to a destination through copy_into / partial_copy_into
    pub delivered: Vec<(u64, u64)>,
}

impl<'a> FaultReader<'a> {
    pub fn new(off: u64, data: &'a [u8], final_off: Option<u64>, chunk: usize, fail_at: Option<u32>) -> Self {
        FaultReader { off, data, final_off, chunk: chunk.max(1), calls: 0, fail_at, fired: false, delivered: vec![] }
    }

    #[inline]
    fn tick(&mut self) -> Result<(), Injected> {
        let n = self.calls;
        self.calls += 1;
        if self.fired || self.fail_at == Some(n) {
            self.fired = true;
            return Err(Injected);
        }
        Ok(())
    }

    pub fn delivered_bytes(&self) -> u64 {
        self.delivered.iter().map(|(a, b)| b - a).sum()
    }
}

impl ReaderStorage for FaultReader<'_> {
    type Error = Injected;

    #[inline]
    fn buffered_len(&self) -> usize {
        self.data.len()
    }

    #[inline]
    fn read_chunk(&mut self, watermark: usize) -> Result<Chunk<'_>, Self::Error> {
        self.tick()?;
        let n = self.data.len().min(watermark).min(self.chunk);
        let (head, tail) = self.data.split_at(n);
        self.data = tail;
        self.off += n as u64;
        Ok(Chunk::Slice(head))
    }

    #[inline]
    fn partial_copy_into<Dest>(&mut self, dest: &mut Dest) -> Result<Chunk<'_>, Self::Error>
    where
        Dest: WriterStorage + ?Sized,
    {
        self.tick()?;
        // everything that fits is returned as the trailing chunk (allowed by the contract:
        // "the returned chunk must fit into the target destination")
        let n = self.data.len().min(dest.remaining_capacity());
        let (head, tail) = self.data.split_at(n);
        self.data = tail;
        if n > 0 {
            self.delivered.push((self.off, self.off + n as u64));
        }
        self.off += n as u64;
        Ok(Chunk::Slice(head))
    }

    #[inline]
    fn copy_into<Dest>(&mut self, dest: &mut Dest) -> Result<(), Self::Error>
    where
        Dest: WriterStorage + ?Sized,
    {
        self.tick()?;
        // contract: fill the destination completely or exhaust the buffered data
        let n = self.data.len().min(dest.remaining_capacity());
        let (head, tail) = self.data.split_at(n);
        for piece in head.chunks(self.chunk) {
            dest.put_slice(piece);
        }
        self.data = tail;
        if n > 0 {
            self.delivered.push((self.off, self.off + n as u64));
        }
        self.off += n as u64;
        Ok(())
    }
}

impl Reader for FaultReader<'_> {
    #[inline]
    fn current_offset(&self) -> VarInt {
        VarInt::new(self.off).unwrap_or(VarInt::MAX)
    }

    #[inline]
    fn final_offset(&self) -> Option<VarInt> {
        self.final_off.and_then(|f| VarInt::new(f).ok())
    }
}

// ---------------------------------------------------------------------------------------
// executor

struct Exec<'r> {
    real: Reassembler,
    m: Model,
    rec: &'r mut Rec,
    popped_bytes: u64,
    overlaps: u64,
    rejected: u64,
    faults_fired: u64,
}

fn region_of(off: u64) -> u8 {
    // allocation size table, reassembler.rs:637-650
    if off >= 1_048_576 {
        3
    } else if off >= 262_144 {
        2
    } else if off >= 65_536 {
        1
    } else {
        0
    }
}

impl Exec<'_> {
    fn write_probes(&mut self, off: u64, len: u64) {
        let end = off + len;
        let s = &mut self.rec.stats;
        if len == 0 {
            s.probe("zero_len_write");
            return;
        }
        if off / 4096 != (end - 1) / 4096 {
            s.probe("write_straddled_4096_slot_boundary");
        }
        if region_of(off) != region_of(end - 1) {
            s.probe("write_straddled_alloc_region_boundary");
        }
        match region_of(off) {
            0 => s.probe("write_in_4k_region"),
            1 => s.probe("write_in_16k_region"),
            2 => s.probe("write_in_32k_region"),
            _ => s.probe("write_in_64k_region"),
        }
        if end > VARINT_MAX - (1 << 20) {
            s.probe("write_near_varint_max");
        }
        let a = off.max(self.m.cursor);
        let mut ov = false;
        if off < self.m.cursor {
            s.probe("write_below_cursor");
            ov = true;
        }
        if a < end && self.m.must.intersects(a, end) {
            if self.m.must.covers(a, end) {
                s.probe("write_duplicate_of_buffered");
            } else {
                s.probe("write_overlaps_buffered");
            }
            ov = true;
        }
        if ov {
            self.overlaps += 1;
        }
        let contig = self.m.must.run_end(self.m.cursor);
        if a > contig {
            s.probe("write_leaves_gap");
        } else if end > contig && self.m.must.contains(end) {
            s.probe("write_fills_gap");
        }
    }

    /// compare every observer with the model
    fn observers(&mut self, kind: &str) {
        if self.rec.failed() {
            return;
        }
        let real = &self.real;
        let m = &self.m;
        let len = real.len() as u64;
        let cons = real.consumed_len();
        let total = real.total_received_len();
        let fs = real.final_size();
        self.rec.out(0x0b5, len, cons);
        self.rec.out(total, fs.unwrap_or(u64::MAX), 0);
        self.rec.note(|| format!("[len {len}, consumed {cons}, total_received {total}, final_size {fs:?}]"));
        if cons != m.cursor {
            return self.rec.fail("C16.reasm.consumed_len", kind, format!("consumed_len()={cons}, model cursor={}", m.cursor));
        }
        let (lo, hi) = (m.lower_len(), m.upper_len());
        if len < lo || len > hi {
            return self.rec.fail(
                "C16.reasm.len",
                kind,
                format!("len()={len}, model contiguous bytes at cursor {} = {lo}{}", m.cursor, if hi != lo { format!("..={hi} (tainted)") } else { String::new() }),
            );
        }
        if total != cons + len {
            return self.rec.fail("C16.reasm.total_received_len", kind, format!("total_received_len()={total} != consumed_len()+len()={}", cons + len));
        }
        if !m.tainted && fs != m.fin {
            return self.rec.fail("C16.reasm.final_size", kind, format!("final_size()={fs:?}, model {:?}", m.fin));
        }
        if real.is_empty() != (len == 0) {
            return self.rec.fail("C16.reasm.is_empty", kind, format!("is_empty()={} but len()={len}", real.is_empty()));
        }
        if real.report().0 as u64 != len {
            return self.rec.fail("C16.reasm.report", kind, format!("report().0={} != len()={len}", real.report().0));
        }
        if real.is_writing_complete() != (fs == Some(total)) {
            return self.rec.fail(
                "C16.reasm.is_writing_complete",
                kind,
                format!("is_writing_complete()={} with final_size {fs:?}, total_received_len {total}", real.is_writing_complete()),
            );
        }
        if real.is_reading_complete() != (fs == Some(cons)) {
            return self.rec.fail(
                "C16.reasm.is_reading_complete",
                kind,
                format!("is_reading_complete()={} with final_size {fs:?}, consumed_len {cons}", real.is_reading_complete()),
            );
        }
        // buffered content, without consuming it (bounded cost)
        if len <= 16_384 || self.rec.cur % 16 == 0 {
            let mut pos = cons;
            let mut budget = 262_144usize;
            for chunk in real.iter() {
                let take = chunk.len().min(budget);
                if let Some(i) = payload_mismatch(pos, &chunk[..take]) {
                    return self.rec.fail(
                        "C16.reasm.buffered_content",
                        kind,
                        format!("buffered byte at stream position {} is not the byte written there", pos + i as u64),
                    );
                }
                pos += chunk.len() as u64;
                budget -= take;
                if budget == 0 {
                    break;
                }
            }
            if budget > 0 && pos != cons + len {
                return self.rec.fail("C16.reasm.iter", kind, format!("iter() yields {} bytes, len()={len}", pos - cons));
            }
        }
        if fs.is_some() && fs == Some(cons) {
            self.rec.stats.probe("reading_complete_reached");
        }
    }

    /// bytes handed out: must be the next `n` stream positions, each written before
    fn consumed(&mut self, kind: &str, data: &[&[u8]], max: u64, before_len: u64) {
        let mut pos = self.m.cursor;
        let n: u64 = data.iter().map(|d| d.len() as u64).sum();
        if n > max {
            return self.rec.fail("C16.reasm.pop_exceeds_limit", kind, format!("{n} bytes handed out, limit {max}"));
        }
        if n > before_len {
            return self.rec.fail("C16.reasm.pop_exceeds_len", kind, format!("{n} bytes handed out, len() before was {before_len}"));
        }
        for d in data {
            if let Some(i) = payload_mismatch(pos, d) {
                return self.rec.fail(
                    "C16.reasm.popped_content",
                    kind,
                    format!("byte handed out for stream position {} is not the byte written there", pos + i as u64),
                );
            }
            pos += d.len() as u64;
        }
        // every handed-out position must have been written (must or, when tainted, may)
        let end = self.m.cursor + n;
        if union_run_end(&self.m.must, &self.m.may, self.m.cursor) < end {
            return self.rec.fail("C16.reasm.popped_unwritten", kind, format!("positions {}..{end} handed out but not all were written", self.m.cursor));
        }
        self.popped_bytes += n;
        *self.rec.stats.probes.entry("bytes_handed_out_and_content_checked").or_insert(0) += n;
        self.m.consume_to(end);
    }

    fn write_result(&mut self, kind: &'static str, off: u64, len: u64, fin: Option<u64>, got: Class, fired: bool, delivered: &[(u64, u64)]) {
        let want = self.m.write_verdict(off, len, fin);
        self.rec.out(0x77, got.code(), fired as u64);
        self.rec.note(|| format!("{got:?}"));
        if fired {
            self.faults_fired += 1;
            if got != Class::ReaderError {
                return self.rec.fail("C16.reasm.reader_error_swallowed", kind, format!("the reader failed but write_reader returned {got:?}"));
            }
            let dbytes: u64 = delivered.iter().map(|(a, b)| b - a).sum();
            if dbytes == 0 {
                self.rec.stats.fault("reader_err_before_any_byte");
            } else {
                self.rec.stats.fault("reader_err_after_partial_copy");
                self.m.tainted = true;
                for &(a, b) in delivered {
                    let a = a.max(self.m.cursor);
                    if a < b {
                        self.m.may.insert(a, b);
                    }
                }
            }
            return;
        }
        if got == Class::ReaderError {
            return self.rec.fail("C16.reasm.spurious_reader_error", kind, "ReaderError although the reader never failed".into());
        }
        let fin_involved = got == Class::InvalidFin || want == Class::InvalidFin;
        if self.m.tainted && fin_involved {
            // after a partial reader failure the real cursors were rolled back while data stayed;
            // final-size verdicts are not compared (see module doc); follow the real buffer
            if got == Class::Ok {
                self.write_probes(off, len);
                self.m.apply_write(off, len, fin);
            }
            return;
        }
        if got != want {
            let oracle = match (got, want) {
                (Class::Ok, _) => "C16.reasm.invalid_write_accepted",
                (_, Class::Ok) => "C16.reasm.valid_write_rejected",
                _ => "C16.reasm.wrong_error",
            };
            return self.rec.fail(
                oracle,
                kind,
                format!(
                    "write [{off}, {}) fin={fin:?} returned {got:?}, model {want:?} (cursor {}, highest offset {}, final size {:?})",
                    off + len,
                    self.m.cursor,
                    self.m.max_end,
                    self.m.fin
                ),
            );
        }
        match got {
            Class::Ok => {
                self.write_probes(off, len);
                if fin.is_some() && self.m.fin.is_none() {
                    self.rec.stats.probe("final_size_established");
                }
                self.m.apply_write(off, len, fin);
            }
            Class::InvalidFin => {
                self.rejected += 1;
                self.rec.stats.probe("write_rejected_by_final_size");
            }
            Class::OutOfRange => {
                self.rejected += 1;
                self.rec.stats.probe("write_rejected_out_of_range");
            }
            Class::ReaderError => {}
        }
    }

    fn step(&mut self, op: &Op) {
        match *op {
            Op::W { off, len, fin } => {
                if off > VARINT_MAX {
                    self.rec.stats.skipped_precondition += 1;
                    return;
                }
                self.rec.stats.op(if fin { "reasm.write_at_fin" } else { "reasm.write_at" });
                let data = payload(off, len as usize);
                let o = VarInt::new(off).unwrap();
                let r = if fin { self.real.write_at_fin(o, &data) } else { self.real.write_at(o, &data) };
                let end = off.saturating_add(len as u64);
                let f = if fin { Some(end) } else { None };
                self.write_result("write_at", off, len as u64, f, class_of(&r), false, &[]);
                self.observers("write_at");
            }
            Op::R { off, len, fin, chunk, fail } => {
                if off > VARINT_MAX {
                    self.rec.stats.skipped_precondition += 1;
                    return;
                }
                self.rec.stats.op("reasm.write_reader");
                let data = payload(off, len as usize);
                let end = off.saturating_add(len as u64);
                let f = fin.and_then(|extra| end.checked_add(extra)).filter(|a| *a <= VARINT_MAX && end <= VARINT_MAX);
                let mut reader = FaultReader::new(off, &data, f, chunk as usize, fail);
                let r = self.real.write_reader(&mut reader);
                let (fired, calls) = (reader.fired, reader.calls);
                let delivered = std::mem::take(&mut reader.delivered);
                if fail.is_some() && !fired {
                    self.rec.stats.fault("reader_err_planned_not_reached");
                }
                if calls >= 2 {
                    self.rec.stats.probe("reader_multiple_storage_calls");
                }
                self.write_result("write_reader", off, len as u64, f, class_of(&r), fired, &delivered);
                self.observers("write_reader");
            }
            Op::Pop | Op::PopW { .. } => {
                let w = match *op {
                    Op::PopW { w } => w.min(usize::MAX as u64) as usize,
                    _ => usize::MAX,
                };
                self.rec.stats.op(if matches!(op, Op::Pop) { "reasm.pop" } else { "reasm.pop_watermarked" });
                let before = self.real.len() as u64;
                let r = if matches!(op, Op::Pop) { self.real.pop() } else { self.real.pop_watermarked(w) };
                let n = r.as_ref().map_or(0, |c| c.len() as u64);
                self.rec.out(0x90, n, before);
                self.rec.note(|| format!("{n} bytes"));
                let expect_some = before > 0 && w > 0;
                match r {
                    None if expect_some => {
                        self.rec.fail("C16.reasm.pop_none_with_data", "pop", format!("returned None although len() was {before} and watermark {w}"));
                    }
                    None => {}
                    Some(c) if c.is_empty() => {
                        self.rec.fail("C16.reasm.pop_empty_chunk", "pop", "returned Some(empty chunk)".into());
                    }
                    Some(c) => {
                        if n < before.min(w as u64) {
                            self.rec.stats.probe("pop_returned_part_of_buffered");
                        }
                        self.consumed("pop", &[&c[..]], w as u64, before);
                    }
                }
                self.observers("pop");
            }
            Op::Copy { limit, queue } => {
                self.rec.stats.op(if queue { "reasm.copy_into_queue" } else { "reasm.copy_into_vec" });
                let before = self.real.len() as u64;
                let want = before.min(limit as u64);
                if queue {
                    let mut dest: Vec<BytesMut> = vec![];
                    {
                        let mut lim = dest.with_write_limit(limit as usize);
                        let _ = self.real.copy_into(&mut lim);
                    }
                    let n: u64 = dest.iter().map(|c| c.len() as u64).sum();
                    self.rec.out(0x91, n, before);
                    self.rec.note(|| format!("{n} bytes in {} chunks", dest.len()));
                    if n != want {
                        self.rec.fail("C16.reasm.copy_into_len", "copy_into", format!("copied {n} bytes, expected min(limit {limit}, len {before})"));
                    } else {
                        let parts: Vec<&[u8]> = dest.iter().map(|c| &c[..]).collect();
                        self.consumed("copy_into", &parts, limit as u64, before);
                    }
                } else {
                    let mut dest: Vec<u8> = vec![];
                    {
                        let mut lim = dest.with_write_limit(limit as usize);
                        let _ = self.real.copy_into(&mut lim);
                    }
                    let n = dest.len() as u64;
                    self.rec.out(0x92, n, before);
                    self.rec.note(|| format!("{n} bytes"));
                    if n != want {
                        self.rec.fail("C16.reasm.copy_into_len", "copy_into", format!("copied {n} bytes, expected min(limit {limit}, len {before})"));
                    } else {
                        self.consumed("copy_into", &[&dest[..]], limit as u64, before);
                    }
                }
                self.observers("copy_into");
            }
            Op::Skip { len } => {
                if len > VARINT_MAX {
                    self.rec.stats.skipped_precondition += 1;
                    return;
                }
                self.rec.stats.op("reasm.skip");
                let r = self.real.skip(VarInt::new(len).unwrap());
                let got = class_of(&r);
                let want = self.m.skip_verdict(len);
                self.rec.out(0x93, got.code(), 0);
                self.rec.note(|| format!("{got:?}"));
                let fin_involved = got == Class::InvalidFin || want == Class::InvalidFin;
                if self.m.tainted && fin_involved {
                    if got == Class::Ok {
                        self.m.apply_skip(len);
                    }
                } else if got != want {
                    self.rec.fail(
                        if got == Class::Ok { "C16.reasm.invalid_skip_accepted" } else { "C16.reasm.valid_skip_rejected" },
                        "skip",
                        format!("skip({len}) at cursor {} returned {got:?}, model {want:?} (final size {:?})", self.m.cursor, self.m.fin),
                    );
                } else if got == Class::Ok {
                    if len > 0 && self.m.must.intersects(self.m.cursor, self.m.cursor.saturating_add(len)) {
                        self.rec.stats.probe("skip_discarded_buffered_data");
                    }
                    self.m.apply_skip(len);
                } else {
                    self.rejected += 1;
                    self.rec.stats.probe("skip_rejected");
                }
                self.observers("skip");
            }
            Op::Reset => {
                self.rec.stats.op("reasm.reset");
                self.real.reset();
                self.m = Model::default();
                if self.real != Reassembler::new() {
                    self.rec.fail("C16.reasm.reset", "reset", "a reset buffer differs from a new one".into());
                }
                self.observers("reset");
            }
            _ => self.rec.stats.skipped_precondition += 1,
        }
        if self.m.tainted {
            // final size is not compared in tainted mode; follow the real buffer
            self.m.fin = self.real.final_size();
        }
    }
}

pub fn execute(h: &History, trace: bool) -> Outcome {
    let mut rec = Rec::new("C16", "reassembler", trace);
    let (nontrivial, tainted_ops);
    {
        let mut e = Exec { real: Reassembler::new(), m: Model::default(), rec: &mut rec, popped_bytes: 0, overlaps: 0, rejected: 0, faults_fired: 0 };
        let mut t_ops = 0u64;
        for (i, op) in h.ops.iter().enumerate() {
            e.rec.begin(i, op);
            e.step(op);
            if e.m.tainted {
                t_ops += 1;
            }
            if e.rec.failed() {
                break;
            }
        }
        // final drain: everything contiguous must come out, each byte once
        if !e.rec.failed() {
            e.rec.cur = h.ops.len();
            if e.rec.trace_on {
                e.rec.trace.push("(final drain: pop until empty)".into());
            }
            let mut guard = 0;
            while e.real.len() > 0 && !e.rec.failed() && guard < 100_000 {
                let before = e.real.len() as u64;
                match e.real.pop() {
                    Some(c) => e.consumed("final_drain", &[&c[..]], u64::MAX, before),
                    None => e.rec.fail("C16.reasm.pop_none_with_data", "final_drain", format!("pop() returned None although len() was {before}")),
                }
                guard += 1;
            }
            if !e.rec.failed() {
                e.observers("final_drain");
            }
        }
        nontrivial = e.overlaps >= 1 && (e.rejected >= 1 || e.faults_fired >= 1) && e.popped_bytes >= 1;
        tainted_ops = t_ops;
    }
    if tainted_ops > 0 {
        rec.stats.probe("history_entered_tainted_mode");
        *rec.stats.probes.entry("ops_checked_with_weak_oracles_only").or_insert(0) += tainted_ops;
    }
    rec.finish(nontrivial)
}

// ---------------------------------------------------------------------------------------
// generator

fn gen_len(rng: &mut Rng) -> u32 {
    match rng.below(100) {
        0..=2 => 0,
        3..=22 => rng.range(1, 16) as u32,
        23..=64 => rng.range(17, 1500) as u32,
        65..=84 => rng.range(1500, 9000) as u32,
        85..=94 => rng.pick(&[4095u32, 4096, 4097, 8192, 12288, 16384]),
        _ => rng.range(9000, 70_000) as u32,
    }
}

const ANCHORS: [u64; 14] =
    [0, 4095, 4096, 4097, 8192, 65_535, 65_536, 65_537, 262_143, 262_144, 1_048_575, 1_048_576, 1_048_577, VARINT_MAX];

struct Gen {
    m: Model,
    last: Vec<(u64, u32)>,
    base: u64,
}

impl Gen {
    fn point(&self, rng: &mut Rng) -> u64 {
        let m = &self.m;
        let contig = m.must.run_end(m.cursor);
        let next_b = |x: u64| (x / 4096 + 1) * 4096;
        // `contig` (start of the first gap) is listed several times: filling the gap is what makes
        // data poppable
        let mut c: Vec<u64> = vec![m.cursor, contig, contig, contig, contig, m.max_end, next_b(m.cursor), next_b(contig), next_b(m.max_end), self.base];
        // allocation-size region edges above the cursor
        for e in [65_536u64, 262_144, 1_048_576] {
            if e >= m.cursor && e - m.cursor < 200_000 {
                c.push(e);
                c.push(e);
            }
        }
        if let Some(&(o, l)) = self.last.last() {
            c.push(o);
            c.push(o + l as u64);
        }
        if self.last.len() > 1 {
            let (o, l) = self.last[rng.below(self.last.len() as u64) as usize];
            c.push(o);
            c.push(o + l as u64);
        }
        if let Some(f) = m.fin {
            c.push(f);
            c.push(f);
        }
        if rng.chance(1, 12) {
            return rng.pick(&ANCHORS);
        }
        rng.pick(&c)
    }

    fn offset(&self, rng: &mut Rng, len: u32) -> u64 {
        let p = self.point(rng);
        let len = len as u64;
        let off = match rng.below(100) {
            0..=24 => p,
            25..=54 => p.saturating_sub(rng.range(1, len.max(1))),
            55..=69 => p.saturating_add(rng.range(1, 64)),
            70..=79 => p.saturating_sub(len),
            80..=84 => p.saturating_sub(len + 1),
            85..=89 => p.saturating_add(1),
            _ => {
                let lo = self.m.cursor.saturating_sub(64);
                let hi = self.m.max_end.saturating_add(6000);
                rng.range(lo, hi.max(lo))
            }
        };
        off.min(VARINT_MAX)
    }

    fn apply(&mut self, op: &Op) {
        // the generator's model only steers offsets; it assumes a pop returns up to the next
        // 4096 boundary and that a reader fault rejects the whole write
        let m = &mut self.m;
        match *op {
            Op::W { off, len, fin } => {
                let f = if fin { Some(off.saturating_add(len as u64)) } else { None };
                if m.write_verdict(off, len as u64, f) == Class::Ok {
                    m.apply_write(off, len as u64, f);
                    self.last.push((off, len));
                }
            }
            Op::R { off, len, fin, fail, .. } => {
                let end = off.saturating_add(len as u64);
                let f = fin.and_then(|x| end.checked_add(x)).filter(|a| *a <= VARINT_MAX);
                if fail.is_none() && m.write_verdict(off, len as u64, f) == Class::Ok {
                    m.apply_write(off, len as u64, f);
                    self.last.push((off, len));
                }
            }
            Op::Pop => {
                let n = m.lower_len().min(4096 - m.cursor % 4096);
                m.consume_to(m.cursor + n);
            }
            Op::PopW { w } => {
                let n = m.lower_len().min(4096 - m.cursor % 4096).min(w);
                m.consume_to(m.cursor + n);
            }
            Op::Copy { limit, .. } => {
                let n = m.lower_len().min(limit as u64);
                m.consume_to(m.cursor + n);
            }
            Op::Skip { len } => {
                if m.skip_verdict(len) == Class::Ok {
                    m.apply_skip(len);
                }
            }
            Op::Reset => {
                *m = Model::default();
                self.last.clear();
            }
            _ => {}
        }
        if self.last.len() > 12 {
            self.last.remove(0);
        }
    }
}

pub fn generate(seed: u64) -> History {
    let mut rng = Rng::new(seed ^ 0x7ea5_5e3b_1e77);
    let n = rng.range(1, 200) as usize;
    let base = match rng.below(100) {
        0..=29 => 0,
        30..=39 => 4096 * rng.range(1, 15),
        40..=51 => 65_536,
        52..=61 => 262_144,
        62..=73 => 1_048_576,
        74..=83 => VARINT_MAX,
        84..=91 => 1u64 << rng.range(21, 61),
        _ => rng.range(0, 2_000_000),
    };
    // faults at a later storage call can leave a partial write behind (weak-oracle mode); keep
    // them to a minority of the histories so that most histories stay under the strict oracles
    let partial_ok = rng.chance(25, 100);
    let mut g = Gen { m: Model::default(), last: vec![], base };
    let mut ops: Vec<Op> = Vec::with_capacity(n);
    if base > 0 && rng.chance(7, 10) {
        let cap = rng.pick(&[1u64, 100, 5000, 20_000, 80_000]);
        let back = rng.range(0, base.min(cap));
        let op = Op::Skip { len: base - back };
        g.apply(&op);
        ops.push(op);
    }
    while ops.len() < n {
        let mut k = rng.below(100);
        // once everything up to the final size was read nothing interesting can happen any more:
        // start over on the same buffer object most of the time
        if g.m.fin == Some(g.m.cursor) && rng.chance(1, 2) {
            k = 93;
        }
        let op = match k {
            0..=58 => {
                let reader = k >= 44;
                let mut len = if !reader {
                    gen_len(&mut rng)
                } else {
                    match rng.below(4) {
                        0 => gen_len(&mut rng),
                        1 => rng.range(4000, 9000) as u32,
                        2 => rng.range(1, 200) as u32,
                        _ => rng.range(8000, 40_000) as u32,
                    }
                };
                let mut off = g.offset(&mut rng, len);
                let mut fin = false;
                if let Some(f) = g.m.fin {
                    // a final size is established: mostly stay compatible with it, and aim at it
                    match rng.below(100) {
                        0..=64 => {
                            if off > f {
                                off = rng.range(g.m.cursor.min(f), f);
                            }
                            len = (len as u64).min(f - off) as u32;
                            fin = off + len as u64 == f && rng.chance(1, 2);
                        }
                        65..=74 => {
                            off = f.saturating_sub(len as u64);
                            len = (len as u64).min(f) as u32;
                            fin = true;
                        }
                        75..=82 => off = f.saturating_sub(len as u64).saturating_add(1),
                        83..=89 => fin = true,
                        _ => {}
                    }
                } else if rng.chance(4, 100) {
                    fin = true;
                    if rng.chance(2, 3) {
                        // a fin that ends at/just above/just below the highest offset seen
                        off = (g.m.max_end.saturating_add(rng.pick(&[0u64, 0, 0, 1, 50, 5000]))).saturating_sub(len as u64 + rng.pick(&[0u64, 0, 0, 1]));
                    }
                }
                let off = off.min(VARINT_MAX);
                if !reader {
                    Op::W { off, len, fin }
                } else {
                    let fin = if fin {
                        Some(0)
                    } else if g.m.fin.is_none() && rng.chance(2, 100) {
                        // the reader knows the final offset but carries only part of the data
                        Some(rng.range(1, 5000))
                    } else {
                        g.m.fin.filter(|_| rng.chance(1, 10)).and_then(|f| f.checked_sub(off + len as u64))
                    };
                    let chunk = rng.pick(&[1u32 << 30, 1 << 30, 4096, 1000, 100, 7]);
                    let fail = if rng.chance(50, 100) { Some(if partial_ok { rng.pick(&[0u32, 0, 1, 1, 2, 3, 5]) } else { 0 }) } else { None };
                    Op::R { off, len, fin, chunk, fail }
                }
            }
            59..=72 => Op::Pop,
            73..=80 => Op::PopW { w: rng.pick(&[0u64, 1, 2, 100, 4095, 4096, 4097, 65_536, u64::MAX]) },
            81..=86 => Op::Copy { limit: rng.pick(&[0u32, 1, 100, 4096, 5000, 70_000]), queue: rng.chance(1, 2) },
            87..=92 => {
                let m = &g.m;
                let contig = m.must.run_end(m.cursor);
                let len = match rng.below(20) {
                    0 => 0,
                    1..=5 => rng.range(1, 100),
                    6..=8 => (contig - m.cursor).saturating_sub(rng.below(3)),
                    9..=11 => 4096 - m.cursor % 4096,
                    12..=13 => rng.range(1, (contig - m.cursor).max(1)),
                    14 => (m.max_end - m.cursor.min(m.max_end)).saturating_add(rng.range(0, 5000)),
                    15 => VARINT_MAX - m.cursor,
                    16 => (VARINT_MAX - m.cursor).saturating_add(1).min(VARINT_MAX),
                    17..=18 => m.fin.map_or(rng.range(1, 5000), |f| f.saturating_sub(m.cursor).saturating_add(rng.below(2))),
                    _ => rng.range(1, 70_000),
                };
                // with a final size most skips stay at or below it
                let len = match m.fin {
                    Some(f) if rng.chance(3, 4) => len.min(f.saturating_sub(m.cursor)),
                    _ => len,
                };
                Op::Skip { len: len.min(VARINT_MAX) }
            }
            93 => Op::Reset,
            _ => {
                // in-order burst: a few back-to-back packets at the end of the received data
                let at = if rng.chance(1, 2) { g.m.max_end.max(g.m.cursor) } else { g.m.must.run_end(g.m.cursor) };
                let len = rng.range(1, 3000) as u32;
                Op::W { off: at.min(VARINT_MAX), len, fin: false }
            }
        };
        g.apply(&op);
        ops.push(op);
    }
    History { property: "C16".into(), structure: "reassembler".into(), seed, param: 0, ops }
}
