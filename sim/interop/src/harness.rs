//! Check driver: seeded search over plans, every plan executed twice (reproducibility modulo
//! ciphertext), oracle evaluation, minimisation, replay, evidence.

use crate::{
    oracle::{self, Verdict},
    plan::*,
    run::{self, RunOpts, RunOutput},
};
use serde_json::json;
use simkit::{ddmin, CheckArgs, Violation};
use std::{
    collections::{BTreeMap, BTreeSet},
    sync::{
        atomic::{AtomicBool, AtomicU64, Ordering},
        Arc, Mutex,
    },
    time::{Duration, Instant},
};

pub fn run_plan(plan: &Plan, verbose: bool) -> (RunOutput, Verdict) {
    let out = run::execute(plan, RunOpts { verbose });
    let v = oracle::evaluate(&out);
    (out, v)
}

// ---------------------------------------------------------------------------------------
// minimisation

fn still_fails(plan: &Plan, oracle_id: &str, budget: &mut u32) -> bool {
    if *budget == 0 {
        return false;
    }
    *budget -= 1;
    let mut p = plan.clone();
    finish(&mut p);
    run_plan(&p, false).1.violations.iter().any(|v| v.oracle == oracle_id)
}

pub fn minimise(plan: &Plan, oracle_id: &str) -> Plan {
    let mut budget = 150u32;
    let mut cur = plan.clone();
    // 1. faults
    let faults = cur.faults.clone();
    let min_faults = ddmin(&faults, |fs| {
        let mut p = cur.clone();
        p.faults = fs.to_vec();
        still_fails(&p, oracle_id, &mut budget)
    });
    {
        let mut p = cur.clone();
        p.faults = min_faults;
        if still_fails(&p, oracle_id, &mut budget) {
            cur = p;
        }
    }
    // 2. streams
    let streams = cur.streams.clone();
    let min_streams = ddmin(&streams, |ss| {
        let mut p = cur.clone();
        p.streams = ss.to_vec();
        still_fails(&p, oracle_id, &mut budget)
    });
    {
        let mut p = cur.clone();
        p.streams = min_streams;
        if still_fails(&p, oracle_id, &mut budget) {
            cur = p;
        }
    }
    // 3. sizes
    for si in 0..cur.streams.len() {
        for _ in 0..8 {
            let mut p = cur.clone();
            let s = &mut p.streams[si];
            let before = (s.fwd, s.rev);
            s.fwd /= 2;
            s.rev /= 2;
            if before == (s.fwd, s.rev) {
                break;
            }
            if still_fails(&p, oracle_id, &mut budget) {
                cur = p;
            } else {
                break;
            }
        }
        let mut p = cur.clone();
        p.streams[si].open_delay_us = 0;
        p.streams[si].chunk = 16384;
        if p != cur && still_fails(&p, oracle_id, &mut budget) {
            cur = p;
        }
    }
    // 4. configuration towards defaults, one group at a time
    let ds = S2nCfg::default();
    let dq = QuicheCfg::default();
    let tries: Vec<Box<dyn Fn(&mut Plan)>> = vec![
        Box::new(|p| p.jitter_us = 0),
        Box::new(|p| p.base_delay_us = 20_000),
        Box::new(|p| p.path_mtu = 1500),
        Box::new({
            let d = ds.clone();
            move |p| p.s2n = d.clone()
        }),
        Box::new({
            let d = dq.clone();
            move |p| p.quiche = QuicheCfg { retry: p.quiche.retry, ..d.clone() }
        }),
        Box::new({
            let d = ds.clone();
            move |p| {
                p.s2n.data_window = d.data_window;
                p.s2n.bidi_local_window = 0;
                p.s2n.bidi_remote_window = 0;
                p.s2n.uni_window = 0;
            }
        }),
        Box::new({
            let d = ds.clone();
            move |p| {
                p.s2n.max_local_bidi = d.max_local_bidi;
                p.s2n.max_remote_bidi = d.max_remote_bidi;
                p.s2n.max_local_uni = d.max_local_uni;
                p.s2n.max_remote_uni = d.max_remote_uni;
            }
        }),
        Box::new({
            let d = ds.clone();
            move |p| {
                p.s2n.base_mtu = d.base_mtu;
                p.s2n.initial_mtu = d.initial_mtu;
                p.s2n.max_mtu = d.max_mtu;
            }
        }),
        Box::new({
            let d = ds.clone();
            move |p| {
                p.s2n.max_ack_delay_ms = d.max_ack_delay_ms;
                p.s2n.ack_elicitation_interval = d.ack_elicitation_interval;
                p.s2n.ack_ranges_limit = d.ack_ranges_limit;
                p.s2n.initial_rtt_ms = d.initial_rtt_ms;
                p.s2n.max_send_buffer = 0;
                p.s2n.stream_batch = 1;
                p.s2n.read_pause_every = 0;
            }
        }),
        Box::new(|p| {
            p.s2n.cc = 0;
            p.s2n.cid_len = 16;
            p.s2n.max_active_cids = 3;
            p.s2n.retry = false;
        }),
        Box::new({
            let d = dq.clone();
            move |p| {
                p.quiche.initial_max_data = d.initial_max_data;
                p.quiche.bidi_local = d.bidi_local;
                p.quiche.bidi_remote = d.bidi_remote;
                p.quiche.uni = d.uni;
                p.quiche.max_connection_window = d.max_connection_window;
                p.quiche.max_stream_window = d.max_stream_window;
            }
        }),
        Box::new({
            let d = dq.clone();
            move |p| {
                p.quiche.max_streams_bidi = d.max_streams_bidi;
                p.quiche.max_streams_uni = d.max_streams_uni;
            }
        }),
        Box::new({
            let d = dq.clone();
            move |p| {
                p.quiche.max_recv_udp = d.max_recv_udp;
                p.quiche.max_send_udp = d.max_send_udp;
                p.quiche.discover_pmtu = false;
            }
        }),
        Box::new({
            let d = dq.clone();
            move |p| {
                p.quiche.ack_delay_exponent = d.ack_delay_exponent;
                p.quiche.max_ack_delay_ms = d.max_ack_delay_ms;
                p.quiche.initial_rtt_ms = d.initial_rtt_ms;
            }
        }),
        Box::new({
            let d = dq.clone();
            move |p| {
                p.quiche.cid_len = d.cid_len;
                p.quiche.active_cid_limit = d.active_cid_limit;
                p.quiche.issue_cids = false;
                p.quiche.cc = d.cc;
                p.quiche.send_chunk = d.send_chunk;
                p.quiche.read_buf = d.read_buf;
                p.quiche.disable_migration = true;
                p.quiche.send_streams_blocked = false;
            }
        }),
        Box::new(|p| {
            p.s2n.idle_timeout_ms = 30_000;
            p.quiche.idle_timeout_ms = 30_000;
        }),
    ];
    for t in tries {
        let mut p = cur.clone();
        t(&mut p);
        finish(&mut p);
        if p != cur && still_fails(&p, oracle_id, &mut budget) {
            cur = p;
        }
    }
    finish(&mut cur);
    cur
}

// ---------------------------------------------------------------------------------------
// replay files

const REPLAY_NOTE: &str = "TLS randomness of s2n-tls is not seedable: ciphertext bytes differ between executions; the plan, the configuration, fault positions, virtual times and datagram sizes repeat";

fn replay_doc(seed: u64, plan: &Plan, original: &Plan, v: &Violation, hash: u64, reproducible: bool) -> serde_json::Value {
    json!({
        "engine": "interop",
        "property": "C07",
        "seed": seed,
        "violation": v,
        "trace_hash": format!("{hash:016x}"),
        "trace_reproducible_in_two_executions": reproducible,
        "note": REPLAY_NOTE,
        "plan": plan,
        "original_plan": original,
        "replay": "./check C07 --replay <this file>",
    })
}

pub fn replay(path: &str) -> i32 {
    let Ok(s) = std::fs::read_to_string(path) else {
        eprintln!("HARNESS-ERROR: cannot read {path}");
        return 2;
    };
    let doc: serde_json::Value = match serde_json::from_str(&s) {
        Ok(d) => d,
        Err(e) => {
            eprintln!("HARNESS-ERROR: {path}: {e}");
            return 2;
        }
    };
    if doc["engine"].as_str() != Some("interop") {
        eprintln!("HARNESS-ERROR: {path} is not a replay file of the interop engine");
        return 2;
    }
    let mut plan: Plan = match serde_json::from_value(doc["plan"].clone()) {
        Ok(p) => p,
        Err(e) => {
            eprintln!("HARNESS-ERROR: {path}: plan: {e}");
            return 2;
        }
    };
    finish(&mut plan);
    let (_o, v) = run_plan(&plan, false);
    println!("replay {path}: trace_hash={:016x} (recorded {})", v.trace_hash, doc["trace_hash"]);
    println!("note: {REPLAY_NOTE}");
    for e in &v.harness_errors {
        eprintln!("HARNESS-ERROR: {e}");
    }
    let known = simkit::load_known();
    let mut code = 0;
    for x in &v.violations {
        if let Some(k) = simkit::is_known(&known, x) {
            println!("KNOWN-FINDING: property={} {}", x.property, k.text);
        } else {
            println!("violation: {} {} :: {}", x.property, x.oracle, x.detail);
            println!("VIOLATION property={} replay={}", x.property, path);
            code = 1;
        }
    }
    if v.violations.is_empty() {
        println!("replay: no violation (excused: {:?})", v.excused);
        if !v.harness_errors.is_empty() {
            code = 2;
        }
    }
    code
}

// ---------------------------------------------------------------------------------------
// batch execution

#[derive(Default)]
struct Agg {
    plans: u64,
    executions: u64,
    reproducible: u64,
    irreproducible: Vec<u64>,
    slow: Vec<u64>,
    excused: u64,
    excused_kinds: BTreeMap<String, u64>,
    complete: u64,
    sim_time_ns: u128,
    nontrivial: BTreeSet<u64>,
    all_hashes: BTreeSet<u64>,
    faults: BTreeMap<String, u64>,
    probes: BTreeMap<String, u64>,
    probe_runs: BTreeMap<String, u64>,
    roles: BTreeMap<String, u64>,
    dims: BTreeMap<String, BTreeSet<u64>>,
    violations: Vec<(u64, Violation)>,
    violation_repro: BTreeMap<u64, bool>,
    samples: Vec<serde_json::Value>,
    harness_errors: Vec<String>,
    stream_bytes: u64,
    rand_drawn: u64,
    seed_hashes: Vec<(u64, u64)>,
    quiche_recv_errs: BTreeMap<String, u64>,
}

fn summarize(plan: &Plan, o: &RunOutput, v: &Verdict) -> serde_json::Value {
    json!({
        "seed": plan.seed,
        "role": plan.role,
        "streams": plan.streams.len(),
        "stream_bytes_planned": plan.total_bytes(),
        "close_by": plan.close_by,
        "s2n_windows": [plan.s2n.data_window, plan.s2n.bidi_local_window, plan.s2n.bidi_remote_window, plan.s2n.uni_window],
        "quiche_windows": [plan.quiche.initial_max_data, plan.quiche.bidi_local, plan.quiche.bidi_remote, plan.quiche.uni],
        "quiche_udp": [plan.quiche.max_recv_udp, plan.quiche.max_send_udp],
        "s2n_mtu": [plan.s2n.base_mtu, plan.s2n.initial_mtu, plan.s2n.max_mtu],
        "path_mtu": plan.path_mtu,
        "base_delay_us": plan.base_delay_us,
        "jitter_us": plan.jitter_us,
        "faults_planned": plan.faults.iter().take(6).collect::<Vec<_>>(),
        "faults_fired": o.net.fired,
        "datagrams": o.net.log.len(),
        "bytes_read_after_first_fault": o.app.bytes_after_fault,
        "probes": v.probes,
        "outcome": if !v.violations.is_empty() { "violation".to_string() } else if let Some(e) = &v.excused { format!("excused: {e}") } else if v.complete { "all streams complete, planned close seen".to_string() } else { "incomplete".to_string() },
        "sim_time_ms": o.end_ns / 1_000_000,
        "trace_hash": format!("{:016x}", v.trace_hash),
    })
}

fn dims_of(plan: &Plan, d: &mut BTreeMap<String, BTreeSet<u64>>) {
    let mut add = |k: &str, v: u64| {
        d.entry(k.to_string()).or_default().insert(v);
    };
    add("s2n.data_window", plan.s2n.data_window);
    add("s2n.bidi_local_window", plan.s2n.bidi_local_window);
    add("s2n.bidi_remote_window", plan.s2n.bidi_remote_window);
    add("s2n.uni_window", plan.s2n.uni_window);
    add("s2n.max_remote_bidi", plan.s2n.max_remote_bidi);
    add("s2n.max_remote_uni", plan.s2n.max_remote_uni);
    add("s2n.max_local_bidi", plan.s2n.max_local_bidi);
    add("s2n.max_local_uni", plan.s2n.max_local_uni);
    add("s2n.max_mtu", plan.s2n.max_mtu as u64);
    add("s2n.initial_mtu", plan.s2n.initial_mtu as u64);
    add("s2n.max_ack_delay_ms", plan.s2n.max_ack_delay_ms);
    add("s2n.cid_len", plan.s2n.cid_len as u64);
    add("s2n.max_active_cids", plan.s2n.max_active_cids);
    add("s2n.idle_timeout_ms", plan.s2n.idle_timeout_ms);
    add("s2n.cc", plan.s2n.cc as u64);
    add("quiche.initial_max_data", plan.quiche.initial_max_data);
    add("quiche.bidi_local", plan.quiche.bidi_local);
    add("quiche.bidi_remote", plan.quiche.bidi_remote);
    add("quiche.uni", plan.quiche.uni);
    add("quiche.max_streams_bidi", plan.quiche.max_streams_bidi);
    add("quiche.max_streams_uni", plan.quiche.max_streams_uni);
    add("quiche.max_recv_udp", plan.quiche.max_recv_udp);
    add("quiche.max_send_udp", plan.quiche.max_send_udp);
    add("quiche.ack_delay_exponent", plan.quiche.ack_delay_exponent);
    add("quiche.max_ack_delay_ms", plan.quiche.max_ack_delay_ms);
    add("quiche.active_cid_limit", plan.quiche.active_cid_limit);
    add("quiche.idle_timeout_ms", plan.quiche.idle_timeout_ms);
    add("quiche.cid_len", plan.quiche.cid_len as u64);
    add("quiche.cc", plan.quiche.cc as u64);
    add("quiche.discover_pmtu", plan.quiche.discover_pmtu as u64);
    add("path_mtu", plan.path_mtu as u64);
    add("base_delay_us", plan.base_delay_us);
    add("streams", plan.streams.len() as u64);
}

const RULE: &str = "plan = f(seed): role x quiche config x s2n limits/MTU x k streams each way x datagram fault plan (drop/dup/delay/MTU drop/short blackhole, finite); every plan is executed twice and counts only if both executions have the same (time,dir,len,fate) trace and application results; non-trivial = reproducible run in which at least one fault fired and stream bytes were read by an application after the first fault; distinct = distinct trace hash";

pub fn check(a: &CheckArgs) -> i32 {
    let t0 = Instant::now();
    if let Err(e) = crate::clock::selftest() {
        eprintln!("HARNESS-ERROR: {e}");
        return 2;
    }
    let thorough = a.thorough();
    let budget = a.budget(100);
    let max_plans = a.runs.unwrap_or(if thorough { u64::MAX } else { 2000 });
    let next = Arc::new(AtomicU64::new(0));
    let stop = Arc::new(AtomicBool::new(false));
    let agg = Arc::new(Mutex::new(Agg::default()));
    let started: Arc<Mutex<BTreeMap<usize, (u64, Instant)>>> = Default::default();

    std::thread::scope(|s| {
        for w in 0..a.threads.max(1) {
            let next = next.clone();
            let stop = stop.clone();
            let agg = agg.clone();
            let started = started.clone();
            let base = a.seed;
            s.spawn(move || {
                run::install_panic_hook();
                loop {
                    if stop.load(Ordering::Relaxed) {
                        break;
                    }
                    let i = next.fetch_add(1, Ordering::Relaxed);
                    if i >= max_plans {
                        break;
                    }
                    let seed = base.wrapping_add(i);
                    started.lock().unwrap().insert(w, (seed, Instant::now()));
                    let plan = plan_for(seed);
                    let t_plan = Instant::now();
                    let (o1, v1) = run_plan(&plan, false);
                    let (o2, v2) = run_plan(&plan, false);
                    started.lock().unwrap().remove(&w);
                    if t_plan.elapsed() > Duration::from_secs(4) && std::env::var("VERIF_TRACE_SLOW").is_ok() {
                        eprintln!("slow plan: seed {seed} wall {:?} sim {} ms datagrams {} bytes {}", t_plan.elapsed(), o1.end_ns / 1_000_000, o1.net.log.len(), plan.total_bytes());
                    }
                    let repro = v1.trace_hash == v2.trace_hash;
                    let mut g = agg.lock().unwrap();
                    g.plans += 1;
                    g.executions += 2;
                    g.rand_drawn += o1.rand_drawn;
                    for e in v1.harness_errors.iter().chain(v2.harness_errors.iter()) {
                        g.harness_errors.push(format!("seed {seed}: {e}"));
                    }
                    // violations count from either execution (a transport error is one whether
                    // or not the trace repeats); everything else only from reproducible plans
                    let mut seen = BTreeSet::new();
                    for x in v1.violations.iter().chain(v2.violations.iter()) {
                        if seen.insert((x.oracle.clone(), x.sig.clone())) {
                            g.violations.push((seed, x.clone()));
                        }
                    }
                    if !v1.violations.is_empty() || !v2.violations.is_empty() {
                        g.violation_repro.insert(seed, repro);
                    }
                    // budget exceeded in either execution (the wall-clock backstop is not
                    // deterministic): no verdict, not counted, not an irreproducibility
                    if v1.slow || v2.slow {
                        g.slow.push(seed);
                        continue;
                    }
                    if !repro {
                        g.irreproducible.push(seed);
                        continue;
                    }
                    g.reproducible += 1;
                    g.seed_hashes.push((seed, v1.trace_hash));
                    for (k, n) in &o1.app.q.recv_errs {
                        *g.quiche_recv_errs.entry(k.clone()).or_insert(0) += n;
                    }
                    g.sim_time_ns += 2 * o1.end_ns as u128;
                    g.all_hashes.insert(v1.trace_hash);
                    if v1.nontrivial {
                        g.nontrivial.insert(v1.trace_hash);
                    }
                    if v1.complete {
                        g.complete += 1;
                    }
                    if let Some(e) = &v1.excused {
                        g.excused += 1;
                        let kind = e.split(' ').next().unwrap_or("").to_string();
                        *g.excused_kinds.entry(kind).or_insert(0) += 1;
                    }
                    g.stream_bytes += o1.app.bytes_read;
                    *g.roles.entry(format!("{:?}", plan.role)).or_insert(0) += 1;
                    dims_of(&plan, &mut g.dims);
                    for (k, n) in &o1.net.fired {
                        *g.faults.entry(k.to_string()).or_insert(0) += n;
                    }
                    for (k, n) in &v1.probes {
                        *g.probes.entry(k.to_string()).or_insert(0) += n;
                        *g.probe_runs.entry(k.to_string()).or_insert(0) += 1;
                    }
                    let want = g.samples.len() < 5
                        && (v1.nontrivial && (g.samples.len() < 3 || v1.excused.is_some()) || g.plans > 100);
                    if want {
                        let mut sm = summarize(&plan, &o1, &v1);
                        if g.samples.is_empty() {
                            sm["full_plan"] = serde_json::to_value(&plan).unwrap();
                        }
                        g.samples.push(sm);
                    }
                    let _ = o2;
                }
            });
        }
        // watchdog + budget
        let stop2 = stop.clone();
        let started2 = started.clone();
        let next2 = next.clone();
        s.spawn(move || loop {
            std::thread::sleep(Duration::from_millis(100));
            if t0.elapsed() > budget {
                stop2.store(true, Ordering::Relaxed);
            }
            let g = started2.lock().unwrap();
            for (_, (seed, t)) in g.iter() {
                if t.elapsed() > Duration::from_secs(600) {
                    eprintln!("HARNESS-ERROR: plan with seed {seed} exceeded the wall-clock watchdog (600 s)");
                    std::process::exit(2);
                }
            }
            if g.is_empty() && (stop2.load(Ordering::Relaxed) || next2.load(Ordering::Relaxed) >= max_plans) {
                break;
            }
        });
    });

    let g = std::mem::take(&mut *agg.lock().unwrap());
    let search_wall = t0.elapsed().as_secs_f64();
    // determinism across processes / worker counts: dump (seed, trace hash) for diffing
    if let Ok(path) = std::env::var("VERIF_HASH_DUMP") {
        let mut lines: Vec<String> = g.seed_hashes.iter().map(|(s, h)| format!("{s} {h:016x}")).collect();
        lines.sort();
        let _ = std::fs::write(path, lines.join("\n") + "\n");
    }
    if std::env::var("VERIF_SIGS").is_ok() {
        let mut c: BTreeMap<(String, String), (u64, u64)> = BTreeMap::new();
        for (seed, v) in &g.violations {
            let e = c.entry((v.oracle.clone(), v.sig.clone())).or_insert((0, *seed));
            e.0 += 1;
        }
        for ((o, s), (n, seed)) in c {
            eprintln!("sig {o} {s}: {n} (e.g. seed {seed})");
        }
        eprintln!("irreproducible seeds: {:?}", g.irreproducible);
        eprintln!("slow seeds: {:?}", g.slow);
        eprintln!("excused kinds: {:?}", g.excused_kinds);
    }

    let mut replay_paths = vec![];
    let (exit_v, new_violations, known_seen) = simkit::triage("C07", &g.violations, |seed, v| {
        let original = plan_for(seed);
        let min = minimise(&original, &v.oracle);
        let (_o, mv) = run_plan(&min, false);
        let (_o2, mv2) = run_plan(&min, false);
        let x = mv.violations.iter().find(|x| x.oracle == v.oracle).cloned().unwrap_or(v.clone());
        let doc = replay_doc(seed, &min, &original, &x, mv.trace_hash, mv.trace_hash == mv2.trace_hash);
        let path = simkit::write_replay_doc("C07", &format!("{seed}-{}", v.oracle.trim_start_matches("c07.").replace('.', "_")), &doc);
        println!("note: {REPLAY_NOTE}");
        replay_paths.push(path.clone());
        path
    });

    let wall = t0.elapsed().as_secs_f64();
    let runs_per_hour = if search_wall > 0.0 { g.executions as f64 * 3600.0 / search_wall } else { 0.0 };
    let dims: BTreeMap<String, Vec<u64>> = g.dims.iter().map(|(k, v)| (k.clone(), v.iter().copied().collect())).collect();
    let coverage = json!({
        "evaluations": g.reproducible,
        "distinct_nontrivial": g.nontrivial.len(),
        "rule": RULE,
        "samples": g.samples,
        "plans": g.plans,
        "executions": g.executions,
        "irreproducible_plans": g.irreproducible.len(),
        "irreproducible_seeds": g.irreproducible.iter().take(20).collect::<Vec<_>>(),
        "slow_plans_excluded": g.slow.len(),
        "distinct_traces": g.all_hashes.len(),
        "runs_per_hour": runs_per_hour as u64,
        "plans_per_second": if search_wall > 0.0 { g.plans as f64 / search_wall } else { 0.0 },
        "seeds": format!("{}..{}", a.seed, a.seed.wrapping_add(g.plans)),
        "sim_time_total_s": (g.sim_time_ns / 1_000_000_000) as u64,
        "stream_bytes_delivered": g.stream_bytes,
        "plans_all_streams_complete": g.complete,
        "plans_excused_by_faults": g.excused,
        "excused_kinds": g.excused_kinds,
        "faults_fired": g.faults,
        "reach_probes": g.probes,
        "reach_probe_runs": g.probe_runs,
        "roles": g.roles,
        "quiche_recv_errors_by_kind": g.quiche_recv_errs,
        "config_dimensions_seen": dims,
        "quiche_random_bytes_drawn_from_seeded_stream": g.rand_drawn,
        "components": {
            "real": ["s2n-quic full stack (Client/Server API, transport, core, platform event loop on the testing IO provider, s2n-quic-crypto)", "s2n-tls (real TLS 1.3, RSA test certificate)", "quiche 0.29.3 (independent RFC 9000/9001 implementation)", "BoringSSL (quiche's TLS and packet protection)"],
            "stub": ["network (SimNet)", "clock (bach virtual time; quiche's Instant::now() through an interposed clock_gettime)", "s2n-quic random / connection-id / reset-token providers (seeded)", "BoringSSL RAND_bytes (seeded stream, so that quiche's packet-number skips and key shares repeat)"]
        },
        "known_findings_seen": known_seen,
        "new_violations": new_violations,
        "violating_plans_reproducible": g.violation_repro,
        "replays": replay_paths,
    });
    simkit::write_evidence(
        a,
        "exploration",
        coverage,
        &[
            "sampling, not proof: a clean batch is evidence only",
            "s2n-tls randomness is not seedable: ciphertext bytes differ between executions; traces are compared on (time, direction, length, fate) and application results",
            "certificate validation by quiche is off (as in the in-tree quiche test); s2n-quic validates quiche's certificate against the test CA",
            "no corruption faults; pacing release times of quiche are not modelled (pacing disabled)",
        ],
        wall,
        new_violations,
    );
    println!(
        "check C07 tier={} seed={} plans={} executions={} reproducible={} irreproducible={} slow={} distinct_nontrivial={} complete={} excused={} sim_time={}s wall={:.1}s ({:.1} plans/s) violations={} known={}",
        a.tier,
        a.seed,
        g.plans,
        g.executions,
        g.reproducible,
        g.irreproducible.len(),
        g.slow.len(),
        g.nontrivial.len(),
        g.complete,
        g.excused,
        g.sim_time_ns / 1_000_000_000,
        wall,
        if search_wall > 0.0 { g.plans as f64 / search_wall } else { 0.0 },
        new_violations,
        known_seen.values().sum::<u64>()
    );
    crate::qhost::cleanup_cert_files();
    let mut exit = exit_v;
    if !g.irreproducible.is_empty() {
        eprintln!(
            "HARNESS-WARNING: {} of {} plans were not reproducible (trace of two executions differs) and are excluded from the evidence counts: seeds {:?}",
            g.irreproducible.len(),
            g.plans,
            g.irreproducible.iter().take(12).collect::<Vec<_>>()
        );
    }
    if !g.slow.is_empty() {
        eprintln!("HARNESS-WARNING: {} plans exceeded the datagram budget or hit the virtual-time cap while still progressing (excluded, no verdict): seeds {:?}", g.slow.len(), g.slow.iter().take(12).collect::<Vec<_>>());
    }
    if exit == 0 {
        if !g.harness_errors.is_empty() {
            for e in g.harness_errors.iter().take(8) {
                eprintln!("HARNESS-ERROR: {e}");
            }
            exit = 2;
        }
        if g.plans == 0 {
            eprintln!("HARNESS-ERROR: no plans executed");
            exit = 2;
        }
        if g.irreproducible.len() as u64 * 5 > g.plans {
            eprintln!("HARNESS-ERROR: more than 20 % of the plans are irreproducible");
            exit = 2;
        }
    }
    exit
}
