//! C04: byzantine peer rules (reaction oracle) and the advertised-credit bound.

use crate::{
    kernel::Violation,
    obs::{CloseKind, Space},
    oracle::View,
    oracle2::sides,
    plan::*,
    wire::Frame,
};
use std::collections::BTreeMap;

fn viol(oracle: &str, sig: &str, detail: String) -> Violation {
    Violation { property: "C04".into(), oracle: oracle.into(), detail, sig: sig.into() }
}

const FLOW_CONTROL_ERROR: u64 = 0x3;
const STREAM_LIMIT_ERROR: u64 = 0x4;
const STREAM_STATE_ERROR: u64 = 0x5;
const FINAL_SIZE_ERROR: u64 = 0x6;
const FRAME_ENCODING_ERROR: u64 = 0x7;
const PROTOCOL_VIOLATION: u64 = 0xa;
const CRYPTO_BUFFER_EXCEEDED: u64 = 0xd;

/// (codes RFC 9000 prescribes for the violation, may the frame legitimately be ignored)
pub fn expected(kind: &str) -> (Vec<u64>, bool) {
    match kind {
        "StreamBeyondStreamCredit" | "StreamBeyondConnCredit" => (vec![FLOW_CONTROL_ERROR], false),
        // 19.8: FRAME_ENCODING_ERROR or FLOW_CONTROL_ERROR
        "StreamAtMaxOffset" => (vec![FRAME_ENCODING_ERROR, FLOW_CONTROL_ERROR], false),
        "StreamIdBeyondLimit" => (vec![STREAM_LIMIT_ERROR], false),
        // 4.5: FINAL_SIZE_ERROR; the stream may already be gone at the receiver (3.2: data for a
        // closed stream can be discarded)
        "DataAfterFin" | "ChangedFinalSize" | "ResetOtherFinalSize" => (vec![FINAL_SIZE_ERROR], true),
        "StreamOnPeerSendOnly" | "MaxStreamDataForUnopenedLocal" | "StopSendingForUnopenedLocal" | "ResetForUnopenedLocal" => {
            (vec![STREAM_STATE_ERROR], false)
        }
        // 19.11: FRAME_ENCODING_ERROR (4.6 also names STREAM_LIMIT_ERROR)
        "MaxStreamsTooLarge" => (vec![FRAME_ENCODING_ERROR, STREAM_LIMIT_ERROR], false),
        "NewCidRetirePriorGtSeq" | "NewCidBadLen" => (vec![FRAME_ENCODING_ERROR], false),
        "NewCidDupSeqOtherCid" | "RetireUnissuedSeq" | "HandshakeDoneFromClient" | "NewTokenFromClient" | "AckNeverSent"
        | "AppFrameInHandshakeSpace" => (vec![PROTOCOL_VIOLATION], false),
        "UnknownFrameType" => (vec![FRAME_ENCODING_ERROR], false),
        "CryptoBeyondBuffer" => (vec![CRYPTO_BUFFER_EXCEEDED], false),
        _ => (vec![], true),
    }
}

pub fn c04(v: &View) -> Vec<Violation> {
    let mut out = vec![];
    let o = v.out;
    // (a) reaction to byzantine frames
    let mut data_rule_violating = false;
    for (ep, conn, desc, seq) in &o.obs.byz_fired {
        let kind = desc.split(' ').next().unwrap_or("");
        let Some(tx) = o.obs.tx.iter().find(|t| t.seq == *seq) else { continue };
        // the victim side of this connection
        let victim = sides(v).into_iter().find(|(idx, role, _)| {
            let attacker_is_client = *ep != 0;
            let same_conn = if attacker_is_client { *idx == *ep - 1 } else { v.server_conn[*idx as usize] == Some(*conn) };
            same_conn && (*role == Role::Server) == attacker_is_client
        });
        let Some((idx, vrole, vside)) = victim else { continue };
        // did the victim process the offending packet?
        let processed = o.obs.rx.iter().find(|r| r.ep == vside.ep && r.conn == vside.conn && r.space == tx.space && r.pn == tx.pn && r.hash == tx.hash);
        let Some(processed) = processed else { continue }; // lost, or arrived after close: nothing expected
        let (mut allowed, mut may_ignore) = expected(kind);
        // 11: a generic code may be used in place of the specific one
        allowed.push(PROTOCOL_VIOLATION);
        // a stream the victim has already abandoned (STOP_SENDING / fully read) may ignore data
        if let Some(sid) = desc.split("stream ").nth(1).and_then(|s| s.split(' ').next()).and_then(|s| s.parse::<u64>().ok()) {
            let abandoned = o.obs.tx.iter().enumerate().any(|(k, t)| {
                t.ep == vside.ep && t.conn == vside.conn && t.seq < processed.seq
                    && v.tx_frames[k].as_ref().map_or(false, |fr| fr.iter().any(|f| matches!(f, Frame::StopSending { id, .. } if *id == sid)))
            });
            if abandoned && kind.starts_with("StreamBeyond") {
                may_ignore = true;
            }
        }
        // --- re-validate the rule against what the victim had really SENT when it processed
        //     the packet (limits still in flight towards the attacker make a rule a no-op) ---
        let attacker_role = vrole.peer();
        let num_after = |key: &str| -> Option<u64> {
            desc.split(key).nth(1).and_then(|s| s.trim_start().split(|c: char| !c.is_ascii_digit()).next()).and_then(|s| s.parse::<u64>().ok())
        };
        let sid = num_after("stream ");
        let victim_tp = v.peer_tp(idx, attacker_role); // what the victim declared
        let mut v_max_data = victim_tp.map_or(0, |t| t.initial_max_data);
        let mut v_max_stream: BTreeMap<u64, u64> = BTreeMap::new();
        let mut v_streams_bidi = victim_tp.map_or(0, |t| t.initial_max_streams_bidi);
        let mut v_streams_uni = victim_tp.map_or(0, |t| t.initial_max_streams_uni);
        let mut v_cid_seq_max = 0u64;
        let mut v_stop_or_done = false;
        for (k, t) in o.obs.tx.iter().enumerate() {
            if !(t.ep == vside.ep && t.conn == vside.conn && t.seq < processed.seq) {
                continue;
            }
            if let Ok(fr) = &v.tx_frames[k] {
                for f in fr {
                    match f {
                        Frame::MaxData { max } => v_max_data = v_max_data.max(*max),
                        Frame::MaxStreamData { id, max } => {
                            let e = v_max_stream.entry(*id).or_insert(0);
                            *e = (*e).max(*max);
                        }
                        Frame::MaxStreams { bidi: true, max } => v_streams_bidi = v_streams_bidi.max(*max),
                        Frame::MaxStreams { bidi: false, max } => v_streams_uni = v_streams_uni.max(*max),
                        Frame::NewConnectionId { seq, .. } => v_cid_seq_max = v_cid_seq_max.max(*seq),
                        Frame::StopSending { id, .. } if Some(*id) == sid => v_stop_or_done = true,
                        _ => {}
                    }
                }
            }
        }
        // has the victim's application already finished with the receiving half of that stream?
        if let Some(id) = sid {
            if let Some(r) = o.app.recvs.get(&crate::run::StreamKey { conn: idx, id, sender: attacker_role }) {
                if r.t_end_ns != 0 && r.t_end_ns <= processed.t_ns {
                    v_stop_or_done = true;
                }
            }
            // the victim had already processed a FIN or RESET_STREAM for it (possibly sent after
            // the offending packet and reordered in front of it)
            for (k, r) in o.obs.rx.iter().enumerate() {
                if r.ep == vside.ep && r.conn == vside.conn && r.seq < processed.seq {
                    if let Ok(fr) = &v.rx_frames[k] {
                        if fr.iter().any(|f| matches!(f, Frame::ResetStream { id: i, .. } if *i == id) || matches!(f, Frame::Stream { id: i, fin: true, .. } if *i == id)) {
                            v_stop_or_done = true;
                        }
                    }
                }
            }
            // the attacker itself had already finished or reset the stream honestly
            let attacker_side = crate::oracle::Side { ep: *ep, conn: *conn };
            for (k, t) in o.obs.tx.iter().enumerate() {
                if t.ep == attacker_side.ep && t.conn == attacker_side.conn && t.seq < *seq && t.byz.is_none() {
                    if let Ok(fr) = &v.tx_frames[k] {
                        if fr.iter().any(|f| matches!(f, Frame::ResetStream { id: i, .. } if *i == id) || matches!(f, Frame::Stream { id: i, fin: true, .. } if *i == id)) {
                            v_stop_or_done = true;
                        }
                    }
                }
            }
        }
        // s2n-quic enforces the limits it has DECIDED (consumed + window, closed + limit), which
        // can be ahead of what it has put on the wire so far; a frame inside the decided limit
        // does not make the endpoint buffer more than its window, so it is not counted
        let consumed_by = |id: Option<u64>| -> u64 {
            o.app
                .reads_log
                .iter()
                .filter(|(t, k, _)| *t <= processed.t_ns && k.conn == idx && k.sender == attacker_role && id.map_or(true, |i| k.id == i))
                .fold(BTreeMap::new(), |mut m: BTreeMap<u64, u64>, (_, k, n)| {
                    let e = m.entry(k.id).or_insert(0);
                    *e = (*e).max(*n);
                    m
                })
                .values()
                .sum()
        };
        // every stream of the attacker that the victim has seen so far may already be closed
        // and credited back
        let seen_streams = |bidi: bool| -> u64 {
            let mut ids = std::collections::BTreeSet::new();
            for (k, r) in o.obs.rx.iter().enumerate() {
                if r.ep == vside.ep && r.conn == vside.conn && r.seq < processed.seq {
                    if let Ok(fr) = &v.rx_frames[k] {
                        for f in fr {
                            if let Frame::Stream { id, .. } | Frame::ResetStream { id, .. } = f {
                                let attackers = (id & 1 == 0) == (attacker_role == Role::Client);
                                if attackers && (id & 2 == 0) == bidi {
                                    ids.insert(*id);
                                }
                            }
                        }
                    }
                }
            }
            ids.len() as u64
        };
        let still_violating = match kind {
            "StreamBeyondStreamCredit" => {
                let off = num_after("offset ").unwrap_or(0);
                let id = sid.unwrap_or(0);
                let mine = (id & 1 == 0) == (attacker_role == Role::Client);
                let initial = victim_tp.map_or(0, |t| if id & 2 != 0 { t.initial_max_stream_data_uni } else if mine { t.initial_max_stream_data_bidi_remote } else { t.initial_max_stream_data_bidi_local });
                off + 1 > v_max_stream.get(&id).copied().unwrap_or(0).max(initial + consumed_by(Some(id)))
            }
            "StreamBeyondConnCredit" => {
                let initial = victim_tp.map_or(0, |t| t.initial_max_data);
                // discarded streams release what was received: bound by everything received
                let received: u64 = {
                    let mut m: BTreeMap<u64, u64> = BTreeMap::new();
                    for (k, r) in o.obs.rx.iter().enumerate() {
                        if r.ep == vside.ep && r.conn == vside.conn && r.seq < processed.seq {
                            if let Ok(fr) = &v.rx_frames[k] {
                                for f in fr {
                                    match f {
                                        Frame::Stream { id, off, len, .. } => {
                                            let e = m.entry(*id).or_insert(0);
                                            *e = (*e).max(off + *len as u64);
                                        }
                                        Frame::ResetStream { id, final_size, .. } => {
                                            let e = m.entry(*id).or_insert(0);
                                            *e = (*e).max(*final_size);
                                        }
                                        _ => {}
                                    }
                                }
                            }
                        }
                    }
                    m.values().sum()
                };
                num_after("offset ").unwrap_or(0) + 1 > v_max_data.max(initial + consumed_by(None).max(received))
            }
            "StreamIdBeyondLimit" => {
                let id = sid.unwrap_or(0);
                let lim = if id & 2 == 0 { v_streams_bidi } else { v_streams_uni };
                id / 4 >= lim + seen_streams(id & 2 == 0)
            }
            // ids the victim has generated but not yet put on the wire count as issued for it
            "RetireUnissuedSeq" => {
                let n = num_after("RetireUnissuedSeq").unwrap_or(0);
                let ever_max = o.obs.tx.iter().enumerate().filter(|(_, t)| t.ep == vside.ep && t.conn == vside.conn).filter_map(|(k, _)| v.tx_frames[k].as_ref().ok()).flat_map(|fr| fr.iter()).filter_map(|f| match f {
                    Frame::NewConnectionId { seq, .. } => Some(*seq),
                    _ => None,
                }).max().unwrap_or(0);
                n > v_cid_seq_max.max(ever_max)
            }
            // a duplicate only once the victim has seen the honest frame with that sequence number
            "NewCidDupSeqOtherCid" => {
                let n = num_after("seq ").unwrap_or(u64::MAX);
                o.obs.rx.iter().enumerate().any(|(k, r)| {
                    r.ep == vside.ep && r.conn == vside.conn && r.seq < processed.seq
                        && v.rx_frames[k].as_ref().map_or(false, |fr| fr.iter().any(|f| matches!(f, Frame::NewConnectionId { seq, .. } if *seq == n)))
                })
            }
            // only a violation once the victim has learned the final size from an earlier packet
            "DataAfterFin" | "ChangedFinalSize" | "ResetOtherFinalSize" => {
                let id = sid.unwrap_or(u64::MAX);
                o.obs.rx.iter().enumerate().any(|(k, r)| {
                    r.ep == vside.ep && r.conn == vside.conn && r.seq < processed.seq
                        && v.rx_frames[k].as_ref().map_or(false, |fr| fr.iter().any(|f| {
                            matches!(f, Frame::Stream { id: i, fin: true, .. } if *i == id) || matches!(f, Frame::ResetStream { id: i, .. } if *i == id)
                        }))
                })
            }
            _ => true,
        };
        if !still_violating {
            continue; // the rule was a no-op in the state the victim was really in
        }
        data_rule_violating |= matches!(kind, "StreamBeyondStreamCredit" | "StreamBeyondConnCredit" | "StreamAtMaxOffset" | "StreamIdBeyondLimit" | "DataAfterFin" | "ChangedFinalSize" | "StreamOnPeerSendOnly" | "AppFrameInHandshakeSpace");
        // a frame that breaks two rules at once may be rejected with either code
        if v_stop_or_done && kind.starts_with("StreamBeyond") {
            allowed.push(FINAL_SIZE_ERROR);
        }
        if matches!(kind, "DataAfterFin" | "ChangedFinalSize" | "ResetOtherFinalSize") {
            // the changed final size may also exceed the stream or connection credit
            allowed.push(FLOW_CONTROL_ERROR);
        }
        if v_stop_or_done && matches!(kind, "StreamBeyondStreamCredit" | "StreamBeyondConnCredit" | "StreamAtMaxOffset" | "DataAfterFin" | "ChangedFinalSize" | "ResetOtherFinalSize") {
            may_ignore = true;
        }
        // 7.5: after the handshake a CRYPTO frame that cannot be buffered MAY simply be discarded
        if kind == "CryptoBeyondBuffer" {
            may_ignore = true;
        }
        match v.closed_event(vside) {
            Some((t, CloseKind::Transport, Some(code), err)) if err.contains("initiator: Local") => {
                if t < processed.t_ns {
                    continue;
                }
                if !allowed.contains(&code) {
                    out.push(viol(
                        "c04.wrong_error_code",
                        &format!("wrong_code:{kind}:{code:#x}"),
                        format!("conn {idx} victim {vrole:?}: byzantine frame [{desc}] processed at {} ms; connection closed with transport error {code:#x}, RFC 9000 prescribes one of {:x?}: {err}", processed.t_ns / 1_000_000, allowed),
                    ));
                }
                // the CONNECTION_CLOSE on the wire carries the same code
                let wire_codes: Vec<u64> = o.obs.tx.iter().enumerate().filter(|(_, t)| t.ep == vside.ep && t.conn == vside.conn).filter_map(|(k, _)| {
                    v.tx_frames[k].as_ref().ok().and_then(|fr| fr.iter().find_map(|f| match f {
                        Frame::ConnectionClose { app: false, code, .. } => Some(*code),
                        _ => None,
                    }))
                }).collect();
                if !wire_codes.is_empty() && !wire_codes.contains(&code) {
                    out.push(viol(
                        "c04.close_frame_code_mismatch",
                        &format!("close_code_mismatch:{kind}"),
                        format!("conn {idx} victim {vrole:?}: API/event error code {code:#x} but CONNECTION_CLOSE frames carry {:x?}", wire_codes),
                    ));
                }
            }
            other => {
                // closed some other way before/at processing (e.g. planned close) is fine
                if let Some((t, _, _, _)) = other {
                    if t <= processed.t_ns {
                        continue;
                    }
                }
                if !may_ignore {
                    out.push(viol(
                        "c04.not_rejected",
                        &format!("not_rejected:{kind}"),
                        format!("conn {idx} victim {vrole:?}: byzantine frame [{desc}] was processed at {} ms (pn {}) but the connection was not closed with a transport error (close event: {:?})", processed.t_ns / 1_000_000, tx.pn, other.map(|x| (x.1, x.2))),
                    ));
                }
            }
        }
    }
    // a peer must never be able to crash the endpoint
    if let Some(p) = &o.panic {
        if p.contains("/repo/") && !p.contains("Runtime stalled") {
            let first = p.lines().next().unwrap_or("").to_string();
            let second = p.lines().nth(1).unwrap_or("").to_string();
            out.push(viol(
                "c04.panic",
                &format!("panic:{}", first.split("/repo/").nth(1).unwrap_or(&first).chars().take(80).collect::<String>()),
                format!("the endpoint panicked instead of closing the connection with a transport error (byzantine rules fired: {:?}): {first} {second}", o.obs.byz_fired.iter().map(|b| b.2.clone()).collect::<Vec<_>>()),
            ));
        }
    }
    // (b) injected bytes never reach an application
    if data_rule_violating {
        for (key, r) in &o.app.recvs {
            if let Some((off, what)) = &r.mismatch {
                out.push(viol(
                    "c04.offending_data_delivered",
                    "offending_data_delivered",
                    format!("stream {key:?}: application read a byte at offset {off} that the honest sender never wrote ({what})"),
                ));
            }
        }
    }
    // (c) advertised credit never exceeds consumed + window
    out.extend(credit_bound(v));
    out
}

/// Every MAX_STREAM_DATA / MAX_DATA / MAX_STREAMS an endpoint sends is bounded by what its
/// application consumed (or what was discarded with a known final size) plus its window.
pub fn credit_bound(v: &View) -> Vec<Violation> {
    let mut out = vec![];
    let o = v.out;
    for (idx, role, side) in sides(v) {
        // my own advertised initial values = my windows (as the peer received them)
        let Some(my_tp) = v.peer_tp(idx, role.peer()) else { continue };
        let w_conn = my_tp.initial_max_data;
        let w_stream = |id: u64| -> u64 {
            let mine = (id & 1 == 0) == (role == Role::Client);
            if id & 2 != 0 {
                my_tp.initial_max_stream_data_uni
            } else if mine {
                my_tp.initial_max_stream_data_bidi_local
            } else {
                my_tp.initial_max_stream_data_bidi_remote
            }
        };
        // consumption log of streams I receive on: sender is my peer
        let mut reads: Vec<(u64, u64, u64)> = o
            .app
            .reads_log
            .iter()
            .filter(|(_, k, _)| k.conn == idx && k.sender == role.peer())
            .map(|(t, k, n)| (*t, k.id, *n))
            .collect();
        reads.sort();
        // highest offset received per stream (discarded data is released as well)
        let mut evs: Vec<(u64, u64, bool, usize)> = vec![]; // (t, seq, is_tx, index)
        for (i, r) in o.obs.rx.iter().enumerate() {
            if r.ep == side.ep && r.conn == side.conn && r.space == Space::App {
                evs.push((r.t_ns, r.seq, false, i));
            }
        }
        for (i, t) in o.obs.tx.iter().enumerate() {
            if t.ep == side.ep && t.conn == side.conn && t.space == Space::App && t.byz.is_none() {
                evs.push((t.t_ns, t.seq, true, i));
            }
        }
        evs.sort_by_key(|e| e.1);
        // streams whose unread data is discarded (application stopped / errored, or the peer
        // reset them) legitimately release what was received rather than what was read
        let discards = |id: u64, reset_rx: &std::collections::BTreeSet<u64>| -> bool {
            if reset_rx.contains(&id) {
                return true;
            }
            match o.app.recvs.get(&crate::run::StreamKey { conn: idx, id, sender: role.peer() }) {
                Some(r) => matches!(r.outcome, crate::run::RecvOutcome::StoppedByUs | crate::run::RecvOutcome::Error(..)),
                // never handed to the application: bidirectional stream whose receive half the
                // script drops at once (implicit STOP_SENDING)
                None => true,
            }
        };
        let mut reset_rx: std::collections::BTreeSet<u64> = Default::default();
        let mut received: BTreeMap<u64, u64> = BTreeMap::new();
        let mut ri = 0;
        let mut consumed: BTreeMap<u64, u64> = BTreeMap::new();
        let mut flagged = false;
        for (t, _, is_tx, i) in evs {
            while ri < reads.len() && reads[ri].0 <= t {
                let e = consumed.entry(reads[ri].1).or_insert(0);
                *e = (*e).max(reads[ri].2);
                ri += 1;
            }
            if !is_tx {
                if let Ok(fr) = &v.rx_frames[i] {
                    for f in fr {
                        match f {
                            Frame::Stream { id, off, len, .. } => {
                                let e = received.entry(*id).or_insert(0);
                                *e = (*e).max(off + *len as u64);
                            }
                            Frame::ResetStream { id, final_size, .. } => {
                                let e = received.entry(*id).or_insert(0);
                                *e = (*e).max(*final_size);
                                reset_rx.insert(*id);
                            }
                            _ => {}
                        }
                    }
                }
                continue;
            }
            if flagged {
                continue;
            }
            let Ok(fr) = &v.tx_frames[i] else { continue };
            for f in fr {
                match f {
                    Frame::MaxStreamData { id, max } => {
                        // data may be released by reading it or by discarding it
                        let c = consumed.get(id).copied().unwrap_or(0);
                        let used = if discards(*id, &reset_rx) { c.max(received.get(id).copied().unwrap_or(0)) } else { c };
                        if *max > used + w_stream(*id) {
                            flagged = true;
                            out.push(viol(
                                "c04.stream_credit_exceeds_window",
                                "stream_credit_exceeds_window",
                                format!("conn {idx} {role:?} pn {}: MAX_STREAM_DATA stream {id} = {max} but only {} bytes were received on it ({} read by the application) and the window is {}", o.obs.tx[i].pn, received.get(id).copied().unwrap_or(0), consumed.get(id).copied().unwrap_or(0), w_stream(*id)),
                            ));
                        }
                    }
                    Frame::MaxData { max } => {
                        let used: u64 = received
                            .iter()
                            .map(|(id, r)| {
                                let c = consumed.get(id).copied().unwrap_or(0);
                                if discards(*id, &reset_rx) { c.max(*r) } else { c }
                            })
                            .sum();
                        if *max > used + w_conn {
                            flagged = true;
                            out.push(viol(
                                "c04.conn_credit_exceeds_window",
                                "conn_credit_exceeds_window",
                                format!("conn {idx} {role:?} pn {}: MAX_DATA = {max} but only {used} stream bytes were received in total and the connection window is {w_conn}", o.obs.tx[i].pn),
                            ));
                        }
                    }
                    _ => {}
                }
            }
        }
    }
    out
}
