#!/bin/bash
# soak the non-qsim engines on another seed range, using the already built binaries
SEED=$1
cd /verif/sim
for spec in "linksim C09" "linksim C10" "linksim C15" "comp C16" "comp C19" "interop C07" "dcsim C18" "dcsim C20"; do
  set -- $spec
  e=$1; id=$2
  VERIF_EVIDENCE_PART=soak ./target-$e/release/$e check $id --seed $SEED > /tmp/soako_${id}_${e}_$SEED.log 2>&1
  echo "$id/$e seed=$SEED rc=$? $(grep -E '^check|quick:' /tmp/soako_${id}_${e}_$SEED.log | tail -1 | cut -c1-200)"
  grep -E '^VIOLATION|^violation' /tmp/soako_${id}_${e}_$SEED.log | head -3 | cut -c1-300
done
