//! E4 / Miri runner for C19c (concurrent half of C19).  See scenarios/dc.rs.
//! Needs `-Zmiri-disable-stacked-borrows` (bitvec, a dependency of receiver::State, trips both
//! aliasing models).  usage and stdout protocol: as threads-miri, plus `H|<scenario>|<history>`.

#[path = "../../scenarios/mod.rs"]
mod scenarios;

// what sender.rs names through `crate::` (see secret.rs)
pub mod crypto {
    pub mod awslc {
        pub mod open {
            pub mod control {
                pub struct Secret;
            }
        }
    }
}
pub mod packet {
    pub mod secret_control {
        pub const TAG_LEN: usize = 16;
    }
}
pub mod secret;

use std::hash::{BuildHasher, Hasher};

fn arg(args: &[String], key: &str) -> Option<String> {
    args.iter().position(|a| a == key).and_then(|i| args.get(i + 1).cloned())
}

fn main() {
    let args: Vec<String> = std::env::args().skip(1).collect();
    let all = scenarios::all();
    if args.first().map(|s| s.as_str()) == Some("list") {
        for s in &all {
            println!("{} {}", s.name, s.property);
        }
        return;
    }
    let wanted: Option<Vec<String>> = arg(&args, "--scenarios").map(|s| s.split(',').map(|x| x.to_string()).collect());
    let reps: usize = arg(&args, "--reps").and_then(|s| s.parse().ok()).unwrap_or(1);
    let seed = match arg(&args, "--seed").and_then(|s| s.parse::<u64>().ok()) {
        Some(s) => s,
        None => {
            let mut h = std::collections::hash_map::RandomState::new().build_hasher();
            h.write_u64(0x7468_7265_6164_7321);
            h.finish()
        }
    };
    scenarios::rt::seed_rng(seed);
    let mut n = 0;
    // run in exactly the order given on the command line (the driver relies on it to name the
    // scenario that was running when Miri stopped the program)
    let order: Vec<&scenarios::Scenario> = match &wanted {
        Some(w) => w.iter().filter_map(|x| all.iter().find(|s| s.name == *x)).collect(),
        None => all.iter().collect(),
    };
    for sc in order {
        for _ in 0..reps {
            let o = (sc.run)();
            println!("T|{}|{}|{:016x}|{}|{}", sc.name, o.nontrivial as u8, o.trace_hash, o.params, o.trace);
            n += 1;
        }
    }
    println!("DONE {n}");
}
