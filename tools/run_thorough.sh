#!/bin/bash
# thorough tier of every check with a reduced budget; one line per check
B="${1:-400}"
cd /verif
ids=$(python3 -c "import json; print(' '.join(c['property_id'] for c in json.load(open('MANIFEST.json'))['checks']))")
for id in $ids; do
  t0=$(date +%s)
  ./check $id --tier thorough --budget-s $B > /tmp/thorough_$id.log 2>&1
  rc=$?
  t1=$(date +%s)
  echo "$id exit=$rc wall=$((t1-t0))s $(grep -c '^VIOLATION' /tmp/thorough_$id.log) violations; $(grep -E '^check|thorough:' /tmp/thorough_$id.log | tail -1 | cut -c1-150)"
done
