//! Shared pieces of every engine: seeded PRNG and stateless hashes, ddmin, the check CLI
//! contract, known-findings protocol, replay files and the evidence writer.
//!
//! Contract of every engine binary:  `<bin> check <ID> [--tier quick|thorough] [--seed N]
//! [--runs N] [--budget-s S] [--replay FILE]`; exit 0 = held, 1 = violation (a line
//! `VIOLATION property=<id> replay=<path>` is printed), 2 = harness error.

pub mod kernel;
pub use kernel::*;

use serde_json::{json, Value};
use std::collections::BTreeMap;

pub const VERIF_DIR: &str = "/verif";

#[derive(Clone, Debug)]
pub struct CheckArgs {
    pub property: String,
    pub tier: String,
    pub seed: u64,
    pub runs: Option<u64>,
    pub budget_s: Option<u64>,
    pub threads: usize,
    pub replay: Option<String>,
}

impl CheckArgs {
    pub fn thorough(&self) -> bool {
        self.tier == "thorough"
    }
    /// wall-clock budget: explicit, else 900 s (thorough) / `quick_default` (quick)
    pub fn budget(&self, quick_default: u64) -> std::time::Duration {
        std::time::Duration::from_secs(self.budget_s.unwrap_or(if self.thorough() { 900 } else { quick_default }))
    }
}

/// Parses `check <ID> ...` (args without the program name). Returns None for other commands.
pub fn parse_check_args(args: &[String]) -> Option<CheckArgs> {
    let mut it = args.iter();
    if it.next().map(|s| s.as_str()) != Some("check") {
        return None;
    }
    let property = it.next().cloned().unwrap_or_default();
    let mut a = CheckArgs {
        property,
        tier: std::env::var("VERIF_TIER").unwrap_or_else(|_| "quick".into()),
        seed: std::env::var("VERIF_SEED").ok().and_then(|s| s.parse().ok()).unwrap_or(20260922),
        runs: None,
        budget_s: std::env::var("VERIF_BUDGET_S").ok().and_then(|s| s.parse().ok()),
        threads: std::env::var("VERIF_THREADS").ok().and_then(|s| s.parse().ok()).unwrap_or(16),
        replay: None,
    };
    while let Some(x) = it.next() {
        match x.as_str() {
            "--tier" => a.tier = it.next().cloned().unwrap_or_default(),
            "--seed" => a.seed = it.next().and_then(|s| s.parse().ok()).unwrap_or(a.seed),
            "--runs" => a.runs = it.next().and_then(|s| s.parse().ok()),
            "--budget-s" => a.budget_s = it.next().and_then(|s| s.parse().ok()),
            "--threads" => a.threads = it.next().and_then(|s| s.parse().ok()).unwrap_or(16),
            "--replay" => a.replay = it.next().cloned(),
            _ => {}
        }
    }
    Some(a)
}

#[derive(Clone, Debug)]
pub struct Known {
    pub property: String,
    pub status: String,
    pub oracle: String,
    pub sig: String,
    pub text: String,
}

/// /verif/known_findings.json: never written at run time
pub fn load_known() -> Vec<Known> {
    let path = format!("{VERIF_DIR}/known_findings.json");
    let Ok(s) = std::fs::read_to_string(&path) else { return vec![] };
    let Ok(v) = serde_json::from_str::<Value>(&s) else {
        eprintln!("HARNESS-ERROR: {path} does not parse");
        std::process::exit(2);
    };
    let mut out = vec![];
    for f in v["findings"].as_array().cloned().unwrap_or_default() {
        out.push(Known {
            property: f["property"].as_str().unwrap_or("").into(),
            status: f["status"].as_str().unwrap_or("").into(),
            oracle: f["oracle"].as_str().unwrap_or("").into(),
            sig: f["sig"].as_str().unwrap_or("").into(),
            text: f["text"].as_str().unwrap_or("").into(),
        });
    }
    out
}

/// A violation is a known finding only if property, oracle id and signature all match an
/// entry with status "known" ("fixed" entries suppress nothing).
pub fn is_known(k: &[Known], v: &Violation) -> Option<Known> {
    k.iter()
        .find(|k| {
            k.status == "known"
                && k.property == v.property
                && k.oracle == v.oracle
                && (k.sig.is_empty() || k.sig == v.sig)
        })
        .cloned()
}

/// Writes /verif/replays/<property>/<name>.json and returns its path.
pub fn write_replay_doc(property: &str, name: &str, doc: &Value) -> String {
    let dir = format!("{VERIF_DIR}/replays/{property}");
    let _ = std::fs::create_dir_all(&dir);
    let path = format!("{dir}/{name}.json");
    std::fs::write(&path, serde_json::to_string_pretty(doc).unwrap()).unwrap();
    path
}

/// Triage helper: prints KNOWN-FINDING / VIOLATION lines and returns (exit code, new count,
/// known-seen map). `replay_for` is called once per distinct new oracle id to produce the
/// (minimised) replay file path.
pub fn triage(
    property: &str,
    violations: &[(u64, Violation)],
    mut replay_for: impl FnMut(u64, &Violation) -> String,
) -> (i32, u64, BTreeMap<String, u64>) {
    let known = load_known();
    let mut exit = 0;
    let mut known_seen: BTreeMap<String, u64> = BTreeMap::new();
    let mut reported: std::collections::BTreeSet<String> = Default::default();
    let mut new_violations = 0u64;
    for (seed, v) in violations {
        if let Some(k) = is_known(&known, v) {
            *known_seen.entry(format!("{} {}", v.oracle, k.text)).or_insert(0) += 1;
            continue;
        }
        new_violations += 1;
        if !reported.insert(v.oracle.clone()) || reported.len() > 4 {
            continue;
        }
        let path = replay_for(*seed, v);
        println!("violation (seed {seed}): {} :: {}", v.oracle, v.detail);
        println!("VIOLATION property={property} replay={path}");
        exit = 1;
    }
    for (k, n) in &known_seen {
        let (oracle, text) = k.split_once(' ').unwrap_or((k, ""));
        println!("KNOWN-FINDING: property={property} {text} [oracle {oracle}, seen in {n} runs]");
    }
    (exit, new_violations, known_seen)
}

/// Evidence file per /root/.vp/EVIDENCE.schema.json. `coverage` must contain evaluations,
/// distinct_nontrivial, rule and samples (measured by the engine) plus any extra keys.
pub fn write_evidence(
    a: &CheckArgs,
    level: &str,
    coverage: Value,
    assumptions: &[&str],
    wall_s: f64,
    violations: u64,
) {
    let ev = json!({
        "property_id": a.property,
        "tier": if a.thorough() { "thorough" } else { "quick" },
        "seed": a.seed,
        "level": level,
        "coverage": coverage,
        "assumptions": assumptions,
        "wall_s": wall_s,
        "violations": violations,
    });
    std::fs::write(evidence_path(&a.property), serde_json::to_string_pretty(&ev).unwrap()).unwrap();
}

/// /verif/evidence/<id>.json, or /verif/evidence/parts/<id>.<part>.json when the check script
/// runs several engines for one property (env VERIF_EVIDENCE_PART) and merges them afterwards.
pub fn evidence_path(property: &str) -> String {
    match std::env::var("VERIF_EVIDENCE_PART") {
        Ok(part) if !part.is_empty() => {
            let _ = std::fs::create_dir_all(format!("{VERIF_DIR}/evidence/parts"));
            format!("{VERIF_DIR}/evidence/parts/{property}.{part}.json")
        }
        _ => {
            let _ = std::fs::create_dir_all(format!("{VERIF_DIR}/evidence"));
            format!("{VERIF_DIR}/evidence/{property}.json")
        }
    }
}
