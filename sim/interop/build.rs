// The harness binary defines `clock_gettime` (virtual time for code without a clock seam) and
// `RAND_bytes` (seeded randomness for quiche/BoringSSL). BoringSSL's archive defines
// `RAND_bytes` too; the first definition (ours, object files precede archives) must win.
fn main() {
    println!("cargo:rustc-link-arg-bins=-Wl,--allow-multiple-definition");
}
