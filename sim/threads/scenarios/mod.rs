//! E4 scenario library (DESIGN 3.17 / 3.19 "Concurrent").  Public API of the code under test
//! only.  Included by `#[path]` from the shuttle runner (feature `shuttle`, s2n-quic-core built
//! through the shadow manifest with `--cfg aws_s2n_quic_verif`) and from the Miri runners (std
//! threads, unmodified crates).
//!
//! A scenario is `fn() -> Outcome`.  It draws its parameters from `rt::rand_u64()` (part of the
//! replayable schedule), spawns 2-3 threads, and checks its oracles; an oracle failure is a
//! panic whose message starts with `ORACLE|<oracle id>|<signature>|`.

#![allow(dead_code)]

pub mod rt;

#[cfg(feature = "core")]
pub mod cursor;
#[cfg(feature = "core")]
pub mod spsc;
#[cfg(feature = "core")]
pub mod waker;
#[cfg(feature = "core")]
pub mod worker;

#[cfg(feature = "platform")]
pub mod ring;

#[cfg(feature = "wakeupq")]
pub mod wakeupq;

#[cfg(feature = "dc")]
pub mod dc;
#[cfg(any(feature = "dc", feature = "lin"))]
pub mod lin;

use std::sync::{
    atomic::{AtomicU8, Ordering},
    Arc,
};

pub type RunFn = Arc<dyn Fn() -> Outcome + Send + Sync + 'static>;

#[derive(Clone)]
pub struct Scenario {
    pub name: String,
    pub property: &'static str,
    pub run: RunFn,
}

impl Scenario {
    pub fn new(name: impl Into<String>, property: &'static str, f: impl Fn() -> Outcome + Send + Sync + 'static) -> Self {
        Self { name: name.into(), property, run: Arc::new(f) }
    }
}

pub fn all() -> Vec<Scenario> {
    #[allow(unused_mut)]
    let mut v: Vec<Scenario> = vec![];
    #[cfg(feature = "core")]
    {
        v.extend(spsc::scenarios());
        v.extend(worker::scenarios());
        v.extend(waker::scenarios());
        v.extend(cursor::scenarios());
    }
    #[cfg(feature = "platform")]
    v.extend(ring::scenarios());
    #[cfg(feature = "wakeupq")]
    v.extend(wakeupq::scenarios());
    #[cfg(feature = "dc")]
    v.extend(dc::scenarios());
    v
}

/// What one execution looked like (for the evidence file; not a verdict).
#[derive(Clone, Debug)]
pub struct Outcome {
    /// drawn parameters, human readable
    pub params: String,
    /// hash of the merged, stamp-ordered event trace of all threads
    pub trace_hash: u64,
    /// at least one thread observed the other one mid-flight (see `Log::contended`)
    pub nontrivial: bool,
    pub events: u32,
    /// short rendering of the trace (samples in the evidence file)
    pub trace: String,
}

/// Oracle failure: unwinds out of the scenario with a parseable message.
#[track_caller]
pub fn fail(oracle: &str, sig: &str, detail: String) -> ! {
    panic!("ORACLE|{oracle}|{sig}|{detail}");
}

// ---------------------------------------------------------------------------------------------
// event log

#[derive(Clone, Copy, Debug)]
pub struct Ev {
    pub stamp: u64,
    pub who: u8,
    pub code: u8,
    pub arg: u32,
}

pub mod ev {
    pub const PUSH: u8 = 1;
    pub const FULL: u8 = 2; // producer found no space (spin) *
    pub const PEND_P: u8 = 3; // producer future returned Pending (parked) *
    pub const CLOSED_P: u8 = 4; // producer observed the peer's close *
    pub const DROP_P: u8 = 5;
    pub const GOT: u8 = 6;
    pub const EMPTY: u8 = 7; // consumer found nothing (spin) *
    pub const PEND_C: u8 = 8; // consumer future returned Pending (parked) *
    pub const CLOSED_C: u8 = 9; // consumer observed the close
    pub const DROP_C: u8 = 10;
    pub const WAKE: u8 = 11;
    pub const OP_INV: u8 = 12;
    pub const OP_RET: u8 = 13;
    pub const NAMES: [&str; 14] =
        ["?", "push", "full", "pendP", "closedP", "dropP", "got", "empty", "pendC", "closedC", "dropC", "wake", "inv", "ret"];
}

pub struct Log {
    who: u8,
    clock: Arc<rt::Clock>,
    pub evs: Vec<Ev>,
}

impl Log {
    pub fn new(who: u8, clock: &Arc<rt::Clock>) -> Self {
        Self { who, clock: clock.clone(), evs: Vec::with_capacity(32) }
    }
    #[inline]
    pub fn ev(&mut self, code: u8, arg: u32) -> u64 {
        let stamp = self.clock.stamp();
        // a spin loop repeating the same observation is one event, not thousands
        if let Some(last) = self.evs.last() {
            if last.code == code && last.arg == arg && matches!(code, ev::FULL | ev::EMPTY | ev::PEND_P | ev::PEND_C) {
                return stamp;
            }
        }
        self.evs.push(Ev { stamp, who: self.who, code, arg });
        stamp
    }
}

/// Merges the per-thread logs by stamp. `contended(code)` says which events prove that a
/// thread ran into the other one mid-flight.
pub fn finish(params: String, logs: Vec<Log>, contended: impl Fn(&Ev) -> bool) -> Outcome {
    let mut all: Vec<Ev> = logs.into_iter().flat_map(|l| l.evs).collect();
    all.sort_by_key(|e| e.stamp);
    let mut h = 0xcbf29ce484222325u64;
    let mut nontrivial = false;
    let mut trace = String::new();
    // number of thread switches in the observable trace
    let mut switches = 0;
    let mut last = 255u8;
    for e in &all {
        for b in [e.who as u64, e.code as u64, e.arg as u64] {
            h = (h ^ b).wrapping_mul(0x100000001b3);
            h ^= h >> 29;
        }
        if contended(e) {
            nontrivial = true;
        }
        if e.who != last {
            switches += 1;
            last = e.who;
        }
        if trace.len() < 400 {
            use std::fmt::Write;
            let _ = write!(trace, "{}:{}{} ", e.who, ev::NAMES.get(e.code as usize).unwrap_or(&"?"), e.arg);
        }
    }
    let _ = switches;
    Outcome { params, trace_hash: h, nontrivial, events: all.len() as u32, trace }
}

pub fn default_contended(e: &Ev) -> bool {
    matches!(e.code, ev::FULL | ev::PEND_P | ev::CLOSED_P | ev::EMPTY | ev::PEND_C)
}

// ---------------------------------------------------------------------------------------------
// heap values with a canary and a drop tally

const CANARY: u64 = 0x5afe_c0de_d00d_f00d;
const DEAD: u64 = 0xdead_dead_dead_dead;

pub struct Tally {
    drops: Vec<AtomicU8>,
    bad: AtomicU8,
}

impl Tally {
    pub fn new(n: usize) -> Arc<Self> {
        Arc::new(Self { drops: (0..n).map(|_| AtomicU8::new(0)).collect(), bad: AtomicU8::new(0) })
    }

    /// after all threads are joined: every created item dropped exactly once
    pub fn check(&self, created: usize, scenario_sig: &str) {
        if self.bad.load(Ordering::Relaxed) != 0 {
            fail("c17.canary", scenario_sig, "an item with a damaged canary was dropped".into());
        }
        for (i, d) in self.drops.iter().enumerate() {
            let d = d.load(Ordering::Relaxed);
            if i < created && d == 0 {
                fail("c17.leak", scenario_sig, format!("item {i} of {created} was never dropped"));
            }
            if d > 1 {
                fail("c17.double_drop", scenario_sig, format!("item {i} dropped {d} times"));
            }
            if i >= created && d != 0 {
                fail("c17.phantom", scenario_sig, format!("item {i} was never created but dropped"));
            }
        }
    }
}

pub struct Item {
    pub id: u32,
    canary: u64,
    tally: Arc<Tally>,
}

pub type Val = Box<Item>;

impl Item {
    pub fn new(id: u32, tally: &Arc<Tally>) -> Val {
        Box::new(Item { id, canary: CANARY ^ id as u64, tally: tally.clone() })
    }

    /// torn / uninitialised / already dropped slot contents
    pub fn check(&self, sig: &str) {
        if self.canary != CANARY ^ self.id as u64 {
            fail("c17.canary", sig, format!("item id {} has canary {:#x}", self.id, self.canary));
        }
    }
}

impl Drop for Item {
    fn drop(&mut self) {
        if self.canary != CANARY ^ self.id as u64 {
            self.tally.bad.store(1, Ordering::Relaxed);
        }
        self.canary = DEAD;
        if let Some(d) = self.tally.drops.get(self.id as usize) {
            d.fetch_add(1, Ordering::Relaxed);
        }
    }
}

#[derive(Clone, Copy, Debug, PartialEq, Eq)]
pub enum Mode {
    Spin,
    Async,
}

impl Mode {
    pub fn name(self) -> &'static str {
        match self {
            Mode::Spin => "spin",
            Mode::Async => "async",
        }
    }
}

/// joins a scenario thread, forwarding its panic (oracle message) unchanged
pub fn join<T>(h: rt::JoinHandle<T>) -> T {
    match h.join() {
        Ok(v) => v,
        Err(p) => std::panic::resume_unwind(p),
    }
}
