//! `s2n_quic_core::sync::spsc` — producer thread x consumer thread, capacity 1-4, 0-3 batches,
//! spin/async on either side, close/drop of either side at every point.
//!
//! kinds
//!  * `drain`  producer pushes p items (p may be 0) and drops; consumer reads until `Closed`
//!             -> receives exactly the p items, in order, then `Closed` (also while parked).
//!  * `rxdrop` consumer drops after k < p items (k may be 0: drop before anything was pushed,
//!             producer possibly parked on a full queue) -> producer is released with `Closed`
//!             or finishes; undelivered items are dropped exactly once.
//!  * `both`   consumer drops after k <= p items while the producer drops right after its last
//!             push: both sides close at (almost) the same time.
//!
//! In `drain` and `rxdrop` the side that closes second waits (harness flag, release/acquire)
//! until the first closer's `drop` has *returned*; only `both` lets the two `close` calls
//! overlap.  This keeps the concurrent-close race (finding F3) confined to the `both`
//! scenarios so that it cannot mask anything else in the other eight.

use super::{ev, fail, finish, join, rt, Item, Log, Mode, Outcome, Scenario, Tally, Val};
use s2n_quic_core::sync::spsc::{self, PushError, Receiver, Sender};
use std::{
    future::poll_fn,
    sync::{
        atomic::{AtomicBool, Ordering},
        Arc,
    },
    task::Poll,
};

/// harness-level ordering of the two `drop`s (not used in `both`)
#[derive(Default)]
struct Gate {
    tx_gone: AtomicBool,
    rx_gone: AtomicBool,
}

fn wait(flag: &AtomicBool) {
    while !flag.load(Ordering::Acquire) {
        rt::spin();
    }
}

#[derive(Clone, Copy, Debug, PartialEq, Eq)]
pub enum Kind {
    Drain,
    RxDrop,
    Both,
}

impl Kind {
    fn name(self) -> &'static str {
        match self {
            Kind::Drain => "drain",
            Kind::RxDrop => "rxdrop",
            Kind::Both => "both",
        }
    }
}

pub fn scenarios() -> Vec<Scenario> {
    let mut v = vec![];
    for pm in [Mode::Spin, Mode::Async] {
        for cm in [Mode::Spin, Mode::Async] {
            for kind in [Kind::Drain, Kind::RxDrop, Kind::Both] {
                let name = format!("spsc.{}-{}.{}", pm.name(), cm.name(), kind.name());
                v.push(Scenario::new(name, "C17", move || run(pm, cm, kind)));
            }
        }
    }
    v
}

#[derive(Clone, Debug)]
struct Params {
    cap: usize,
    plan: Vec<usize>,
    take: Option<u32>,
    rbatch: usize,
    extend: bool,
    peek: bool,
}

fn draw(kind: Kind) -> Params {
    let cap = rt::range(1, 4) as usize;
    let batches = if rt::below(8) == 0 { 0 } else { rt::range(1, 3) as usize };
    let plan: Vec<usize> = (0..batches).map(|_| rt::range(1, cap as u64 + 1) as usize).collect();
    let p: usize = plan.iter().sum();
    let take = match kind {
        Kind::Drain => None,
        Kind::RxDrop => Some(if p == 0 { 0 } else { rt::below(p as u64) as u32 }),
        Kind::Both => Some(if rt::coin() { p as u32 } else { rt::range(0, p as u64) as u32 }),
    };
    Params { cap, plan, take, rbatch: rt::range(1, cap as u64) as usize, extend: rt::below(4) == 0, peek: rt::below(3) == 0 }
}

pub fn run(pm: Mode, cm: Mode, kind: Kind) -> Outcome {
    let p = draw(kind);
    let sig = match kind {
        Kind::Drain => "spsc.drain",
        Kind::RxDrop => "spsc.rxdrop",
        Kind::Both => "spsc.both",
    };
    let total: usize = p.plan.iter().sum();
    // +1: an item handed back by `PushError::Full` may be created but never pushed
    let tally = Tally::new(total + 1);
    let clock = Arc::new(rt::Clock::new());
    let (tx, rx) = spsc::channel::<Val>(p.cap);
    let gate = Arc::new(Gate::default());

    let prod = {
        let (plan, tally, log, extend, gate) = (p.plan.clone(), tally.clone(), Log::new(0, &clock), p.extend, gate.clone());
        rt::spawn(move || producer(tx, pm, plan, extend, tally, log, kind, gate))
    };
    let cons = {
        let (take, rbatch, peek, log, gate) = (p.take, p.rbatch, p.peek, Log::new(1, &clock), gate.clone());
        rt::spawn(move || consumer(rx, cm, take, rbatch, peek, log, sig, kind, gate))
    };
    let (sent, created, plog) = join(prod);
    let (got, closed, clog) = join(cons);

    if got > sent {
        fail("c17.count", sig, format!("received {got} items but only {sent} pushes succeeded"));
    }
    match p.take {
        None => {
            if !closed || got != sent {
                fail("c17.count", sig, format!("sender dropped after {sent} items; receiver got {got}, closed={closed}"));
            }
        }
        Some(k) => {
            if !(got == k || (closed && got == sent)) {
                fail("c17.count", sig, format!("receiver wanted {k}, got {got}, closed={closed}, sent {sent}"));
            }
        }
    }
    tally.check(created as usize, sig);
    finish(format!("{p:?}"), vec![plog, clog], super::default_contended)
}

struct Source<'a> {
    next_id: &'a mut u32,
    left: usize,
    tally: &'a Arc<Tally>,
}

impl Iterator for Source<'_> {
    type Item = Val;
    fn next(&mut self) -> Option<Val> {
        if self.left == 0 {
            return None;
        }
        self.left -= 1;
        let v = Item::new(*self.next_id, self.tally);
        *self.next_id += 1;
        Some(v)
    }
}

fn producer(
    mut tx: Sender<Val>,
    mode: Mode,
    plan: Vec<usize>,
    extend: bool,
    tally: Arc<Tally>,
    mut log: Log,
    kind: Kind,
    gate: Arc<Gate>,
) -> (u32, u32, Log) {
    let mut next_id = 0u32;
    let mut sent = 0u32;
    let mut pending: Option<Val> = None;
    'outer: for &bn in &plan {
        let mut left = bn;
        while left > 0 {
            // wait for space
            match mode {
                Mode::Spin => loop {
                    match tx.try_slice() {
                        Ok(Some(s)) => {
                            drop(s);
                            break;
                        }
                        Ok(None) => {
                            log.ev(ev::FULL, sent);
                            rt::spin();
                        }
                        Err(_) => {
                            log.ev(ev::CLOSED_P, sent);
                            break 'outer;
                        }
                    }
                },
                Mode::Async => {
                    let r = rt::block_on(poll_fn(|cx| match tx.poll_slice(cx) {
                        Poll::Ready(r) => Poll::Ready(r.map(|_| ())),
                        Poll::Pending => {
                            log.ev(ev::PEND_P, sent);
                            Poll::Pending
                        }
                    }));
                    if r.is_err() {
                        log.ev(ev::CLOSED_P, sent);
                        break 'outer;
                    }
                }
            }
            let mut s = tx.slice();
            if extend && pending.is_none() {
                let before = next_id;
                let mut src = Source { next_id: &mut next_id, left, tally: &tally };
                let r = s.extend(&mut src);
                let n = next_id - before;
                for i in 0..n {
                    log.ev(ev::PUSH, before + i);
                }
                sent += n;
                left -= n as usize;
                if r.is_err() {
                    log.ev(ev::CLOSED_P, sent);
                    break 'outer;
                }
            } else {
                while left > 0 {
                    let v = pending.take().unwrap_or_else(|| {
                        let v = Item::new(next_id, &tally);
                        next_id += 1;
                        v
                    });
                    let id = v.id;
                    match s.push(v) {
                        Ok(()) => {
                            log.ev(ev::PUSH, id);
                            sent += 1;
                            left -= 1;
                        }
                        Err(PushError::Full(v)) => {
                            pending = Some(v);
                            break;
                        }
                        Err(PushError::Closed) => {
                            log.ev(ev::CLOSED_P, sent);
                            break 'outer;
                        }
                    }
                }
            }
            // dropping the slice publishes the tail and wakes the consumer
        }
    }
    drop(pending);
    if kind == Kind::RxDrop {
        wait(&gate.rx_gone);
    }
    log.ev(ev::DROP_P, sent);
    drop(tx);
    gate.tx_gone.store(true, Ordering::Release);
    (sent, next_id, log)
}

fn consumer(
    mut rx: Receiver<Val>,
    mode: Mode,
    take: Option<u32>,
    rbatch: usize,
    peek: bool,
    mut log: Log,
    sig: &'static str,
    kind: Kind,
    gate: Arc<Gate>,
) -> (u32, bool, Log) {
    let mut got = 0u32;
    let mut closed = false;
    'outer: loop {
        if let Some(k) = take {
            if got >= k {
                break;
            }
        }
        match mode {
            Mode::Spin => loop {
                match rx.try_slice() {
                    Ok(Some(s)) => {
                        drop(s);
                        break;
                    }
                    Ok(None) => {
                        log.ev(ev::EMPTY, got);
                        rt::spin();
                    }
                    Err(_) => {
                        closed = true;
                        log.ev(ev::CLOSED_C, got);
                        break 'outer;
                    }
                }
            },
            Mode::Async => {
                let r = rt::block_on(poll_fn(|cx| match rx.poll_slice(cx) {
                    Poll::Ready(r) => Poll::Ready(r.map(|_| ())),
                    Poll::Pending => {
                        log.ev(ev::PEND_C, got);
                        Poll::Pending
                    }
                }));
                if r.is_err() {
                    closed = true;
                    log.ev(ev::CLOSED_C, got);
                    break 'outer;
                }
            }
        }
        let limit = rbatch.min(take.map(|k| (k - got) as usize).unwrap_or(usize::MAX));
        let mut s = rx.slice();
        if peek {
            let (a, b) = s.peek();
            let n = (a.len() + b.len()).min(limit);
            for (i, v) in a.iter().chain(b.iter()).take(n).enumerate() {
                v.check(sig);
                if v.id != got + i as u32 {
                    fail("c17.order", sig, format!("expected item {} got {}", got + i as u32, v.id));
                }
            }
            s.release(n);
            for i in 0..n {
                log.ev(ev::GOT, got + i as u32);
            }
            got += n as u32;
        } else {
            let mut n = 0;
            while n < limit {
                match s.pop() {
                    Some(v) => {
                        v.check(sig);
                        if v.id != got {
                            fail("c17.order", sig, format!("expected item {got} got {}", v.id));
                        }
                        log.ev(ev::GOT, got);
                        got += 1;
                        n += 1;
                    }
                    None => break,
                }
            }
        }
        // dropping the slice publishes the head and wakes the producer
    }
    if kind == Kind::Drain {
        wait(&gate.tx_gone);
    }
    log.ev(ev::DROP_C, got);
    drop(rx);
    gate.rx_gone.store(true, Ordering::Release);
    (got, closed, log)
}
