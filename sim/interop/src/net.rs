//! SimNet (after qsim/src/net.rs): the only transport both implementations see.  Implements
//! the testing IO provider's `Network` trait deterministically (hosts in a fixed order, fates
//! a pure function of the plan).  No corruption faults: fates never depend on datagram bytes.

use crate::plan::{Action, Dir, Fault, Plan, When};
use s2n_quic::provider::io::testing::{
    self as io,
    network::{Buffers, Network, Packet},
};
use s2n_quic_core::inet::SocketAddress;
use simkit::hashn;
use std::{
    collections::BTreeMap,
    sync::{Arc, Mutex},
    time::Duration,
};

#[derive(Clone, Debug)]
pub struct NetRec {
    pub t_send_ns: u64,
    pub dir: Dir,
    pub ordinal: u64,
    pub len: usize,
    /// delivery instants (ns); empty = dropped
    pub deliveries: Vec<u64>,
    pub fate: &'static str,
}

#[derive(Default, Debug)]
pub struct NetState {
    /// (address, direction of the datagrams this host emits)
    pub hosts: Vec<(SocketAddress, Dir)>,
    pub log: Vec<NetRec>,
    pub fired: BTreeMap<&'static str, u64>,
    /// virtual time of the first / last fault that fired (path_mtu drops excluded)
    pub first_fault_ns: Option<u64>,
    pub last_fault_ns: Option<u64>,
    /// path_mtu / MtuDrop only
    pub first_mtu_drop_ns: Option<u64>,
    pub delivered: u64,
    /// the run exceeded the datagram budget: from `overloaded_at_ns` on everything is dropped
    /// so that the run ends by idle timeouts; the plan is excluded (harness note, no verdict)
    pub overloaded_at_ns: Option<u64>,
}

/// far above what any planned workload needs (3 MiB = a few thousand datagrams); only
/// configuration-induced acknowledgement / *_BLOCKED ping-pong storms get here
pub const MAX_DATAGRAMS: usize = 250_000;
/// wall-clock backstop per execution (real time: SimNet runs outside the virtual clock)
pub const MAX_WALL: Duration = Duration::from_secs(40);

pub type SharedNet = Arc<Mutex<NetState>>;

pub struct SimNet {
    pub shared: SharedNet,
    faults: Vec<Fault>,
    delay_key: u64,
    base_delay_us: u64,
    jitter_us: u64,
    path_mtu: u16,
    faults_end_us: u64,
    ord: [u64; 2],
    started: std::time::Instant,
}

impl SimNet {
    pub fn new(plan: &Plan, shared: SharedNet) -> Self {
        SimNet {
            shared,
            faults: plan.faults.clone(),
            delay_key: plan.delay_key,
            base_delay_us: plan.base_delay_us,
            jitter_us: plan.jitter_us,
            path_mtu: plan.path_mtu,
            faults_end_us: plan.faults_end_us,
            ord: [0; 2],
            started: std::time::Instant::now(),
        }
    }

    fn actions_for(&self, dir: Dir, n: u64, now_us: u64) -> Vec<Action> {
        if now_us >= self.faults_end_us {
            return vec![];
        }
        let mut out = vec![];
        for f in &self.faults {
            let hit = match &f.when {
                When::Nth { dir: d, n: k } => *d == dir && *k == n,
                When::Window { dir: d, from_us, to_us, permille, key } => {
                    d.map_or(true, |d| d == dir)
                        && now_us >= *from_us
                        && now_us < *to_us
                        && (hashn(*key, &[dir.idx() as u64, n]) % 1000) < *permille as u64
                }
            };
            if hit {
                out.push(f.action.clone());
            }
        }
        out
    }
}

pub fn now_ns() -> u64 {
    let t = io::now();
    unsafe { t.as_duration().as_nanos() as u64 }
}

fn schedule(buffers: &Buffers, shared: &SharedNet, mut packet: Packet, at_ns: u64) {
    // reverse the addresses so dst/src are correct for the receiver
    packet.switch();
    let buffers = buffers.clone();
    let shared = shared.clone();
    let now = now_ns();
    io::spawn(async move {
        if at_ns > now {
            io::time::delay(Duration::from_nanos(at_ns - now)).await;
        }
        let dst: SocketAddress = packet.path.local_address.0;
        shared.lock().unwrap().delivered += 1;
        buffers.rx(dst, |queue| queue.enqueue(packet));
    });
}

impl Network for SimNet {
    fn execute(&mut self, buffers: &Buffers) -> usize {
        let hosts = self.shared.lock().unwrap().hosts.clone();
        let now = now_ns();
        let now_us = now / 1000;
        let mut count = 0usize;
        for (addr, dir) in &hosts {
            let mut packets: Vec<Packet> = vec![];
            buffers.tx(*addr, |q| packets.extend(q.drain()));
            for packet in packets {
                count += 1;
                let dir = *dir;
                let di = dir.idx();
                let n = self.ord[di];
                self.ord[di] += 1;
                let len = packet.payload.len();
                let mut rec = NetRec { t_send_ns: now, dir, ordinal: n, len, deliveries: vec![], fate: "ok" };
                let jitter = if self.jitter_us > 0 {
                    hashn(self.delay_key, &[di as u64, n]) % (self.jitter_us + 1)
                } else {
                    0
                };
                let mut delay_ns = (self.base_delay_us + jitter) * 1000;
                let mut deliver = true;
                let mut dup: Vec<u64> = vec![];
                let mut sh = self.shared.lock().unwrap();
                if sh.overloaded_at_ns.is_none()
                    && (sh.log.len() >= MAX_DATAGRAMS || (sh.log.len() % 1024 == 0 && self.started.elapsed() > MAX_WALL))
                {
                    sh.overloaded_at_ns = Some(now);
                }
                if sh.overloaded_at_ns.is_some() {
                    // not logged: the trace ends here
                    continue;
                }
                if len > self.path_mtu as usize {
                    deliver = false;
                    rec.fate = "path_mtu";
                    *sh.fired.entry("path_mtu_drop").or_insert(0) += 1;
                    sh.first_mtu_drop_ns.get_or_insert(now);
                } else {
                    for a in self.actions_for(dir, n, now_us) {
                        let mut fired = true;
                        match a {
                            Action::Drop => {
                                deliver = false;
                                rec.fate = "drop";
                            }
                            Action::Dup { extra_us } => {
                                dup.push(extra_us * 1000);
                                if rec.fate == "ok" {
                                    rec.fate = "dup";
                                }
                            }
                            Action::Delay { us } => {
                                delay_ns += us * 1000;
                                if rec.fate == "ok" {
                                    rec.fate = "delay";
                                }
                            }
                            Action::MtuDrop { limit } => {
                                if len > limit as usize {
                                    deliver = false;
                                    rec.fate = "mtu_drop";
                                } else {
                                    fired = false;
                                }
                            }
                        }
                        if fired {
                            *sh.fired.entry(a.kind()).or_insert(0) += 1;
                            sh.first_fault_ns.get_or_insert(now);
                            sh.last_fault_ns = Some(now);
                        }
                    }
                }
                drop(sh);
                if deliver {
                    rec.deliveries.push(now + delay_ns);
                    for extra in dup {
                        rec.deliveries.push(now + delay_ns + extra);
                    }
                    for at in &rec.deliveries {
                        let p = Packet { path: packet.path, ecn: packet.ecn, payload: packet.payload.clone() };
                        schedule(buffers, &self.shared, p, *at);
                    }
                }
                self.shared.lock().unwrap().log.push(rec);
            }
        }
        count
    }
}
