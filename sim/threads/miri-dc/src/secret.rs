//! Scaffold that lets `dc/s2n-quic-dc/src/path/secret/sender.rs` compile *verbatim* outside its
//! crate (the module is private there and `update_for_stale_key` is `pub(super)`).
//! Real: every line of sender.rs (State, next_key_id, update_for_stale_key).
//! Stub: the three items it names from its surroundings, none of which the scenarios call.

pub mod schedule {
    pub struct Secret;
    impl Secret {
        pub fn control_opener(&self) -> crate::crypto::awslc::open::control::Secret {
            crate::crypto::awslc::open::control::Secret
        }
    }
}

pub mod map {
    pub(crate) trait SizeOf: Sized {
        fn size(&self) -> usize {
            std::mem::size_of::<Self>()
        }
    }
    impl SizeOf for std::sync::atomic::AtomicU64 {}
}

#[allow(dead_code, unused_imports, clippy::all)]
#[path = "../../repo/dc/s2n-quic-dc/src/path/secret/sender.rs"]
pub mod sender;

/// `update_for_stale_key` is `pub(super)`: reachable from here, its parent module
pub fn update_for_stale_key(state: &sender::State, min_key_id: s2n_quic_core::varint::VarInt) {
    state.update_for_stale_key(min_key_id)
}
