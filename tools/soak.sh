#!/bin/bash
# soak: run the qsim-served checks on other seed ranges; prints one line per (property, seed)
# usage: soak.sh <seed> <runs> [ids...]
SEED=$1; RUNS=$2; shift 2
IDS="${@:-C01 C02 C03 C04 C05 C06 C08 C11 C12 C13 C14}"
cd /verif/sim
for id in $IDS; do
  VERIF_SIGS=1 ./target/release/qsim check $id --seed $SEED --runs $RUNS --budget-s 3000 > /tmp/soak_${id}_$SEED.log 2>&1
  echo "$id seed=$SEED rc=$? $(grep -E '^check' /tmp/soak_${id}_$SEED.log | sed 's/.*runs=/runs=/' | cut -c1-160)"
  grep -E '^sig' /tmp/soak_${id}_$SEED.log | grep -v KNOWN | head -5
done
