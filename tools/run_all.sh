#!/bin/bash
# runs every claimed check (quick tier by default) and prints a table: id exit wall
TIER="${1:-quick}"
cd /verif
ids=$(python3 -c "import json; print(' '.join(c['property_id'] for c in json.load(open('MANIFEST.json'))['checks']))")
for id in $ids; do
  t0=$(date +%s)
  ./check $id --tier $TIER > /tmp/run_all_$id.log 2>&1
  rc=$?
  t1=$(date +%s)
  echo "$id exit=$rc wall=$((t1-t0))s $(grep -c '^KNOWN-FINDING' /tmp/run_all_$id.log) known $(grep -c '^VIOLATION' /tmp/run_all_$id.log) violations"
done
