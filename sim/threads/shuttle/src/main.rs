//! E4 / shuttle child process.  Runs one chunk = (scenario, scheduler, chunk seed, n iterations)
//! under a seeded shuttle scheduler.  The replay coordinate of a failure is
//! (scenario, scheduler, chunk seed, iteration index): re-running the same chunk up to that
//! index re-derives the identical schedule and workload (shuttle::rand is part of the schedule),
//! also for failures that kill the process (AddressSanitizer).
//!
//! usage: threads-shuttle list
//!        threads-shuttle run --scenario NAME --sched random|pct:<depth> --seed S --iters N
//!                            [--persist-dir DIR] [--hashes FILE] [--samples K]
//!        threads-shuttle replay-schedule --scenario NAME --file SCHEDULE
//! stdout protocol (one line each):
//!   RESULT iters=<n> nontrivial=<m> events=<total> asan_reports=<k>
//!   SAMPLE <params> :: <trace>
//!   FAIL iter=<i> msg=<panic message, one line>
//! stderr: AddressSanitizer reports, each followed by `@@ASAN-ITER <i>` (the build recovers
//!   after a report; run with ASAN_OPTIONS=halt_on_error=0), `ASAN-DEATH iter=<i>` if the
//!   process is killed after all.
//! exit: 0 chunk completed, 3 oracle/panic failure (FAIL line printed), other = killed.

#[path = "../../scenarios/mod.rs"]
mod scenarios;

use std::{
    io::Write,
    sync::{
        atomic::{AtomicU64, Ordering},
        Arc, Mutex,
    },
};

static ITER: AtomicU64 = AtomicU64::new(0);
static PANIC_MSG: Mutex<Option<String>> = Mutex::new(None);

#[cfg(feature = "asan")]
extern "C" {
    fn __sanitizer_set_death_callback(cb: Option<extern "C" fn()>);
    fn __asan_set_error_report_callback(cb: Option<extern "C" fn(*const libc::c_char)>);
    fn __asan_get_report_address() -> *mut libc::c_void;
    fn __asan_locate_address(
        addr: *mut libc::c_void,
        name: *mut libc::c_char,
        name_size: usize,
        region_address: *mut *mut libc::c_void,
        region_size: *mut usize,
    ) -> *const libc::c_char;
    fn __asan_unpoison_memory_region(addr: *const libc::c_void, size: usize);
}

/// number of AddressSanitizer reports so far (the build uses -Zsanitizer-recover=address and
/// runs with halt_on_error=0, so a report does not end the chunk)
static ASAN_REPORTS: AtomicU64 = AtomicU64::new(0);

/// Called by ASan after it has printed a report to stderr: tag the report with the iteration.
///
/// One bad access is normally followed by dozens more into the same freed block (the rest of
/// the function that holds the dangling reference). To get exactly one (expensive, fully
/// unwound) report per freed block and let the iteration and the chunk continue, the block the
/// report is about is unpoisoned here; it stays in ASan's quarantine, so it is not reused.
#[cfg(feature = "asan")]
extern "C" fn on_report(_report: *const libc::c_char) {
    ASAN_REPORTS.fetch_add(1, Ordering::Relaxed);
    unsafe {
        let addr = __asan_get_report_address();
        let mut name = [0 as libc::c_char; 32];
        let mut start: *mut libc::c_void = std::ptr::null_mut();
        let mut size = 0usize;
        let kind = __asan_locate_address(addr, name.as_mut_ptr(), name.len(), &mut start, &mut size);
        if !kind.is_null() && libc::strcmp(kind, b"heap\0".as_ptr() as *const _) == 0 && size > 0 && size < (1 << 20) {
            __asan_unpoison_memory_region(start, size);
        }
    }
    emit(b"\n@@ASAN-ITER ", 2);
}

extern "C" fn on_death() {
    emit(b"\nASAN-DEATH iter=", 3);
}

/// async-signal-safe: format into a stack buffer, one write(2) per fd (bit 1: stdout, bit 2: stderr)
fn emit(prefix: &[u8], fds: u8) {
    let it = ITER.load(Ordering::Relaxed).wrapping_sub(1);
    let mut buf = [0u8; 64];
    buf[..prefix.len()].copy_from_slice(prefix);
    let mut n = prefix.len();
    let mut digits = [0u8; 20];
    let mut d = 0;
    let mut v = it;
    loop {
        digits[d] = b'0' + (v % 10) as u8;
        d += 1;
        v /= 10;
        if v == 0 {
            break;
        }
    }
    while d > 0 {
        d -= 1;
        buf[n] = digits[d];
        n += 1;
    }
    buf[n] = b'\n';
    n += 1;
    unsafe {
        if fds & 2 != 0 {
            libc::write(2, buf.as_ptr() as *const _, n);
        }
        if fds & 1 != 0 {
            libc::write(1, buf.as_ptr() as *const _, n);
        }
    }
}

extern "C" fn on_signal(sig: libc::c_int) {
    on_death();
    unsafe { libc::_exit(128 + sig) }
}

fn arg(args: &[String], key: &str) -> Option<String> {
    args.iter().position(|a| a == key).and_then(|i| args.get(i + 1).cloned())
}

fn main() {
    let args: Vec<String> = std::env::args().skip(1).collect();
    let all = scenarios::all();
    match args.first().map(|s| s.as_str()) {
        Some("list") => {
            for s in &all {
                println!("{} {}", s.name, s.property);
            }
            return;
        }
        Some("run") | Some("replay-schedule") => {}
        _ => {
            eprintln!("usage: threads-shuttle list | run ... | replay-schedule ...");
            std::process::exit(2);
        }
    }
    let name = arg(&args, "--scenario").unwrap_or_default();
    let Some(sc) = all.iter().find(|s| s.name == name).cloned() else {
        eprintln!("unknown scenario {name}");
        std::process::exit(2);
    };

    #[cfg(feature = "asan")]
    unsafe {
        __sanitizer_set_death_callback(Some(on_death));
        __asan_set_error_report_callback(Some(on_report));
    }
    #[cfg(not(feature = "asan"))]
    unsafe {
        for s in [libc::SIGSEGV, libc::SIGBUS, libc::SIGILL, libc::SIGABRT] {
            libc::signal(s, on_signal as usize);
        }
    }
    let _ = on_signal as extern "C" fn(libc::c_int);

    // keep the default hook quiet for expected oracle panics, but remember the message
    std::panic::set_hook(Box::new(|info| {
        let msg = if let Some(s) = info.payload().downcast_ref::<&str>() {
            s.to_string()
        } else if let Some(s) = info.payload().downcast_ref::<String>() {
            s.clone()
        } else {
            "<non-string panic>".to_string()
        };
        let loc = info.location().map(|l| format!(" @{}:{}", l.file(), l.line())).unwrap_or_default();
        let mut g = PANIC_MSG.lock().unwrap_or_else(|e| e.into_inner());
        // the first panic is the cause; shuttle re-panics with wrappers afterwards
        if g.is_none() {
            *g = Some(format!("{msg}{loc}"));
        }
    }));

    let stats = Arc::new(Stats::default());
    let samples_wanted: usize = arg(&args, "--samples").and_then(|s| s.parse().ok()).unwrap_or(1);
    let body = {
        let stats = stats.clone();
        let run = sc.run.clone();
        move || {
            ITER.fetch_add(1, Ordering::Relaxed);
            let o = run();
            stats.evaluations.fetch_add(1, Ordering::Relaxed);
            stats.events.fetch_add(o.events as u64, Ordering::Relaxed);
            let mut g = stats.inner.lock().unwrap();
            if o.nontrivial {
                g.nontrivial += 1;
                g.hashes.push(o.trace_hash);
            }
            if g.samples.len() < samples_wanted && (o.nontrivial || g.samples.is_empty()) {
                if o.nontrivial && g.samples.len() == 1 && !g.first_sample_nontrivial {
                    g.samples.clear();
                }
                g.first_sample_nontrivial |= o.nontrivial;
                g.samples.push(format!("{} :: {}", o.params, o.trace));
            }
        }
    };

    let mut config = shuttle::Config::new();
    config.max_steps = shuttle::MaxSteps::FailAfter(200_000);
    config.silence_warnings = true;
    config.failure_persistence = match arg(&args, "--persist-dir") {
        Some(d) => shuttle::FailurePersistence::File(Some(d.into())),
        None => shuttle::FailurePersistence::None,
    };

    let result = if args[0] == "replay-schedule" {
        let file = arg(&args, "--file").expect("--file");
        std::panic::catch_unwind(std::panic::AssertUnwindSafe(|| shuttle::replay_from_file(body, &file)))
    } else {
        let sched = arg(&args, "--sched").unwrap_or_else(|| "random".into());
        let seed: u64 = arg(&args, "--seed").and_then(|s| s.parse().ok()).unwrap_or(1);
        let iters: usize = arg(&args, "--iters").and_then(|s| s.parse().ok()).unwrap_or(1000);
        std::env::remove_var("SHUTTLE_RANDOM_SEED");
        std::panic::catch_unwind(std::panic::AssertUnwindSafe(|| {
            if let Some(d) = sched.strip_prefix("pct:") {
                let depth: usize = d.parse().expect("pct depth");
                let s = shuttle::scheduler::PctScheduler::new_from_seed(seed, depth, iters);
                shuttle::Runner::new(s, config).run(body);
            } else {
                let s = shuttle::scheduler::RandomScheduler::new_from_seed(seed, iters);
                shuttle::Runner::new(s, config).run(body);
            }
        }))
    };

    let out = std::io::stdout();
    let mut out = out.lock();
    let g = stats.inner.lock().unwrap_or_else(|e| e.into_inner());
    let _ = writeln!(
        out,
        "RESULT iters={} nontrivial={} events={} asan_reports={}",
        stats.evaluations.load(Ordering::Relaxed),
        g.nontrivial,
        stats.events.load(Ordering::Relaxed),
        asan_reports()
    );
    for s in &g.samples {
        let _ = writeln!(out, "SAMPLE {s}");
    }
    if let Some(path) = arg(&args, "--hashes") {
        let mut bytes = Vec::with_capacity(g.hashes.len() * 8);
        for h in &g.hashes {
            bytes.extend_from_slice(&h.to_le_bytes());
        }
        let _ = std::fs::write(path, bytes);
    }
    if result.is_err() {
        let msg = PANIC_MSG.lock().unwrap_or_else(|e| e.into_inner()).clone().unwrap_or_default();
        let msg = msg.replace('\n', " ");
        let _ = writeln!(out, "FAIL iter={} msg={}", ITER.load(Ordering::Relaxed).wrapping_sub(1), msg);
        let _ = out.flush();
        // do not run destructors of a half torn-down execution
        unsafe { libc::_exit(3) }
    }
}

fn asan_reports() -> u64 {
    #[cfg(feature = "asan")]
    return ASAN_REPORTS.load(Ordering::Relaxed);
    #[cfg(not(feature = "asan"))]
    0
}

#[derive(Default)]
struct Stats {
    evaluations: AtomicU64,
    events: AtomicU64,
    inner: Mutex<Inner>,
}

#[derive(Default)]
struct Inner {
    nontrivial: u64,
    hashes: Vec<u64>,
    samples: Vec<String>,
    first_sample_nontrivial: bool,
}
