pub mod attack;
pub mod byz;
pub mod gen;
pub mod harness;
pub mod kernel;
pub mod net;
pub mod obs;
pub mod oracle;
pub mod oracle2;
pub mod oracle3;
pub mod oracle4;
pub mod oracle5;
pub mod oracle6;
pub mod oracle7;
pub mod oracle8;
pub mod oracle9;
pub mod plan;
pub mod providers;
pub mod run;
pub mod simtls;
pub mod wire;

fn main() {
    run::install_panic_hook();
    let args: Vec<String> = std::env::args().collect();
    let code = harness::main(&args[1..]);
    std::process::exit(code);
}
