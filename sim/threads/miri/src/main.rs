//! E4 / Miri runner for C17: the scenario library on std threads, unmodified crates.
//! Miri owns the scheduler (`-Zmiri-seed`, `-Zmiri-preemption-rate`) and emulates C11 weak
//! memory; it reports data races, use-after-free, deadlocks (a parked side never released) and
//! -- in the separate `aliasing` mode -- Stacked/Tree Borrows complaints.
//!
//! usage: threads-miri list
//!        threads-miri run [--scenarios a,b,..] [--reps N] [--seed S]
//! The workload PRNG is seeded from Miri's own seeded entropy (std RandomState), so
//! `-Zmiri-seed=N` replays schedule *and* workload; `--seed` is used for native smoke runs.
//! stdout: `T|<scenario>|<nontrivial 0/1>|<trace hash>|<params>|<trace>` per execution, `DONE <n>`.

extern crate alloc;

#[path = "../../scenarios/mod.rs"]
mod scenarios;

use std::hash::{BuildHasher, Hasher};

fn arg(args: &[String], key: &str) -> Option<String> {
    args.iter().position(|a| a == key).and_then(|i| args.get(i + 1).cloned())
}

fn main() {
    let args: Vec<String> = std::env::args().skip(1).collect();
    let all = scenarios::all();
    if args.first().map(|s| s.as_str()) == Some("list") {
        for s in &all {
            println!("{} {}", s.name, s.property);
        }
        return;
    }
    let wanted: Option<Vec<String>> = arg(&args, "--scenarios").map(|s| s.split(',').map(|x| x.to_string()).collect());
    let reps: usize = arg(&args, "--reps").and_then(|s| s.parse().ok()).unwrap_or(1);
    let seed = match arg(&args, "--seed").and_then(|s| s.parse::<u64>().ok()) {
        Some(s) => s,
        None => {
            // under Miri: derived from -Zmiri-seed (deterministic); natively: OS entropy
            let mut h = std::collections::hash_map::RandomState::new().build_hasher();
            h.write_u64(0x7468_7265_6164_7321);
            h.finish()
        }
    };
    scenarios::rt::seed_rng(seed);
    let mut n = 0;
    // run in exactly the order given on the command line (the driver relies on it to name the
    // scenario that was running when Miri stopped the program)
    let order: Vec<&scenarios::Scenario> = match &wanted {
        Some(w) => w.iter().filter_map(|x| all.iter().find(|s| s.name == *x)).collect(),
        None => all.iter().collect(),
    };
    for sc in order {
        for _ in 0..reps {
            let o = (sc.run)();
            println!("T|{}|{}|{:016x}|{}|{}", sc.name, o.nontrivial as u8, o.trace_hash, o.params, o.trace);
            n += 1;
        }
    }
    println!("DONE {n}");
}
