//! Plan = pure data, f(seed); serialised as the replay file.

use serde::{Deserialize, Serialize};

pub const DIR_C2S: u8 = 0;
pub const DIR_S2C: u8 = 1;
pub const DIR_BOTH: u8 = 2;

#[derive(Clone, Debug, Serialize, Deserialize, PartialEq)]
pub struct Plan {
    pub seed: u64,
    pub property: String,
    /// "clean" | "sparse" | "finite" | "vanish" | "forge" | "forge_forget"
    pub family: String,
    pub cfg: Cfg,
    pub clients: Vec<ClientPlan>,
    pub faults: Vec<Fault>,
    #[serde(default)]
    pub vanish: Option<Vanish>,
    #[serde(default)]
    pub forges: Vec<Forge>,
    /// differential mode used to attribute an outcome to forgeries: forged copies are not
    /// delivered; originals they would have replaced are dropped
    #[serde(default)]
    pub forge_as_drop: bool,
}

#[derive(Clone, Debug, Serialize, Deserialize, PartialEq)]
pub struct Cfg {
    pub bach_seed: u64,
    pub data_key: u64,
    pub delay_key: u64,
    pub yield_key: u64,
    pub server_mtu: u16,
    pub base_delay_us: u64,
    pub jitter_us: u64,
    /// virtual-time cap (hang detector), seconds
    pub cap_s: u64,
}

#[derive(Clone, Debug, Serialize, Deserialize, PartialEq)]
pub struct ClientPlan {
    pub mtu: u16,
    pub streams: Vec<StreamPlan>,
}

#[derive(Clone, Debug, Serialize, Deserialize, PartialEq)]
pub struct StreamPlan {
    pub open_delay_us: u64,
    /// client -> server
    pub req: Half,
    /// server -> client
    pub resp: Half,
    /// response starts: 0 = when the server-side request reader has finished (EOF/error/drop),
    /// 1 = immediately after the header was read (both directions concurrently)
    pub resp_start: u8,
}

#[derive(Clone, Debug, Serialize, Deserialize, PartialEq)]
pub struct Half {
    /// payload bytes the writer intends to write
    pub total: u64,
    /// write size
    pub chunk: u32,
    /// 0 = explicit shutdown(), 1 = drop without shutdown (graceful by the crate's Drop impl)
    pub finish: u8,
    /// pause of `us` before the write that starts at or after `off`
    pub w_pauses: Vec<(u64, u64)>,
    /// read size
    pub read: u32,
    /// reader drops its half after at least this many bytes (None = reads to EOF/error)
    pub r_drop_at: Option<u64>,
    pub r_pauses: Vec<(u64, u64)>,
}

#[derive(Clone, Debug, Serialize, Deserialize, PartialEq)]
pub enum Sel {
    /// the n-th datagram of the direction (0-based)
    Ord(u64),
    /// ordinals from..to (exclusive) with per-mille rate, decided by hash(key, dir, ordinal)
    OrdRange { from: u64, to: u64, pm: u32, key: u64 },
    /// send time window in virtual microseconds
    Window { t0_us: u64, t1_us: u64, pm: u32, key: u64 },
}

#[derive(Clone, Debug, Serialize, Deserialize, PartialEq)]
pub enum Act {
    Drop,
    /// deliver the original plus `n` copies, the k-th copy `gap_us * k` later
    Dup { n: u8, gap_us: u64 },
    /// extra delay (reorders with later datagrams when larger than their delay)
    Delay { us: u64 },
}

#[derive(Clone, Debug, Serialize, Deserialize, PartialEq)]
pub struct Fault {
    pub dir: u8,
    pub sel: Sel,
    pub act: Act,
}

#[derive(Clone, Debug, Serialize, Deserialize, PartialEq)]
pub enum Pos {
    /// when the n-th client->server datagram is sent
    C2sOrd(u64),
    /// when the n-th server->client datagram is sent
    S2cOrd(u64),
    TimeUs(u64),
}

#[derive(Clone, Debug, Serialize, Deserialize, PartialEq)]
pub enum Vanish {
    /// server host gone: from `at` on nothing is delivered in the given direction(s), forever
    Blackhole { at: Pos, dir: u8 },
    /// server restarted without its secrets: `Map::drop_state()` at `at`; it answers
    /// UnknownPathSecret to streams it does not know
    Forget { at: Pos },
}

#[derive(Clone, Debug, Serialize, Deserialize, PartialEq)]
pub enum Region {
    /// first byte (packet type and flags)
    Tag,
    /// credential id (16 bytes) and key id
    Credentials,
    /// the rest of the cleartext header (ids, packet numbers, offsets, lengths, control data)
    Header,
    Payload,
    AuthTag,
    Any,
}

#[derive(Clone, Debug, Serialize, Deserialize, PartialEq)]
pub enum Other {
    /// the datagram `back` positions earlier in the same direction
    Prev(u64),
    /// latest earlier datagram of another stream (same path secret)
    OtherStream,
    /// latest earlier datagram of another path secret (other client)
    OtherConn,
    /// latest datagram seen in the opposite direction
    OtherDir,
}

#[derive(Clone, Debug, Serialize, Deserialize, PartialEq)]
pub enum Mutation {
    /// xor one byte; position = region start + frac/65536 * region length
    Flip { region: Region, frac: u16, xor: u8 },
    /// keep only the first frac/65536 of the datagram (at least 1 byte less)
    Truncate { frac: u16 },
    /// append `n` bytes
    Extend { n: u8 },
    /// replace the authentication tag with the tag of another genuine datagram
    TagOf(Other),
    /// header (and tag) of this datagram, payload of another
    Splice(Other),
    /// credentials of another path secret / stream written over this datagram's credentials
    CredsOf(Other),
    /// synthesised secret-control packet for the credentials/queue id of the sampled datagram,
    /// kind 0 = UnknownPathSecret, 1 = StaleKey, 2 = ReplayDetected; tag = hash(key)
    SecretControl { kind: u8, with_queue_id: bool, key: u64 },
}

#[derive(Clone, Debug, Serialize, Deserialize, PartialEq)]
pub struct Forge {
    pub dir: u8,
    /// sampled genuine datagram: ordinal in its direction, or (if `kind` is set) ordinal among
    /// the datagrams of that packet kind in that direction (0 stream, 1 control, 5 UnknownPathSecret)
    pub ord: u64,
    #[serde(default)]
    pub kind: Option<u8>,
    /// true: forged copy instead of the original; false: in addition to it
    pub replace: bool,
    /// delivery offset of the forged copy relative to the original in microseconds (may be
    /// negative: the copy overtakes the original)
    pub skew_us: i64,
    pub mutation: Mutation,
}

impl Plan {
    pub fn n_streams(&self) -> usize {
        self.clients.iter().map(|c| c.streams.len()).sum()
    }
    pub fn total_bytes(&self) -> u64 {
        self.clients.iter().flat_map(|c| c.streams.iter()).map(|s| s.req.total + s.resp.total).sum()
    }
}
