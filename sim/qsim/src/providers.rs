//! Deterministic replacements for the providers that would otherwise draw from the OS RNG.
//! STUB: the values (connection ids, reset tokens, random bytes).  REAL: everything the
//! transport does with them (registries, routing, retirement, token matching).

use crate::kernel::{hashn, Rng};
use core::time::Duration;
use s2n_quic_core::{
    connection::{
        self,
        id::{ConnectionInfo, Generator, Validator},
    },
    endpoint::limits::{ConnectionAttempt, Limiter, Outcome},
    random, stateless_reset,
};

pub struct SimRandom {
    public: Rng,
    private: Rng,
}

impl SimRandom {
    pub fn new(seed: u64) -> Self {
        SimRandom { public: Rng::new(hashn(seed, &[1])), private: Rng::new(hashn(seed, &[2])) }
    }
}

impl random::Generator for SimRandom {
    fn public_random_fill(&mut self, dest: &mut [u8]) {
        self.public.fill(dest)
    }
    fn private_random_fill(&mut self, dest: &mut [u8]) {
        self.private.fill(dest)
    }
}

impl s2n_quic::provider::random::Provider for SimRandom {
    type Generator = Self;
    type Error = core::convert::Infallible;
    fn start(self) -> Result<Self, Self::Error> {
        Ok(self)
    }
}

#[derive(Debug)]
pub struct SimCidFormat {
    pub len: usize,
    pub lifetime: Option<Duration>,
    pub rotate: bool,
    pub key: u64,
    pub counter: u64,
}

impl Generator for SimCidFormat {
    fn generate(&mut self, _info: &ConnectionInfo) -> connection::LocalId {
        let mut id = [0u8; connection::id::MAX_LEN];
        self.counter += 1;
        for (i, c) in id.chunks_mut(8).enumerate() {
            let w = hashn(self.key, &[self.counter, i as u64]).to_le_bytes();
            c.copy_from_slice(&w[..c.len()]);
        }
        (&id[..self.len]).try_into().expect("length checked")
    }
    fn lifetime(&self) -> Option<Duration> {
        self.lifetime
    }
    fn rotate_handshake_connection_id(&self) -> bool {
        self.rotate
    }
}

impl Validator for SimCidFormat {
    fn validate(&self, _info: &ConnectionInfo, buffer: &[u8]) -> Option<usize> {
        if buffer.len() >= self.len {
            Some(self.len)
        } else {
            None
        }
    }
}

/// `ENABLED` decides whether the endpoint answers unattributable packets with stateless resets
/// (the library default is disabled). Servers enable it; clients do not, which also rules out
/// the reset ping-pong of RFC 9000 10.3.3 being multiplied by a duplicating network.
#[derive(Debug)]
pub struct SimTokenGen<const ENABLED: bool> {
    pub key: u64,
}

pub fn reset_token_for(key: u64, cid: &[u8]) -> [u8; 16] {
    let h = crate::kernel::hash_bytes(cid);
    let a = hashn(key, &[h, 0]).to_le_bytes();
    let b = hashn(key, &[h, 1]).to_le_bytes();
    let mut t = [0u8; 16];
    t[..8].copy_from_slice(&a);
    t[8..].copy_from_slice(&b);
    t
}

impl<const E: bool> stateless_reset::token::Generator for SimTokenGen<E> {
    const ENABLED: bool = E;
    fn generate(&mut self, local_connection_id: &[u8]) -> stateless_reset::Token {
        reset_token_for(self.key, local_connection_id).into()
    }
}

impl<const E: bool> s2n_quic::provider::stateless_reset_token::Provider for SimTokenGen<E> {
    type Generator = Self;
    type Error = core::convert::Infallible;
    fn start(self) -> Result<Self, Self::Error> {
        Ok(self)
    }
}

pub struct RetryLimiter {
    pub retry: bool,
}

impl Limiter for RetryLimiter {
    fn on_connection_attempt(&mut self, _info: &ConnectionAttempt) -> Outcome {
        if self.retry {
            Outcome::retry()
        } else {
            Outcome::allow()
        }
    }
}

/// Deterministic address-validation tokens. The library default signs tokens with keys it rotates
/// by the *wall clock* (`s2n_quic_platform::time::now()`), which makes Retry token bytes - and
/// with them the ciphertext of the client's second Initial - differ between executions of one
/// plan. STUB: token format and MAC (a keyed 64-bit hash over address, original destination
/// connection id and nonce; single use). REAL: everything the transport does with the verdict
/// (Retry, address validation, amplification limit).
#[derive(Debug)]
pub struct SimAddressToken {
    pub key: u64,
    pub counter: u64,
    pub seen: std::collections::BTreeSet<(u64, u64)>,
}

impl SimAddressToken {
    pub fn new(key: u64) -> Self {
        SimAddressToken { key, counter: 0, seen: Default::default() }
    }
    fn mac(&self, ctx: &s2n_quic_core::token::Context<'_>, odcid: &[u8], nonce: u64) -> u64 {
        let addr = format!("{:?}", ctx.remote_address);
        hashn(self.key, &[crate::kernel::hash_bytes(addr.as_bytes()), crate::kernel::hash_bytes(odcid), nonce])
    }
}

impl s2n_quic_core::token::Format for SimAddressToken {
    // kind(1) odcid_len(1) odcid(20) nonce(8) mac(8)
    const TOKEN_LEN: usize = 38;

    fn generate_new_token(
        &mut self,
        _context: &mut s2n_quic_core::token::Context<'_>,
        _source_connection_id: &connection::LocalId,
        _output_buffer: &mut [u8],
    ) -> Option<()> {
        // like the library default: NEW_TOKEN is not issued
        None
    }

    fn generate_retry_token(
        &mut self,
        context: &mut s2n_quic_core::token::Context<'_>,
        original_destination_connection_id: &connection::InitialId,
        output_buffer: &mut [u8],
    ) -> Option<()> {
        if output_buffer.len() != Self::TOKEN_LEN {
            return None;
        }
        let odcid = original_destination_connection_id.as_bytes();
        self.counter += 1;
        let nonce = hashn(self.key, &[0x6e6f, self.counter]);
        let mac = self.mac(context, odcid, nonce);
        output_buffer.fill(0);
        output_buffer[0] = 0x52;
        output_buffer[1] = odcid.len() as u8;
        output_buffer[2..2 + odcid.len()].copy_from_slice(odcid);
        output_buffer[22..30].copy_from_slice(&nonce.to_le_bytes());
        output_buffer[30..38].copy_from_slice(&mac.to_le_bytes());
        Some(())
    }

    fn validate_token(&mut self, context: &mut s2n_quic_core::token::Context<'_>, token: &[u8]) -> Option<connection::InitialId> {
        if token.len() != Self::TOKEN_LEN || token[0] != 0x52 {
            return None;
        }
        let n = token[1] as usize;
        if n > 20 {
            return None;
        }
        let odcid = &token[2..2 + n];
        if token[2 + n..22].iter().any(|b| *b != 0) {
            return None;
        }
        let nonce = u64::from_le_bytes(token[22..30].try_into().ok()?);
        let mac = u64::from_le_bytes(token[30..38].try_into().ok()?);
        if self.mac(context, odcid, nonce) != mac {
            return None;
        }
        // single use (the default keeps a duplicate filter as well)
        if !self.seen.insert((nonce, mac)) {
            return None;
        }
        connection::InitialId::try_from_bytes(odcid)
    }
}

impl s2n_quic::provider::address_token::Provider for SimAddressToken {
    type Format = Self;
    type Error = core::convert::Infallible;
    fn start(self) -> Result<Self, Self::Error> {
        Ok(self)
    }
}
