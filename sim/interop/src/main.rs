//! E5 interop simulator: s2n-quic <-> quiche on the deterministic testing IO provider.
//!
//! interop check C07 [--tier quick|thorough] [--seed N] [--runs N] [--budget-s S] [--replay FILE]
//! interop show <seed|replay.json> [--plan] [--log]     both sides' view of one execution
//! interop diff <seed|replay.json>                      first difference between two executions
//! interop selftest                                     clock / RNG interposition

mod clock;
mod harness;
mod net;
mod obs;
mod oracle;
mod plan;
mod providers;
mod qhost;
mod qlog;
mod run;

fn load_plan(arg: &str) -> plan::Plan {
    if let Ok(seed) = arg.parse::<u64>() {
        plan::plan_for(seed)
    } else {
        let s = std::fs::read_to_string(arg).expect("replay file");
        let doc: serde_json::Value = serde_json::from_str(&s).expect("json");
        let mut p: plan::Plan = serde_json::from_value(doc["plan"].clone()).expect("plan");
        plan::finish(&mut p);
        p
    }
}

fn main() {
    let args: Vec<String> = std::env::args().skip(1).collect();
    let code = real_main(&args);
    qhost::cleanup_cert_files();
    std::process::exit(code);
}

fn real_main(args: &[String]) -> i32 {
    if let Some(a) = simkit::parse_check_args(args) {
        if a.property != "C07" {
            eprintln!("HARNESS-ERROR: the interop engine checks C07 only (got {:?})", a.property);
            return 2;
        }
        qlog::install(false);
        run::install_panic_hook();
        if let Some(p) = &a.replay {
            return harness::replay(p);
        }
        return harness::check(&a);
    }
    match args.first().map(|s| s.as_str()) {
        Some("selftest") => match clock::selftest() {
            Ok(()) => {
                println!("selftest ok: clock_gettime and RAND_bytes interposition work");
                0
            }
            Err(e) => {
                eprintln!("HARNESS-ERROR: {e}");
                2
            }
        },
        Some("show") => {
            let arg = args.get(1).cloned().unwrap_or_default();
            let want_log = args.iter().any(|a| a == "--log");
            qlog::install(want_log);
            run::install_panic_hook();
            let plan = load_plan(&arg);
            if args.iter().any(|a| a == "--plan") {
                println!("{}", serde_json::to_string_pretty(&plan).unwrap());
            }
            let (o, v) = harness::run_plan(&plan, true);
            println!(
                "role {:?} streams {} bytes {} close_by {:?} code {} faults {} faults_end {} ms cap {} s",
                plan.role,
                plan.streams.len(),
                plan.total_bytes(),
                plan.close_by,
                plan.close_code,
                plan.faults.len(),
                plan.faults_end_us / 1000,
                plan.time_cap_us / 1_000_000
            );
            println!("end {} ms, datagrams {}, fired {:?}, first fault {:?} ms, panic {:?}", o.end_ns / 1_000_000, o.net.log.len(), o.net.fired, o.net.first_fault_ns.map(|t| t / 1_000_000), o.panic.as_ref().map(|p| p.chars().take(3000).collect::<String>()));
            println!("s2n app: {:?}", o.app.s2n);
            println!("s2n connection_closed: {:?}", o.obs.closed);
            println!("s2n attempt_failed: {:?} dropped: {:?} max_pto {} max_mtu {}", o.obs.attempt_failed, o.obs.dropped, o.obs.max_pto_count, o.obs.max_mtu);
            println!("s2n frame counts: {:?}", o.obs.counts);
            println!("s2n saw peer transport parameters: {:?}", o.obs.peer_tp);
            println!("quiche app: {:?}", o.app.q);
            for ((id, s), r) in &o.app.streams {
                println!("stream {id} sender {}: {:?}", if *s == 0 { "s2n" } else { "quiche" }, r);
            }
            println!("capped {:?} pending {:?} last_progress {} ms harness_errors {:?}", o.app.capped, o.app.pending, o.app.last_progress_ns / 1_000_000, v.harness_errors);
            println!("probes {:?}", v.probes);
            println!("nontrivial {} complete {} excused {:?} slow {} trace_hash {:016x} rand_drawn {}", v.nontrivial, v.complete, v.excused, v.slow, v.trace_hash, o.rand_drawn);
            for x in &v.violations {
                println!("violation {} [{}] :: {}", x.oracle, x.sig, x.detail);
            }
            if want_log {
                println!("---- quiche log / harness notes (last 300)");
                let n = o.app.notes.len();
                for l in o.app.notes.iter().skip(n.saturating_sub(300)) {
                    println!("{l}");
                }
                println!("---- s2n frames (last 400)");
                for l in &o.obs.tail {
                    println!("{l}");
                }
                println!("---- network (last 40)");
                let lines = oracle::trace_lines(&o);
                for l in lines.iter().skip(lines.len().saturating_sub(40)) {
                    println!("{l}");
                }
            }
            0
        }
        Some("diff") => {
            let arg = args.get(1).cloned().unwrap_or_default();
            qlog::install(false);
            run::install_panic_hook();
            let plan = load_plan(&arg);
            let (o1, v1) = harness::run_plan(&plan, false);
            let (o2, v2) = harness::run_plan(&plan, false);
            println!("hash {:016x} vs {:016x}", v1.trace_hash, v2.trace_hash);
            let (a, b) = (oracle::trace_lines(&o1), oracle::trace_lines(&o2));
            for i in 0..a.len().max(b.len()) {
                if a.get(i) != b.get(i) {
                    println!("first difference at datagram {i}:");
                    for k in i.saturating_sub(5)..(i + 5) {
                        println!("  A {:?}\n  B {:?}", a.get(k), b.get(k));
                    }
                    break;
                }
            }
            0
        }
        _ => {
            eprintln!("usage: interop check C07 [--tier quick|thorough] [--seed N] [--runs N] [--budget-s S] [--replay FILE] | show <seed|file> [--plan] [--log] | diff <seed|file> | selftest");
            2
        }
    }
}
