//! Exports the source directory of the s2n-quic-dc dependency (taken from this crate's own
//! Cargo.toml, so that a scratch copy pointing at a worktree picks up the worktree's sources).
//! Needed because `path::secret::sender` is a private module: its source text is compiled into
//! this crate by `include!` (see src/dcshim.rs).
fn main() {
    let manifest = std::fs::read_to_string("Cargo.toml").expect("Cargo.toml");
    let mut dc = None;
    for line in manifest.lines() {
        if line.trim_start().starts_with("s2n-quic-dc") {
            if let Some(i) = line.find("path = \"") {
                let rest = &line[i + 8..];
                if let Some(j) = rest.find('"') {
                    dc = Some(rest[..j].to_string());
                }
            }
        }
    }
    let dc = dc.expect("s2n-quic-dc path dependency not found in Cargo.toml");
    println!("cargo:rustc-env=COMP_DC_SRC={dc}/src");
    println!("cargo:rerun-if-changed=Cargo.toml");
    println!("cargo:rerun-if-changed={dc}/src/path/secret/sender.rs");
}
