//! Byzantine peer: an otherwise honest s2n-quic endpoint whose cleartext is rewritten before
//! encryption.  One planned rule fires per connection; the offending frame is PREPENDED to the
//! honest payload, so everything after it in that packet is honest traffic that must not be
//! processed once the frame has been rejected.

use crate::{
    obs::Space,
    plan::{ByzKind, ByzRule, Role},
    simtls::SharedTlsLog,
    wire::{self, put_varint, Frame},
};
use std::collections::BTreeMap;

#[derive(Default)]
struct ConnState {
    app_packets: u64,
    hs_packets: u64,
    /// own streams: id -> (max offset sent, fin at)
    sent: BTreeMap<u64, (u64, Option<u64>)>,
    /// stream ids seen from the victim
    victim_streams: Vec<u64>,
    /// limits received from the victim in frames
    max_stream_data: BTreeMap<u64, u64>,
    max_data: u64,
    max_streams_bidi: u64,
    max_streams_uni: u64,
    own_new_cid: Vec<(u64, Vec<u8>)>,
    victim_cid_seq_max: u64,
    victim_largest_pn: u64,
    fired: bool,
}

pub struct ByzState {
    pub rules: Vec<ByzRule>,
    pub is_client: bool,
    pub tls: Option<SharedTlsLog>,
    conns: BTreeMap<u64, ConnState>,
}

/// marker byte pattern of injected stream data (never equal to the payload oracle for long)
pub const BYZ_FILL: u8 = 0xBD;

fn stream_frame(out: &mut Vec<u8>, id: u64, off: u64, data_len: usize, fin: bool) {
    // type 0x08 | OFF 0x04 | LEN 0x02 | FIN 0x01
    out.push(0x08 | 0x04 | 0x02 | fin as u8);
    put_varint(out, id);
    put_varint(out, off);
    put_varint(out, data_len as u64);
    out.extend(std::iter::repeat(BYZ_FILL).take(data_len));
}

impl ByzState {
    pub fn new(rules: Vec<ByzRule>, is_client: bool) -> Self {
        ByzState { rules, is_client, tls: None, conns: BTreeMap::new() }
    }
    pub fn active(&self) -> bool {
        !self.rules.is_empty()
    }

    fn victim_params(&self) -> Option<wire::PeerParams> {
        let tls = self.tls.as_ref()?;
        let log = tls.lock().ok()?;
        let victim_role = if self.is_client { Role::Server } else { Role::Client };
        let (_, _, bytes) = log.tp_sent.iter().find(|(r, _, _)| *r == victim_role)?;
        let (entries, _) = wire::parse_tp_block(bytes).ok()?;
        wire::tp_verdict(&entries, victim_role == Role::Client).ok()
    }

    pub fn on_rx(&mut self, conn: u64, space: Space, payload: &[u8]) {
        if self.rules.is_empty() || space != Space::App {
            return;
        }
        let c = self.conns.entry(conn).or_default();
        let Ok((frames, _)) = wire::parse_frames(payload) else { return };
        for f in frames {
            match f {
                Frame::Stream { id, .. } => {
                    if !c.victim_streams.contains(&id) {
                        c.victim_streams.push(id);
                    }
                }
                Frame::MaxStreamData { id, max } => {
                    let e = c.max_stream_data.entry(id).or_insert(0);
                    *e = (*e).max(max);
                }
                Frame::MaxData { max } => c.max_data = c.max_data.max(max),
                Frame::MaxStreams { bidi: true, max } => c.max_streams_bidi = c.max_streams_bidi.max(max),
                Frame::MaxStreams { bidi: false, max } => c.max_streams_uni = c.max_streams_uni.max(max),
                Frame::NewConnectionId { seq, .. } => c.victim_cid_seq_max = c.victim_cid_seq_max.max(seq),
                _ => {}
            }
        }
    }

    pub fn note_rx_pn(&mut self, conn: u64, space: Space, pn: u64) {
        if self.rules.is_empty() || space != Space::App {
            return;
        }
        let c = self.conns.entry(conn).or_default();
        c.victim_largest_pn = c.victim_largest_pn.max(pn);
    }

    /// returns the rewritten payload and a description when a rule fires
    pub fn on_tx(
        &mut self,
        conn: u64,
        space: Space,
        _pn: u64,
        payload: &[u8],
        capacity: usize,
    ) -> Option<(Vec<u8>, String)> {
        if self.rules.is_empty() {
            return None;
        }
        let is_client = self.is_client;
        let tp = self.victim_params();
        let c = self.conns.entry(conn).or_default();
        match space {
            Space::App => c.app_packets += 1,
            _ => c.hs_packets += 1,
        }
        // The rule is evaluated on what earlier packets established; the honest content of
        // this packet is learned afterwards (the offending frame is placed in front of it).
        let result = Self::evaluate(&self.rules, is_client, tp, c, conn, space, payload, capacity);
        // learn from the honest payload
        if let Ok((frames, _)) = wire::parse_frames(payload) {
            if space == Space::App {
                for f in &frames {
                    match f {
                        Frame::Stream { id, off, len, fin, .. } => {
                            let e = c.sent.entry(*id).or_insert((0, None));
                            e.0 = e.0.max(off + *len as u64);
                            if *fin {
                                e.1 = Some(off + *len as u64);
                            }
                        }
                        Frame::ResetStream { id, final_size, .. } => {
                            let e = c.sent.entry(*id).or_insert((0, None));
                            e.1 = Some(*final_size);
                        }
                        Frame::NewConnectionId { seq, cid, .. } => c.own_new_cid.push((*seq, cid.clone())),
                        _ => {}
                    }
                }
            }
        }
        result
    }

    #[allow(clippy::too_many_arguments)]
    fn evaluate(
        rules: &[ByzRule],
        is_client: bool,
        tp: Option<wire::PeerParams>,
        c: &mut ConnState,
        conn: u64,
        space: Space,
        payload: &[u8],
        capacity: usize,
    ) -> Option<(Vec<u8>, String)> {
        if c.fired {
            return None;
        }
        let rule = rules.iter().find(|r| r.conn as u64 == conn || r.conn == u32::MAX)?.clone();
        let in_hs_rule = matches!(rule.kind, ByzKind::AppFrameInHandshakeSpace { .. });
        if in_hs_rule {
            let want_initial = matches!(rule.kind, ByzKind::AppFrameInHandshakeSpace { initial: true });
            if (want_initial && space != Space::Initial) || (!want_initial && space != Space::Handshake) {
                return None;
            }
        } else {
            if space != Space::App || c.app_packets <= rule.at_packet {
                return None;
            }
        }
        let tp = tp?;
        // my own stream kinds: client-initiated ids are even
        let my_bit = if is_client { 0 } else { 1 };
        let mine = |id: u64| (id & 1) == my_bit;
        let bidi = |id: u64| id & 2 == 0;
        let initial_stream_credit = |id: u64| -> u64 {
            // credit the victim granted me on stream `id`
            if !bidi(id) {
                tp.initial_max_stream_data_uni
            } else if mine(id) {
                tp.initial_max_stream_data_bidi_remote
            } else {
                tp.initial_max_stream_data_bidi_local
            }
        };
        let max_streams = |b: bool| -> u64 {
            if b {
                c.max_streams_bidi.max(tp.initial_max_streams_bidi)
            } else {
                c.max_streams_uni.max(tp.initial_max_streams_uni)
            }
        };
        // an open stream I may send on
        let my_send_stream = c.sent.iter().find(|(id, (_, fin))| fin.is_none() && (mine(**id) || bidi(**id))).map(|(id, _)| *id);
        let my_finished_stream = c.sent.iter().find(|(_, (_, fin))| fin.is_some()).map(|(id, v)| (*id, v.1.unwrap()));
        let mut frame = Vec::new();
        let desc: String;
        match &rule.kind {
            ByzKind::StreamBeyondStreamCredit { delta, empty_fin } => {
                let id = my_send_stream?;
                let credit = c.max_stream_data.get(&id).copied().unwrap_or(0).max(initial_stream_credit(id));
                let off = credit.saturating_add(*delta).min(wire::VARINT_MAX - 2);
                if *empty_fin {
                    stream_frame(&mut frame, id, off + 1, 0, true);
                } else {
                    stream_frame(&mut frame, id, off, 1, false);
                }
                desc = format!("StreamBeyondStreamCredit stream {id} offset {off} (credit {credit})");
            }
            ByzKind::StreamBeyondConnCredit { delta, empty_fin } => {
                let id = my_send_stream?;
                let credit = c.max_data.max(tp.initial_max_data);
                let off = credit.saturating_add(*delta).min(wire::VARINT_MAX - 2);
                if *empty_fin {
                    stream_frame(&mut frame, id, off + 1, 0, true);
                } else {
                    stream_frame(&mut frame, id, off, 1, false);
                }
                desc = format!("StreamBeyondConnCredit stream {id} offset {off} (conn credit {credit})");
            }
            ByzKind::StreamAtMaxOffset => {
                let id = my_send_stream?;
                stream_frame(&mut frame, id, wire::VARINT_MAX, 1, false);
                desc = format!("StreamAtMaxOffset stream {id}");
            }
            ByzKind::StreamIdBeyondLimit { bidi: b, by } => {
                let index = max_streams(*b) + by;
                let id = index * 4 + my_bit + if *b { 0 } else { 2 };
                if id > wire::VARINT_MAX {
                    return None;
                }
                stream_frame(&mut frame, id, 0, 1, false);
                desc = format!("StreamIdBeyondLimit stream {id} (limit {})", max_streams(*b));
            }
            ByzKind::DataAfterFin => {
                let (id, f) = my_finished_stream?;
                stream_frame(&mut frame, id, f, 1, false);
                desc = format!("DataAfterFin stream {id} final {f}");
            }
            ByzKind::ChangedFinalSize { shrink } => {
                let (id, f) = my_finished_stream?;
                if *shrink {
                    if f == 0 {
                        return None;
                    }
                    stream_frame(&mut frame, id, f - 1, 0, true);
                } else {
                    stream_frame(&mut frame, id, f, 1, true);
                }
                desc = format!("ChangedFinalSize stream {id} final {f} shrink {shrink}");
            }
            ByzKind::ResetOtherFinalSize => {
                let (id, f) = my_finished_stream?;
                frame.push(0x04);
                put_varint(&mut frame, id);
                put_varint(&mut frame, 7);
                put_varint(&mut frame, f + 1);
                desc = format!("ResetOtherFinalSize stream {id} final {f}");
            }
            ByzKind::StreamOnPeerSendOnly => {
                // a unidirectional stream initiated by the victim: I may only receive on it
                let id = c.victim_streams.iter().copied().find(|id| !mine(*id) && !bidi(*id)).unwrap_or(2 + (1 - my_bit));
                stream_frame(&mut frame, id, 0, 1, false);
                desc = format!("StreamOnPeerSendOnly stream {id}");
            }
            ByzKind::MaxStreamDataForUnopenedLocal => {
                // a bidirectional stream the victim would initiate but has not opened
                let id = (1 << 20) * 4 + (1 - my_bit);
                frame.push(0x11);
                put_varint(&mut frame, id);
                put_varint(&mut frame, 1 << 30);
                desc = format!("MaxStreamDataForUnopenedLocal stream {id}");
            }
            ByzKind::StopSendingForUnopenedLocal => {
                let id = (1 << 20) * 4 + (1 - my_bit);
                frame.push(0x05);
                put_varint(&mut frame, id);
                put_varint(&mut frame, 9);
                desc = format!("StopSendingForUnopenedLocal stream {id}");
            }
            ByzKind::ResetForUnopenedLocal => {
                // RESET_STREAM for a send-only stream of the victim
                let id = (1 << 20) * 4 + (1 - my_bit) + 2;
                frame.push(0x04);
                put_varint(&mut frame, id);
                put_varint(&mut frame, 9);
                put_varint(&mut frame, 0);
                desc = format!("ResetForUnopenedLocal stream {id}");
            }
            ByzKind::MaxStreamsTooLarge { bidi: b } => {
                frame.push(if *b { 0x12 } else { 0x13 });
                put_varint(&mut frame, (1 << 60) + 1);
                desc = "MaxStreamsTooLarge".into();
            }
            ByzKind::NewCidRetirePriorGtSeq => {
                frame.push(0x18);
                put_varint(&mut frame, 1000);
                put_varint(&mut frame, 1001);
                frame.push(8);
                frame.extend_from_slice(&[0xC1; 8]);
                frame.extend_from_slice(&[0x7E; 16]);
                desc = "NewCidRetirePriorGtSeq".into();
            }
            ByzKind::NewCidBadLen { len } => {
                frame.push(0x18);
                put_varint(&mut frame, 1000);
                put_varint(&mut frame, 0);
                frame.push(*len);
                frame.extend(std::iter::repeat(0xC2).take(*len as usize));
                frame.extend_from_slice(&[0x7F; 16]);
                desc = format!("NewCidBadLen {len}");
            }
            ByzKind::NewCidDupSeqOtherCid => {
                let (seq, cid) = c.own_new_cid.first()?.clone();
                frame.push(0x18);
                put_varint(&mut frame, seq);
                put_varint(&mut frame, 0);
                frame.push(cid.len() as u8);
                frame.extend(cid.iter().map(|b| b ^ 0xff));
                frame.extend_from_slice(&[0x80; 16]);
                desc = format!("NewCidDupSeqOtherCid seq {seq}");
            }
            ByzKind::RetireUnissuedSeq { by } => {
                frame.push(0x19);
                put_varint(&mut frame, c.victim_cid_seq_max + 1 + by);
                desc = format!("RetireUnissuedSeq {}", c.victim_cid_seq_max + 1 + by);
            }
            ByzKind::HandshakeDoneFromClient => {
                if !is_client {
                    return None;
                }
                frame.push(0x1e);
                desc = "HandshakeDoneFromClient".into();
            }
            ByzKind::NewTokenFromClient => {
                if !is_client {
                    return None;
                }
                frame.push(0x07);
                put_varint(&mut frame, 8);
                frame.extend_from_slice(&[0x70; 8]);
                desc = "NewTokenFromClient".into();
            }
            ByzKind::AckNeverSent { ahead } => {
                frame.push(0x02);
                put_varint(&mut frame, c.victim_largest_pn + 1000 + ahead);
                put_varint(&mut frame, 0);
                put_varint(&mut frame, 0);
                put_varint(&mut frame, 0);
                desc = format!("AckNeverSent {}", c.victim_largest_pn + 1000 + ahead);
            }
            ByzKind::UnknownFrameType { ty } => {
                put_varint(&mut frame, *ty);
                desc = format!("UnknownFrameType {ty:#x}");
            }
            ByzKind::AppFrameInHandshakeSpace { initial } => {
                stream_frame(&mut frame, my_bit, 0, 1, false);
                desc = format!("AppFrameInHandshakeSpace initial={initial}");
            }
            ByzKind::CryptoBeyondBuffer => {
                frame.push(0x06);
                put_varint(&mut frame, 1 << 40);
                put_varint(&mut frame, 1);
                frame.push(0);
                desc = "CryptoBeyondBuffer".into();
            }
        }
        if payload.len() + frame.len() > capacity {
            return None; // no room in this packet: try the next one
        }
        c.fired = true;
        let mut new = frame;
        new.extend_from_slice(payload);
        Some((new, desc))
    }
}
