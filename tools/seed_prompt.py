#!/usr/bin/env python3
"""prints the prompt for a seeded-breakage sub-agent: only the property record and the scratch paths"""
import json, sys
pid, tag = sys.argv[1], sys.argv[2]
avoid = sys.argv[3] if len(sys.argv) > 3 else ''
note = ('NOTE: another developer has already seeded a bug in ' + avoid + ' - pick a DIFFERENT file and a different mechanism, so that the two bugs exercise different parts of the property.\n\n') if avoid else ''
p = next(json.loads(l) for l in open('/verif/properties.jsonl') if json.loads(l)['id'] == pid)
wt = f"/tmp/seed-{tag}"
out = f"/tmp/seed-{tag}-out"
print(f"""You are helping to evaluate a verification tool for aws/s2n-quic (AWS's Rust implementation of IETF QUIC). Your job is to play the role of a developer who introduces a REALISTIC BUG.

You have your own scratch git worktree of the repository at {wt} (a checkout of the current commit). Work ONLY inside {wt} and {out}. Do not read or touch /repo, /verif or any other seed-* directory. The machine is offline: always use `--offline` with cargo, and use the separate build directory `CARGO_TARGET_DIR={wt}-target` with `-j 6` so that you do not starve other jobs.

Here is a semantic property of s2n-quic that is supposed to hold (JSON record):

{json.dumps(p, indent=1)}

{note}TASK: make ONE small, realistic source change (the kind of mistake a maintainer could plausibly make in a refactor, optimisation or feature change: an off-by-one, a dropped or inverted condition, a wrong variable, a missing state update, a reordered statement, a forgotten case...) in the non-test source code of the repository such that
 1. the repository still compiles,
 2. the EXISTING tests still pass - at the very least all tests of every crate you touched and of the crates that directly exercise it (run them with e.g. `cd {wt}/$(cat /w/out/cargo_root.txt 2>/dev/null || echo .) && CARGO_TARGET_DIR={wt}-target cargo nextest run -p <crate> --offline -j 6`; the integration tests live in the packages `s2n-quic-tests` and `s2n-quic` and unit tests in `s2n-quic-core`, `s2n-quic-transport`, `s2n-quic-dc`...; the one test `s2n-quic-dc stream::tests::shared_cache::test_kernel_queue_full` fails already without your change - ignore it). If an existing test fails because of your change, choose a different change - do NOT edit, delete or ignore tests, snapshots included,
 3. the property above is genuinely BROKEN by the change, but only under some specific circumstance (a particular input, configuration, loss/reordering pattern, timing, schedule or peer behaviour) - not on every connection, otherwise the existing tests would notice,
 4. the change is not guarded by cfg flags, environment variables or magic constants that only you know; it must look like ordinary code.

Then DEMONSTRATE the breakage: write a small self-contained demonstration (preferably a new Rust test placed in a new file or appended test module inside the worktree, or a unit-level driver) that FAILS/shows the violation with your change applied and PASSES/shows no violation on the original code (verify both, using `git diff > patch; git checkout -- .; ...; git apply patch` - do NOT use `git stash`: the stash is shared between all worktrees of the repository and other people work in sibling worktrees). The demonstration is separate from the change.

DELIVERABLES in {out}/ (create the directory):
 - patch.diff : `git diff` of ONLY the bug (source change), applicable with `git apply` on the original commit. It must not contain the demonstration.
 - demo/ : the demonstration files plus a README.md saying where to put them, the exact command to run, and the expected output with and without the patch.
 - meta.json : {{"property": "{pid}", "summary": "<one sentence: what the change does>", "files": [...], "trigger": "<what specific circumstance is needed for the property to break>", "why_existing_tests_pass": "<...>", "tests_run": ["<commands you ran and their pass/fail counts>"], "observable_effect": "<what a user or peer would observe>"}}

When you are done, leave the worktree with the patch NOT applied (git checkout -- . ; remove untracked demo files from the worktree after copying them to {out}/demo) and delete {wt}-target to free disk space. Do not commit anything. Your final message should be a short summary of the change, the trigger, and the test results.""")
