//! Oracles over one run.  Each violation carries an oracle id; minimisation keeps a candidate
//! only if the same id still fires.

use crate::{
    link::{self, FATE_DELIVERED, LABEL_FORGED},
    plan::*,
    run::*,
};
use simkit::{Fnv, Violation};
use std::collections::BTreeMap;

/// slack added to the stream idle timeout in the peer-vanished oracle
pub const VANISH_SLACK_NS: u64 = 5_000_000_000;

fn v(property: &str, oracle: &str, detail: String, sig: &str) -> Violation {
    Violation { property: property.into(), oracle: oracle.into(), detail, sig: sig.into() }
}

fn is_err(a: &Actor) -> bool {
    a.end.starts_with("err:")
}

fn describe(k: &(u8, u8, u8), a: &Actor) -> String {
    format!(
        "client {} stream {} {}: bytes={} end={:?} last_op={}@{}us t_end={}us",
        k.0,
        k.1,
        role_name(k.2),
        a.bytes,
        a.end,
        a.last_op,
        a.last_op_start_ns / 1000,
        a.t_end_ns / 1000
    )
}

pub struct Summary {
    pub bytes_read: u64,
    pub nontrivial: bool,
    pub sig: u64,
    pub hash: u64,
    pub probes: BTreeMap<String, u64>,
}

/// Violations plus observations.  Observations are outcomes the property tolerates (a stream that
/// ends in an error although only finite faults were injected): they are counted and sampled in
/// the evidence and, for C18, fed to the differential check, but never alarm on their own.
pub struct Verdict {
    pub violations: Vec<Violation>,
    pub observations: Vec<Violation>,
}

pub fn evaluate(plan: &Plan, out: &RunOut) -> Verdict {
    let mut obs = vec![];
    let violations = evaluate_inner(plan, out, &mut obs);
    Verdict { violations, observations: obs }
}

fn evaluate_inner(plan: &Plan, out: &RunOut, obs: &mut Vec<Violation>) -> Vec<Violation> {
    let p = plan.property.as_str();
    let pre = if p == "C18" { "c18" } else { "c20" };
    let mut vs = vec![];

    // ---- memory safety of the sender's packet buffers (guarded allocator) and datagram size
    if out.heap_overruns.0 > 0 {
        vs.push(v(
            p,
            &format!("{pre}.heap_buffer_overrun"),
            format!(
                "{} heap buffer(s) written past their end; last: allocation of {} bytes, {} bytes past the end (mtu server {} clients {:?})",
                out.heap_overruns.0,
                out.heap_overruns.1,
                out.heap_overruns.2,
                plan.cfg.server_mtu,
                plan.clients.iter().map(|c| c.mtu).collect::<Vec<_>>()
            ),
            if out.heap_overruns.2 <= 2 { "overrun<=2" } else { "overrun>2" },
        ));
    }
    {
        // a sender is configured with the peer's max_datagram_size (test_insert_pair): client ->
        // server datagrams are bounded by the server's value, server -> client by the largest
        // client value (the server keeps one entry per client)
        let c2s_limit = plan.cfg.server_mtu as u32;
        let s2c_limit = plan.clients.iter().map(|c| c.mtu as u32).max().unwrap_or(0);
        for (d, limit) in [(0usize, c2s_limit), (1usize, s2c_limit)] {
            if out.stats.max_len[d] > limit.max(64) {
                vs.push(v(
                    p,
                    &format!("{pre}.datagram_exceeds_max_datagram_size"),
                    format!("{} datagram of {} bytes, configured max_datagram_size {}", if d == 0 { "client->server" } else { "server->client" }, out.stats.max_len[d], limit),
                    if out.stats.max_len[d] <= limit + 2 { "excess<=2" } else { "excess>2" },
                ));
            }
        }
    }

    // ---- panics
    if let Some(msg) = &out.panic {
        if msg.contains("/verif/") || msg.contains("dcsim/src") {
            vs.push(v(p, "harness.panic", msg.clone(), ""));
        } else if msg.contains("max_microsteps") {
            vs.push(v(p, &format!("{pre}.livelock"), msg.chars().take(300).collect(), ""));
        } else {
            vs.push(v(p, &format!("{pre}.panic"), msg.clone(), ""));
        }
        return vs;
    }

    // ---- (1) payload oracle
    for (k, a) in &out.app.actors {
        if let Some(off) = a.mismatch {
            vs.push(v(p, &format!("{pre}.payload_mismatch"), format!("first wrong byte at offset {off}; {}", describe(k, a)), ""));
        }
    }
    for g in &out.app.ghosts {
        if g.starts_with("bad_header") || g.starts_with("duplicate_stream") {
            vs.push(v(p, &format!("{pre}.stream_identity"), format!("server accepted a stream with {g}"), ""));
        }
    }
    if plan.family == "sparse" {
        // nothing but a handful of single losses and both peers alive: every accept on the server
        // should correspond to a stream a client application opened.  A further accept hands the
        // server application a stream nobody opened (made from a retransmitted first-flight
        // datagram after the real stream was released), which then ends in an error or repeats
        // the request bytes.
        for g in &out.app.ghosts {
            if g.starts_with("error_before_header") || g.starts_with("eof_before_header") {
                // about 15 per 1000 sparse runs on the unchanged tree: one more face of the known
                // finding (the acceptor builds streams from unauthenticated/late first-flight
                // datagrams), so counted, not a verdict of its own
                obs.push(v(p, &format!("{pre}.ghost_accept_under_sparse_loss"), format!("server application was handed a stream no client opened: {g} ; faults fired {:?}", out.stats.fired), ""));
            }
        }
    }
    if plan.family == "clean" && out.stats.fired.values().sum::<u64>() == 0 {
        // no fault of any kind was injected (the link only has its latency and jitter): an accept
        // beyond the streams the clients opened hands the server application a stream nobody
        // opened, made from a spurious retransmission of a first-flight packet (the sender's first
        // PTO is far below the round trip) that arrives after the real stream was released
        for g in &out.app.ghosts {
            if g.starts_with("error_before_header") || g.starts_with("eof_before_header") {
                vs.push(v(
                    p,
                    &format!("{pre}.ghost_accept_without_fault"),
                    format!("no fault injected, one-way delay {} us: the server application was handed a stream no client opened ({} accepts for {} streams): {g}", plan.cfg.base_delay_us, out.app.accepted, plan.n_streams()),
                    "retransmitted_first_flight_accepted_as_new_stream",
                ));
            }
        }
    }
    let all_headers_written = plan.clients.iter().enumerate().all(|(ci, c)| {
        (0..c.streams.len()).all(|si| {
            out.app.actors.get(&(ci as u8, si as u8, ROLE_CW)).map_or(false, |a| a.done && !(is_err(a) && a.last_op == "write_header") && a.end != "no_stream")
        })
    });
    if all_headers_written {
        for g in &out.app.ghosts {
            if g.starts_with("eof_before_header") {
                vs.push(v(p, &format!("{pre}.eof_short"), format!("server stream reached EOF before the 8-byte header although every client wrote it: {g}"), ""));
            }
        }
    }
    for (ci, c) in plan.clients.iter().enumerate() {
        for (si, sp) in c.streams.iter().enumerate() {
            for (wr, rd, half) in [(ROLE_CW, ROLE_SR, &sp.req), (ROLE_SW, ROLE_CR, &sp.resp)] {
                let (Some(w), Some(r)) = (out.app.actors.get(&(ci as u8, si as u8, wr)), out.app.actors.get(&(ci as u8, si as u8, rd))) else {
                    continue;
                };
                if r.bytes > half.total {
                    vs.push(v(p, &format!("{pre}.read_more_than_written"), format!("{} (planned total {})", describe(&(ci as u8, si as u8, rd), r), half.total), ""));
                }
                if r.end == "eof" && w.done && (w.end == "shutdown_ok" || w.end == "dropped") && r.bytes != w.bytes {
                    vs.push(v(
                        p,
                        &format!("{pre}.eof_short"),
                        format!("EOF after {} bytes but the peer wrote {} bytes before its {}; {}", r.bytes, w.bytes, w.end, describe(&(ci as u8, si as u8, rd), r)),
                        "",
                    ));
                }
                if r.end == "eof" && r.bytes > w.bytes {
                    vs.push(v(p, &format!("{pre}.read_more_than_written"), format!("{} but writer wrote {}", describe(&(ci as u8, si as u8, rd), r), w.bytes), ""));
                }
            }
        }
    }

    // ---- (2) every operation completes
    if out.capped {
        let mut pending: Vec<String> = out.app.actors.iter().filter(|(_, a)| a.started && !a.done).map(|(k, a)| describe(k, a)).collect();
        for (id, since) in &out.app.handler_reads {
            pending.push(format!("accepted stream #{id} (server side, not attributable to a client stream): read pending since {} us", since / 1000));
        }
        vs.push(v(
            p,
            &format!("{pre}.hang"),
            format!("virtual time {} s: {}; pending tasks={} : {}", out.end_ns / 1_000_000_000, out.app.hang_reason, out.app.pending, pending.join(" | ")),
            // cause signature: the only task left is the server-side read of an accepted stream
            // that no client stream corresponds to (a "ghost" accept created from a retransmitted
            // or delayed first-flight datagram of a stream that already finished)
            if out.app.hang_reason.starts_with("datagrams") {
                let only_ghost = !out.app.handler_reads.is_empty() && out.app.actors.iter().all(|(_, a)| !a.started || a.done);
                if only_ghost { "livelock:ghost_stream_accepted_by_server_never_ends" } else { "livelock" }
            } else {
                "parked"
            },
        ));
    }

    if out.app.over_budget && !out.capped {
        obs.push(v(p, "harness.datagram_budget", format!("run stopped by the datagram/byte budget ({} datagrams / {} MB) with tasks still progressing (virtual time {} ms)", link::DATAGRAM_BUDGET, link::BYTE_BUDGET / 1_000_000, out.end_ns / 1_000_000), ""));
    }

    // ---- errors without any cause
    let fired: u64 = out.stats.fired.values().sum();
    let quiet_family = plan.family == "clean" || plan.family == "finite" || plan.family == "forge" || plan.family == "sparse";
    if quiet_family {
        for (k, a) in &out.app.actors {
            if !is_err(a) {
                continue;
            }
            let sp = &plan.clients[k.0 as usize].streams[k.1 as usize];
            let app_drop = sp.req.r_drop_at.is_some() || sp.resp.r_drop_at.is_some();
            if fired == 0 && !app_drop {
                vs.push(v(p, &format!("{pre}.error_without_fault"), describe(k, a), ""));
            } else if !app_drop && plan.family == "sparse" {
                // a few single losses at the start of a short exchange, both peers alive, nobody
                // gives up a half early: the stream has to complete
                vs.push(v(p, &format!("{pre}.error_under_sparse_loss"), format!("{} ; faults fired {:?}", describe(k, a), out.stats.fired), ""));
            } else if !app_drop {
                obs.push(v(p, &format!("{pre}.error_under_finite_faults"), format!("{} ; faults fired {:?}", describe(k, a), out.stats.fired), ""));
            }
        }
    }

    // ---- (3) peer vanished: errors arrive within idle timeout + slack after the last delivery
    if let Some(tv) = out.vanish_t_ns {
        for (k, a) in &out.app.actors {
            if !(k.2 == ROLE_CW || k.2 == ROLE_CR || k.2 == ROLE_CONNECT) || !a.done || !is_err(a) || a.t_end_ns <= tv {
                continue;
            }
            let ip = out.client_ips.get(k.0 as usize).cloned().flatten();
            let last_rx = ip.and_then(|ip| out.last_rx_ns.get(&ip.to_string()).copied()).unwrap_or(0);
            let base = a.last_op_start_ns.max(last_rx).max(tv);
            if a.t_end_ns > base + IDLE_TIMEOUT_NS + VANISH_SLACK_NS {
                vs.push(v(
                    p,
                    &format!("{pre}.vanish_late_error"),
                    format!(
                        "error {} s after max(op start, last datagram delivered to the client, vanish) ; {}",
                        (a.t_end_ns - base) / 1_000_000_000,
                        describe(k, a)
                    ),
                    "",
                ));
            }
        }
    }

    genuine_packet_rejected(p, pre, plan, out, &mut vs);

    if p == "C18" {
        c18(plan, out, &mut vs);
    }
    vs
}

fn field_u64(txt: &str, key: &str) -> Option<u64> {
    let i = txt.find(key)? + key.len();
    let digits: String = txt[i..].chars().take_while(|c| c.is_ascii_digit()).collect();
    digits.parse().ok()
}

/// packet identity from the receiver's `?packet` debug text (stream::decoder::Packet)
fn parse_stream_reject(pk: &str) -> Option<link::PktId> {
    let i = pk.find("id: 0x")? + 6;
    let hex: String = pk[i..].chars().take_while(|c| c.is_ascii_hexdigit()).collect();
    let cred = u128::from_str_radix(&hex, 16).ok()?;
    Some(link::PktId {
        kind: link::KIND_STREAM,
        cred,
        f: [
            field_u64(pk, "key_id: VarInt(")?,
            field_u64(pk, "stream_id: stream::Id { queue_id: VarInt(")?,
            field_u64(pk, "packet_number: VarInt(")?,
            field_u64(pk, "stream_offset: VarInt(")?,
            field_u64(pk, "payload_len: ")?,
            field_u64(pk, "header_len: ")?,
        ],
    })
}

/// Per-packet statement: a datagram the link delivered unmodified must never be rejected by its
/// receiver for an authentication/decryption failure.
///
/// Observation.  The receivers report such failures per packet: stream packets through
/// `debug!(non_fatal_error = %err, ?packet)` (stream/recv/state.rs), control packets through
/// `stream_control_packet_received { is_authenticated: false }`.  A report is attributed by the
/// packet's header identity, never by timing alone.
///
/// What is not a violation (each found on the unchanged tree and confirmed with an instrumented
/// build: the receiver's error path authenticates the already opened buffer a second time, so any
/// refusal AFTER a successful open is reported as "invalid tag"):
///  * forged / mutated / tainted datagrams: each delivered one accounts for one report of the
///    identity its bytes parse to;
///  * duplicates and out-of-window packets: the duplicate filter is a 129-wide sliding window over
///    accepted packet numbers per stream, direction and space.  A report at time t is excused if by
///    t the same number had been delivered twice, or a number at least 129 higher had been
///    delivered (genuine or forged: a forged packet number can be taken for a retransmission, known
///    finding mid_stream:*).  "By t" is causal: the receiver cannot have accepted what the link had
///    not yet delivered, whatever order it processes its queue in;
///  * dead endpoints: the stream endpoint processing the packet had already published
///    `stream_receiver_errored`, or was created from a replayed key id (second accept for the same
///    credentials, `replay_definitely_detected` raised inside that packet's processing);
///  * a packet the sender later saw acknowledged (it was accepted before the spurious report);
///  * reports in the last moments of a run, and everything after the link stopped recording.
fn genuine_packet_rejected(p: &str, pre: &str, plan: &Plan, out: &RunOut, vs: &mut Vec<Violation>) {
    let judge_until_ns = if out.log_truncated { out.log_truncated_at_ns } else { u64::MAX };
    let margin_ns = (4 * (plan.cfg.base_delay_us + plan.cfg.jitter_us) + 100_000) * 1000;
    type Key = (u128, u64, u8, u8); // credential id, key id, direction, space

    let mut forged_left: BTreeMap<link::PktId, u64> = BTreeMap::new();
    // first genuine delivery per identity: (direction, space, retransmission, delivery time)
    let mut genuine: BTreeMap<link::PktId, (u8, u8, bool, u64)> = BTreeMap::new();
    let mut by_key: BTreeMap<Key, Vec<(u64, u64)>> = BTreeMap::new(); // (delivery time, packet number)
    for r in &out.log {
        if r.fate != FATE_DELIVERED || r.t_deliver_ns == 0 {
            continue;
        }
        let Some(id) = r.pkt else { continue };
        if r.label == LABEL_FORGED {
            *forged_left.entry(id).or_insert(0) += 1;
            if id.kind == link::KIND_STREAM {
                for sp in [0u8, 1] {
                    by_key.entry((id.cred, id.f[0], r.dir, sp)).or_default().push((r.t_deliver_ns, id.f[2]));
                }
            }
            continue;
        }
        genuine.entry(id).or_insert((r.dir, r.space, r.retx, r.t_deliver_ns));
        if id.kind == link::KIND_STREAM {
            by_key.entry((id.cred, id.f[0], r.dir, r.space)).or_default().push((r.t_deliver_ns, id.f[2]));
        }
    }
    // per key: deliveries sorted by time with the running maximum packet number
    let mut prefix: BTreeMap<Key, Vec<(u64, u64, u64)>> = BTreeMap::new(); // (time, pn, max so far)
    for (k, mut v) in by_key {
        v.sort();
        let mut m = 0u64;
        let w: Vec<(u64, u64, u64)> = v
            .into_iter()
            .map(|(t, pn)| {
                m = m.max(pn);
                (t, pn, m)
            })
            .collect();
        prefix.insert(k, w);
    }
    let mut repeats: BTreeMap<(u64, u64, u64, u64), u64> = BTreeMap::new();
    for ((_span, pn, off, plen, len), n) in &out.app.rejects.passes {
        if *n > 1 {
            *repeats.entry((*pn, *off, *plen, *len)).or_insert(0) += (*n - 1) as u64;
        }
    }

    // (identity, report time, error text) for every authentication failure under judgement
    let mut reports: Vec<(link::PktId, u64, String)> = vec![];
    for (i, (err, pk)) in out.app.rejects.stream.iter().enumerate() {
        if !err.contains("could not decrypt packet") || out.app.rejects.stream_receiver_dead.get(i).copied().unwrap_or(false) {
            continue;
        }
        let t = out.app.rejects.stream_t_ns.get(i).copied().unwrap_or(0);
        if t >= judge_until_ns || t + margin_ns > out.end_ns {
            continue;
        }
        if let Some(id) = parse_stream_reject(pk) {
            reports.push((id, t, err.clone()));
        }
    }
    if !out.log_truncated {
        for (pn, len, cd) in &out.app.rejects.control {
            reports.push((link::PktId { kind: link::KIND_CONTROL, cred: 0, f: [*pn, *len, *cd, 0, 0, 0] }, 0, "control packet failed authentication".into()));
        }
    }

    let mut hits: Vec<(link::PktId, bool, String)> = vec![];
    for (id, t, err) in reports {
        let Some((dir, space, is_retx, _t0)) = genuine.get(&id).copied() else { continue };
        if let Some(n) = forged_left.get_mut(&id) {
            if *n > 0 {
                *n -= 1;
                continue;
            }
        }
        if id.kind == link::KIND_STREAM {
            let total = id.f[5] + id.f[4] + 16;
            if out.app.rejects.acked.contains(&(id.f[2], id.f[3], id.f[4], total)) {
                continue;
            }
            if let Some(n) = repeats.get_mut(&(id.f[2], id.f[3], id.f[4], total)) {
                if *n > 0 {
                    *n -= 1;
                    continue;
                }
            }
            let pn = id.f[2];
            if let Some(w) = prefix.get(&(id.cred, id.f[0], dir, space)) {
                let upto = w.partition_point(|e| e.0 <= t);
                let max_by_then = if upto > 0 { w[upto - 1].2 } else { 0 };
                let same = w[..upto].iter().filter(|e| e.1 == pn).count();
                if max_by_then >= pn + 129 || same >= 2 {
                    continue;
                }
            }
        }
        hits.push((id, is_retx, err));
    }
    for (kind, want_retx) in [(link::KIND_STREAM, false), (link::KIND_STREAM, true), (link::KIND_CONTROL, false)] {
        let of_kind: Vec<_> = hits.iter().filter(|h| h.0.kind == kind && (kind == link::KIND_CONTROL || h.1 == want_retx)).collect();
        if let Some((id, _, err)) = of_kind.first() {
            let what = if kind == link::KIND_STREAM {
                format!("stream packet credentials {:#x}/{} queue {} pn {} offset {} payload_len {}", id.cred, id.f[0], id.f[1], id.f[2], id.f[3], id.f[4])
            } else {
                format!("control packet pn {} len {} control_data_len {}", id.f[0], id.f[1], id.f[2])
            };
            vs.push(v(
                p,
                &format!("{pre}.genuine_packet_rejected"),
                format!(
                    "{} authentication failure(s) reported by receivers for datagrams the link delivered unmodified, not explained by a forged copy, a duplicate, the receive window, a dead endpoint or a later acknowledgement; first: {what} ({err})",
                    of_kind.len()
                ),
                if kind == link::KIND_CONTROL {
                    "control_auth_failed_for_genuine_packet"
                } else if want_retx {
                    "decrypt_failed_for_genuine_retransmission"
                } else {
                    "decrypt_failed_for_genuine_packet"
                },
            ));
        }
    }
}

fn ev(out: &RunOut, name: &str) -> u64 {
    out.events.get(name).copied().unwrap_or(0)
}

fn c18(plan: &Plan, out: &RunOut, vs: &mut Vec<Violation>) {
    let p = "C18";
    // genuine secret-control datagrams that the receiving map can attribute to an entry: genuine
    // UnknownPathSecret for a credential id really in use, plus copies whose authenticated part
    // (credential id + stateless-reset token) is byte-identical to such a packet.  The map handler
    // may run twice per delivered datagram (socket router, then the stream worker the queue id
    // routes to), so each may legitimately produce two accepted events.
    let ups_ok = out.stats.genuine_ups_known_id + out.stats.equiv_ups_delivered;
    for (kind, evn, allowed) in [
        ("unknown_path_secret", "unknown_path_secret_packet_accepted", 2 * ups_ok),
        ("stale_key", "stale_key_packet_accepted", 0),
        ("replay_detected", "replay_detected_packet_accepted", 0),
    ] {
        let acc = ev(out, evn);
        if acc > allowed {
            vs.push(v(
                p,
                "c18.forged_secret_control_accepted",
                format!(
                    "{evn}={acc} but only {} genuine/equivalent {kind} datagrams for known ids were delivered (genuine delivered {:?}, forged delivered {:?})",
                    allowed / 2,
                    out.stats.genuine_secret_control,
                    out.stats.forged_secret_control
                ),
                kind,
            ));
        }
    }
    let hs: u64 = out.end.clients.iter().map(|c| c.handshake_requests).sum::<u64>() + out.end.server_handshake_requests;
    let hs_ev = ev(out, "path_secret_map_background_handshake_requested");
    if hs > 2 * ups_ok || hs_ev > 2 * ups_ok {
        vs.push(v(p, "c18.forged_handshake_request", format!("handshake requests: callbacks={hs} events={hs_ev}, genuine/equivalent UnknownPathSecret for known ids delivered={ups_ok}"), ""));
    }
    let evicted = ev(out, "path_secret_map_id_entry_evicted") + ev(out, "path_secret_map_address_entry_evicted");
    if evicted > 0 {
        vs.push(v(p, "c18.entry_evicted", format!("{evicted} eviction events in a run without capacity pressure"), ""));
    }
    for (i, c) in out.end.clients.iter().enumerate() {
        // two ids per client: the pair test_insert_pair made and the plan-derived one that replaced it
        if c.secrets_len != 2 || !c.contains_server {
            vs.push(v(p, "c18.map_changed", format!("client {i} map: secrets_len={} contains(server)={}", c.secrets_len, c.contains_server), ""));
        }
        match c.next_key_id {
            Some(k) if k == c.streams_opened => {}
            other => vs.push(v(p, "c18.key_id_jump", format!("client {i}: next key id {other:?} after {} streams", c.streams_opened), "")),
        }
    }
    let expect_server = if plan.family == "forge_forget" && out.vanish_t_ns.is_some() { 0 } else { 2 * plan.clients.len() };
    if out.end.server_secrets_len != expect_server {
        vs.push(v(p, "c18.map_changed", format!("server map secrets_len={} expected {expect_server}", out.end.server_secrets_len), ""));
    }
    if out.end.server_next_key_id.map_or(false, |k| k != 0) {
        vs.push(v(p, "c18.key_id_jump", format!("server: next key id {:?} although it never opened a stream", out.end.server_next_key_id), ""));
    }
    // guard: the genuine packet has its effect
    if out.stats.genuine_ups_known_id > 0 && ev(out, "unknown_path_secret_packet_accepted") == 0 {
        vs.push(v(p, "c18.genuine_not_accepted", format!("{} genuine UnknownPathSecret for a known credential id delivered, none accepted", out.stats.genuine_ups_known_id), ""));
    }
}

pub fn summarize(plan: &Plan, out: &RunOut) -> Summary {
    let faults_fired: u64 = out.stats.fired.values().sum();
    let mut bytes_after_fault = 0;
    let mut bytes_read = 0;
    let mut errors = 0;
    for (k, a) in &out.app.actors {
        if k.2 == ROLE_SR || k.2 == ROLE_CR {
            bytes_after_fault += a.bytes_after_fault;
            bytes_read += a.bytes;
        }
        if is_err(a) {
            errors += 1;
        }
    }
    // signature of the fate/ordering trace
    let mut f = Fnv::default();
    let mut order: Vec<(u64, usize)> = out.log.iter().enumerate().filter(|(_, r)| r.fate == FATE_DELIVERED).map(|(i, r)| (r.t_deliver_ns, i)).collect();
    order.sort();
    for r in &out.log {
        f.write(&[r.dir, r.fate, r.label, r.kind]);
    }
    for (_, i) in &order {
        let r = &out.log[*i];
        f.write(&[r.dir, r.label]);
        f.u64(r.ord);
    }
    let sig = simkit::mix64(f.0);
    // full trace hash for the determinism self-check
    let mut h = Fnv::default();
    for r in &out.log {
        h.u64(r.t_send_ns);
        h.u64(r.t_deliver_ns);
        h.write(&[r.dir, r.fate, r.label, r.kind]);
        h.u64(r.ord);
        h.u64(r.len as u64);
        h.u64(r.bytes_hash);
        h.write(r.src.to_string().as_bytes());
        h.write(r.dst.to_string().as_bytes());
    }
    for (k, a) in &out.app.actors {
        h.write(&[k.0, k.1, k.2]);
        h.u64(a.bytes);
        h.u64(a.ops as u64);
        h.write(a.end.as_bytes());
        h.u64(a.t_end_ns);
        h.u64(a.mismatch.unwrap_or(u64::MAX));
    }
    for g in &out.app.ghosts {
        h.write(g.as_bytes());
    }
    h.u64(out.end_ns);
    for (k, n) in &out.events {
        h.write(k.as_bytes());
        h.u64(*n);
    }
    let hash = simkit::mix64(h.0);

    let mut probes: BTreeMap<String, u64> = BTreeMap::new();
    let mut pr = |k: &str, n: u64| {
        if n > 0 {
            probes.insert(k.to_string(), n);
        }
    };
    pr("retransmission_on_wire", out.stats.retx_seen);
    pr("recovery_probe_on_wire", out.stats.probes_seen);
    pr("fin_on_wire", out.stats.fin_seen);
    pr("reordered_deliveries", out.stats.reordered);
    pr("reorder_span_ge_3", (out.stats.max_reorder_span >= 3) as u64);
    pr("reorder_span_ge_16", (out.stats.max_reorder_span >= 16) as u64);
    pr("unknown_path_secret_on_wire", out.stats.kinds_seen.get("unknown_path_secret").copied().unwrap_or(0));
    pr("unknown_path_secret_accepted", ev(out, "unknown_path_secret_packet_accepted"));
    pr("unknown_path_secret_rejected", ev(out, "unknown_path_secret_packet_rejected"));
    pr("unknown_path_secret_dropped_unknown_id", ev(out, "unknown_path_secret_packet_dropped"));
    pr("stale_key_rejected", ev(out, "stale_key_packet_rejected"));
    pr("stale_key_dropped_unknown_id", ev(out, "stale_key_packet_dropped"));
    pr("replay_detected_rejected", ev(out, "replay_detected_packet_rejected"));
    pr("replay_detected_dropped_unknown_id", ev(out, "replay_detected_packet_dropped"));
    pr("receiver_replay_definitely_detected", ev(out, "replay_definitely_detected"));
    pr("receiver_replay_potentially_detected", ev(out, "replay_potentially_detected"));
    pr("packet_lost_declared", out.counters.get("stream_packet_lost").copied().unwrap_or(0));
    pr("spurious_retransmission", out.counters.get("stream_packet_spuriously_retransmitted").copied().unwrap_or(0));
    pr("pto_probe_transmitted", out.counters.get("stream_probe_transmitted").copied().unwrap_or(0));
    pr("write_blocked", out.counters.get("stream_write_blocked").copied().unwrap_or(0));
    pr("max_data_received", out.counters.get("stream_max_data_received").copied().unwrap_or(0));
    pr("receiver_errored", out.counters.get("stream_receiver_errored").copied().unwrap_or(0));
    pr("sender_errored", out.counters.get("stream_sender_errored").copied().unwrap_or(0));
    pr("acceptor_packet_dropped", out.counters.get("acceptor_udp_packet_dropped").copied().unwrap_or(0));
    let idle = out.app.actors.values().filter(|a| a.end.contains("idle") || a.end.contains("Idle") || a.end.contains("TimedOut")).count() as u64;
    pr("idle_timeout_error_seen", idle);
    let ups_err = out.app.actors.values().filter(|a| a.end.contains("UnknownPathSecret") || a.end.contains("unknown path secret")).count() as u64;
    pr("unknown_path_secret_error_seen", ups_err);
    pr("stream_error_results", errors);
    pr("ghost_streams", out.app.ghosts.len() as u64);
    pr("cap_extended", out.cap_extended as u64);
    pr("forged_delivered", out.stats.forged_delivered);
    pr("forged_noop_mutation", out.stats.forged_noop);
    pr("stream_packet_rejected_at_decrypt", out.app.rejects.stream.iter().filter(|(e, _)| e.contains("could not decrypt packet")).count() as u64);
    pr("control_packet_rejected_at_authentication", out.app.rejects.control.len() as u64);
    pr("key_phase_flip_delivered", out.log.iter().filter(|r| r.label == LABEL_FORGED && r.t_deliver_ns > 0 && r.note.as_deref().map_or(false, |n| n.starts_with("flip Tag pos 0/") && n.contains("xor 0x01 of stream"))).count() as u64);
    pr("forged_before_first_genuine_of_flow", out.stats.forged_first_flight);
    pr("forged_ups_with_identical_authenticated_part", out.stats.equiv_ups_delivered);
    pr("genuine_ups_for_known_id_delivered", out.stats.genuine_ups_known_id);
    let dup_rx = out.log.iter().filter(|r| r.label == link::LABEL_DUP && r.fate == FATE_DELIVERED).count() as u64;
    pr("duplicate_delivered", dup_rx);
    pr("forged_secret_control_delivered", out.log.iter().filter(|r| r.label == LABEL_FORGED && (3..=5).contains(&r.kind)).count() as u64);

    let nontrivial = match plan.family.as_str() {
        "vanish" => {
            out.vanish_t_ns.map_or(false, |tv| out.app.actors.iter().any(|(k, a)| (k.2 == ROLE_CW || k.2 == ROLE_CR) && a.started && (!a.done || a.t_end_ns > tv)))
        }
        "forge" | "forge_forget" => out.stats.forged_delivered > 0 && bytes_after_fault > 0,
        _ => faults_fired > 0 && bytes_after_fault > 0,
    };
    Summary { bytes_read, nontrivial, sig, hash, probes }
}
