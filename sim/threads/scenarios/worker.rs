//! `s2n_quic_core::sync::worker` — senders submit batches of credits, the receiver parks in
//! `acquire()` and must get every credit exactly once and be released when all senders are gone.

use super::{ev, fail, finish, join, rt, Log, Outcome, Scenario};
use s2n_quic_core::sync::worker;
use std::{future::poll_fn, sync::Arc, task::Poll};

pub fn scenarios() -> Vec<Scenario> {
    vec![
        Scenario::new("worker.one_sender", "C17", || run(1)),
        Scenario::new("worker.two_senders", "C17", || run(2)),
    ]
}

/// `senders` = 2: the two senders are two independent channels' worth of work funnelled through
/// one receiver by giving each thread its own `Sender` handle.  Handles are obtained with
/// `Sender::clone()` as the API documents.
pub fn run(senders: usize) -> Outcome {
    let sig = if senders == 1 { "worker.one_sender" } else { "worker.two_senders" };
    let plans: Vec<Vec<usize>> = (0..senders)
        .map(|_| {
            let batches = rt::range(0, 3) as usize;
            (0..batches).map(|_| rt::range(1, 4) as usize).collect()
        })
        .collect();
    let rbatch = rt::range(1, 4) as usize;
    let expected: usize = plans.iter().flatten().sum();
    let clock = Arc::new(rt::Clock::new());
    let (tx, mut rx) = worker::channel();

    let mut handles = vec![];
    let mut txs = vec![];
    for _ in 1..senders {
        txs.push(tx.clone());
    }
    txs.push(tx);
    for (i, (tx, plan)) in txs.into_iter().zip(plans.clone()).enumerate() {
        let mut log = Log::new(i as u8, &clock);
        handles.push(rt::spawn(move || {
            for c in plan {
                tx.submit(c);
                log.ev(ev::PUSH, c as u32);
            }
            log.ev(ev::DROP_P, 0);
            drop(tx);
            log
        }));
    }
    let cons = {
        let mut log = Log::new(senders as u8, &clock);
        rt::spawn(move || {
            let mut total = 0usize;
            loop {
                let r = rt::block_on(poll_fn(|cx| match rx.poll_acquire(cx) {
                    Poll::Ready(v) => Poll::Ready(v),
                    Poll::Pending => {
                        log.ev(ev::PEND_C, total as u32);
                        Poll::Pending
                    }
                }));
                match r {
                    Some(mut n) => {
                        if n == 0 {
                            fail("c17.worker.zero", sig, "acquire() returned Some(0)".into());
                        }
                        while n > 0 {
                            let k = n.min(rbatch);
                            rx.finish(k);
                            log.ev(ev::GOT, k as u32);
                            total += k;
                            n -= k;
                        }
                    }
                    None => {
                        log.ev(ev::CLOSED_C, total as u32);
                        break;
                    }
                }
            }
            (total, log)
        })
    };
    let mut logs = vec![];
    for h in handles {
        logs.push(join(h));
    }
    let (total, clog) = join(cons);
    logs.push(clog);
    if total != expected {
        fail(
            "c17.worker.count",
            sig,
            format!("senders submitted {expected} credits in total, receiver acquired {total} before `None`"),
        );
    }
    finish(format!("plans={plans:?} rbatch={rbatch}"), logs, super::default_contended)
}
