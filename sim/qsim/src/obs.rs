//! Observation taps: packet interceptor (cleartext of every packet) and event subscriber.
//! All records carry the endpoint id (0 = server, 1+i = client i), the endpoint-internal
//! connection id, the virtual time and a global event sequence number.

use crate::{plan::ByzRule, wire};
use s2n_quic::provider::event::{self, events};
use s2n_quic_core::{
    event::api::Subject,
    packet::{
        interceptor::{Datagram, Interceptor, Packet},
        number::PacketNumberSpace,
    },
};
use s2n_codec::{encoder::scatter, DecoderBufferMut, Encoder, EncoderBuffer};
use std::sync::{Arc, Mutex};

#[derive(Clone, Copy, Debug, PartialEq, Eq, Hash, PartialOrd, Ord)]
pub enum Space {
    Initial,
    Handshake,
    App,
}

impl From<PacketNumberSpace> for Space {
    fn from(s: PacketNumberSpace) -> Self {
        match s {
            PacketNumberSpace::Initial => Space::Initial,
            PacketNumberSpace::Handshake => Space::Handshake,
            PacketNumberSpace::ApplicationData => Space::App,
        }
    }
}

#[derive(Clone, Debug)]
pub struct PktRec {
    pub seq: u64,
    pub ep: u32,
    pub conn: u64,
    pub space: Space,
    pub pn: u64,
    pub t_ns: u64,
    pub payload: Vec<u8>,
    pub hash: u64,
    /// tx only: payload was modified by a byzantine rule (then `payload` is the modified one)
    pub byz: Option<String>,
}

#[derive(Clone, Debug)]
pub struct DgramRec {
    pub seq: u64,
    pub ep: u32,
    pub conn: u64,
    pub t_ns: u64,
    pub remote_port: u16,
    pub bytes: Vec<u8>,
}

/// a datagram as it entered the endpoint (before routing): only the head is kept
#[derive(Clone, Debug)]
pub struct RxDgramRec {
    pub seq: u64,
    pub ep: u32,
    pub t_ns: u64,
    pub remote_port: u16,
    pub head: Vec<u8>,
    pub len: usize,
}

#[derive(Clone, Debug)]
pub enum Ev {
    PacketSent { space: Space, pn: u64, len: usize, mode: u8 },
    PacketLost { space: Space, pn: u64, bytes: u16, mtu_probe: bool, path: u64 },
    AckRangeReceived { space: Space, lo: u64, hi: u64, in_pn: u64 },
    Metrics {
        path: u64,
        min_rtt_us: u64,
        smoothed_us: u64,
        latest_us: u64,
        var_us: u64,
        max_ack_delay_us: u64,
        pto_count: u32,
        cwnd: u32,
        bif: u32,
        limited: bool,
    },
    Congestion { path: u64, source: u8 },
    KeyUpdate { generation: Option<u16> },
    KeySpaceDiscarded { space: Space },
    Closed { error: String, code: Option<u64>, kind: CloseKind },
    PacketDropped { reason: String },
    DatagramDropped { reason: String, len: u16 },
    Duplicate { space: Space, pn: u64 },
    /// a Retry packet reached the connection (it may still be discarded: then a PacketDropped follows)
    RetryReceived,
    TpReceived {
        bidi_local: u64,
        bidi_remote: u64,
        uni: u64,
        streams_bidi: u64,
        streams_uni: u64,
        max_ack_delay_us: u64,
        ack_delay_exponent: u8,
        idle_ms: u64,
        active_cid_limit: u64,
        max_udp: u64,
    },
    HandshakeStatus { status: u8 },
    PacketSkipped { space: Space, pn: u64 },
    MtuUpdated { path: u64, mtu: u16 },
    ActivePathUpdated,
    PathCreated,
    PacketReceived { space: Space, pn: u64 },
    EcnState { state: u8 },
    SlowStartExited,
    PacingRate { bytes_per_second: u64, burst: u32 },
    /// the bounded ACK-range store evicted these received packet numbers
    RxAckRangeDropped { lo: u64, hi: u64 },
}

#[derive(Clone, Copy, Debug, PartialEq, Eq)]
pub enum CloseKind {
    /// closed locally without error / by the application
    Closed,
    Transport,
    Application,
    StatelessReset,
    IdleTimerExpired,
    NoValidPath,
    StreamIdExhausted,
    MaxHandshakeDurationExceeded,
    ImmediateClose,
    EndpointClosing,
    InvalidConfiguration,
    Unspecified,
    Other,
}

#[derive(Clone, Debug)]
pub struct EvRec {
    pub seq: u64,
    pub ep: u32,
    pub conn: u64,
    pub t_ns: u64,
    pub ev: Ev,
}

#[derive(Clone, Debug)]
pub enum EpEv {
    DatagramDropped { reason: String, len: u16 },
    PacketSent { kind: String },
    ConnectionAttemptFailed { error: String },
}

#[derive(Default, Debug)]
pub struct Obs {
    pub seq: u64,
    pub tx: Vec<PktRec>,
    pub rx: Vec<PktRec>,
    pub tx_dgrams: Vec<DgramRec>,
    pub rx_dgrams: Vec<RxDgramRec>,
    pub evs: Vec<EvRec>,
    pub ep_evs: Vec<(u64, u32, u64, EpEv)>,
    /// byzantine rules that actually fired: (ep, conn, rule description, seq)
    pub byz_fired: Vec<(u32, u64, String, u64)>,
    /// when false only hashes are kept for rx payloads
    pub keep_payloads: bool,
}

impl Obs {
    pub fn next_seq(&mut self) -> u64 {
        self.seq += 1;
        self.seq
    }
}

pub type SharedObs = Arc<Mutex<Obs>>;

fn conn_of(subject: &Subject) -> u64 {
    match subject {
        Subject::Connection { id, .. } => *id,
        _ => u64::MAX,
    }
}

fn ts_ns(t: s2n_quic_core::time::Timestamp) -> u64 {
    unsafe { t.as_duration().as_nanos() as u64 }
}

/// Packet interceptor: records cleartext; optionally applies byzantine rules (see byz.rs).
pub struct WireMonitor {
    pub ep: u32,
    pub obs: SharedObs,
    pub flatten: bool,
    pub byz: crate::byz::ByzState,
}

impl WireMonitor {
    pub fn new(
        ep: u32,
        obs: SharedObs,
        flatten: bool,
        rules: Vec<ByzRule>,
        is_client: bool,
        tls: crate::simtls::SharedTlsLog,
    ) -> Self {
        let mut byz = crate::byz::ByzState::new(rules, is_client);
        byz.tls = Some(tls);
        WireMonitor { ep, obs, flatten, byz }
    }
}

impl Interceptor for WireMonitor {
    fn intercept_rx_datagram<'a>(
        &mut self,
        _subject: &Subject,
        datagram: &Datagram,
        payload: DecoderBufferMut<'a>,
    ) -> DecoderBufferMut<'a> {
        let slice = payload.into_less_safe_slice();
        {
            let mut o = self.obs.lock().unwrap();
            let seq = o.next_seq();
            let remote_port = match &datagram.remote_address {
                s2n_quic_core::event::api::SocketAddress::IpV4 { port, .. } => *port,
                s2n_quic_core::event::api::SocketAddress::IpV6 { port, .. } => *port,
                _ => 0,
            };
            o.rx_dgrams.push(RxDgramRec {
                seq,
                ep: self.ep,
                t_ns: ts_ns(datagram.timestamp),
                remote_port,
                head: slice[..slice.len().min(64)].to_vec(),
                len: slice.len(),
            });
        }
        DecoderBufferMut::new(slice)
    }

    fn intercept_rx_payload<'a>(
        &mut self,
        subject: &Subject,
        packet: &Packet,
        payload: DecoderBufferMut<'a>,
    ) -> DecoderBufferMut<'a> {
        let slice = payload.into_less_safe_slice();
        {
            let mut o = self.obs.lock().unwrap();
            let seq = o.next_seq();
            let hash = crate::kernel::hash_bytes(slice);
            o.rx.push(PktRec {
                seq,
                ep: self.ep,
                conn: conn_of(subject),
                space: packet.number.space().into(),
                pn: packet.number.as_u64(),
                t_ns: ts_ns(packet.timestamp),
                payload: slice.to_vec(),
                hash,
                byz: None,
            });
        }
        self.byz.on_rx(conn_of(subject), packet.number.space().into(), slice);
        self.byz.note_rx_pn(conn_of(subject), packet.number.space().into(), packet.number.as_u64());
        DecoderBufferMut::new(slice)
    }

    fn intercept_tx_payload(
        &mut self,
        subject: &Subject,
        packet: &Packet,
        payload: &mut scatter::Buffer,
    ) {
        let conn = conn_of(subject);
        let space: Space = packet.number.space().into();
        // read (and possibly rewrite) the cleartext
        let mut byz_desc = None;
        let bytes: Vec<u8> = if self.flatten || self.byz.active() {
            let enc = payload.flatten();
            let len = enc.len();
            // leave room for the AEAD tag
            let cap = enc.capacity().saturating_sub(16);
            let cur = enc.as_mut_slice()[..len].to_vec();
            if let Some((new, desc)) = self.byz.on_tx(conn, space, packet.number.as_u64(), &cur, cap) {
                enc.set_position(0);
                enc.write_slice(&new);
                byz_desc = Some(desc);
                new
            } else {
                cur
            }
        } else {
            let (enc, extra) = payload.inner_mut();
            let len = enc.len();
            let mut v = enc.as_mut_slice()[..len].to_vec();
            if let Some(e) = extra {
                v.extend_from_slice(e);
            }
            v
        };
        let mut o = self.obs.lock().unwrap();
        let seq = o.next_seq();
        if let Some(d) = &byz_desc {
            o.byz_fired.push((self.ep, conn, d.clone(), seq));
        }
        let hash = crate::kernel::hash_bytes(&bytes);
        o.tx.push(PktRec {
            seq,
            ep: self.ep,
            conn,
            space,
            pn: packet.number.as_u64(),
            t_ns: ts_ns(packet.timestamp),
            payload: bytes,
            hash,
            byz: byz_desc,
        });
    }

    fn intercept_tx_datagram(
        &mut self,
        subject: &Subject,
        datagram: &Datagram,
        payload: &mut EncoderBuffer,
    ) {
        let len = payload.len();
        let bytes = payload.as_mut_slice()[..len].to_vec();
        let mut o = self.obs.lock().unwrap();
        let seq = o.next_seq();
        let remote_port = match &datagram.remote_address {
            s2n_quic_core::event::api::SocketAddress::IpV4 { port, .. } => *port,
            s2n_quic_core::event::api::SocketAddress::IpV6 { port, .. } => *port,
            _ => 0,
        };
        o.tx_dgrams.push(DgramRec {
            seq,
            ep: self.ep,
            conn: conn_of(subject),
            t_ns: ts_ns(datagram.timestamp),
            remote_port,
            bytes,
        });
    }
}

pub struct WireProvider(pub WireMonitor);
impl s2n_quic::provider::packet_interceptor::Provider for WireProvider {
    type PacketInterceptor = WireMonitor;
    type Error = core::convert::Infallible;
    fn start(self) -> Result<WireMonitor, Self::Error> {
        Ok(self.0)
    }
}

// -------------------------------------------------------------------------------------------

pub struct EventTap {
    pub ep: u32,
    pub obs: SharedObs,
}

fn hdr(h: &events::PacketHeader) -> Option<(Space, u64)> {
    match h {
        events::PacketHeader::Initial { number, .. } => Some((Space::Initial, *number)),
        events::PacketHeader::Handshake { number, .. } => Some((Space::Handshake, *number)),
        events::PacketHeader::OneRtt { number, .. } => Some((Space::App, *number)),
        events::PacketHeader::ZeroRtt { number, .. } => Some((Space::App, *number)),
        _ => None,
    }
}

fn key_space(s: &events::KeySpace) -> Space {
    match s {
        events::KeySpace::Initial { .. } => Space::Initial,
        events::KeySpace::Handshake { .. } => Space::Handshake,
        _ => Space::App,
    }
}

impl EventTap {
    fn push(&self, meta: &events::ConnectionMeta, ev: Ev) {
        let mut o = self.obs.lock().unwrap();
        let seq = o.next_seq();
        let t_ns = meta.timestamp.duration_since_start().as_nanos() as u64;
        o.evs.push(EvRec { seq, ep: self.ep, conn: meta.id, t_ns, ev });
    }
    fn push_ep(&self, meta: &events::EndpointMeta, ev: EpEv) {
        let mut o = self.obs.lock().unwrap();
        let seq = o.next_seq();
        let t_ns = meta.timestamp.duration_since_start().as_nanos() as u64;
        let ep = self.ep;
        o.ep_evs.push((seq, ep, t_ns, ev));
    }
}

pub fn classify_close(error: &s2n_quic_core::connection::Error) -> (CloseKind, Option<u64>) {
    use s2n_quic_core::connection::Error as E;
    match error {
        E::Closed { .. } => (CloseKind::Closed, None),
        E::Transport { code, .. } => (CloseKind::Transport, Some(code.as_u64())),
        E::Application { error, .. } => (CloseKind::Application, Some(u64::from(**error))),
        E::StatelessReset { .. } => (CloseKind::StatelessReset, None),
        E::IdleTimerExpired { .. } => (CloseKind::IdleTimerExpired, None),
        E::NoValidPath { .. } => (CloseKind::NoValidPath, None),
        E::StreamIdExhausted { .. } => (CloseKind::StreamIdExhausted, None),
        E::MaxHandshakeDurationExceeded { .. } => (CloseKind::MaxHandshakeDurationExceeded, None),
        E::ImmediateClose { .. } => (CloseKind::ImmediateClose, None),
        E::EndpointClosing { .. } => (CloseKind::EndpointClosing, None),
        E::InvalidConfiguration { .. } => (CloseKind::InvalidConfiguration, None),
        E::Unspecified { .. } => (CloseKind::Unspecified, None),
        _ => (CloseKind::Other, None),
    }
}

impl event::Subscriber for EventTap {
    type ConnectionContext = ();

    fn create_connection_context(
        &mut self,
        _meta: &events::ConnectionMeta,
        _info: &events::ConnectionInfo,
    ) -> Self::ConnectionContext {
    }

    fn on_packet_sent(&mut self, _c: &mut (), meta: &events::ConnectionMeta, e: &events::PacketSent) {
        if let Some((space, pn)) = hdr(&e.packet_header) {
            let mode = match e.transmission_mode {
                events::TransmissionMode::LossRecoveryProbing { .. } => 1,
                events::TransmissionMode::MtuProbing { .. } => 2,
                events::TransmissionMode::PathValidationOnly { .. } => 3,
                _ => 0,
            };
            self.push(meta, Ev::PacketSent { space, pn, len: e.packet_len, mode });
        }
    }

    fn on_packet_received(
        &mut self,
        _c: &mut (),
        meta: &events::ConnectionMeta,
        e: &events::PacketReceived,
    ) {
        if let Some((space, pn)) = hdr(&e.packet_header) {
            self.push(meta, Ev::PacketReceived { space, pn });
        } else if matches!(e.packet_header, events::PacketHeader::Retry { .. }) {
            self.push(meta, Ev::RetryReceived);
        }
    }

    fn on_packet_lost(&mut self, _c: &mut (), meta: &events::ConnectionMeta, e: &events::PacketLost) {
        if let Some((space, pn)) = hdr(&e.packet_header) {
            self.push(
                meta,
                Ev::PacketLost { space, pn, bytes: e.bytes_lost, mtu_probe: e.is_mtu_probe, path: e.path.id },
            );
        }
    }

    fn on_ack_range_received(
        &mut self,
        _c: &mut (),
        meta: &events::ConnectionMeta,
        e: &events::AckRangeReceived,
    ) {
        if let Some((space, in_pn)) = hdr(&e.packet_header) {
            self.push(
                meta,
                Ev::AckRangeReceived {
                    space,
                    lo: *e.ack_range.start(),
                    hi: *e.ack_range.end(),
                    in_pn,
                },
            );
        }
    }

    fn on_recovery_metrics(
        &mut self,
        _c: &mut (),
        meta: &events::ConnectionMeta,
        e: &events::RecoveryMetrics,
    ) {
        self.push(
            meta,
            Ev::Metrics {
                path: e.path.id,
                min_rtt_us: e.min_rtt.as_micros() as u64,
                smoothed_us: e.smoothed_rtt.as_micros() as u64,
                latest_us: e.latest_rtt.as_micros() as u64,
                var_us: e.rtt_variance.as_micros() as u64,
                max_ack_delay_us: e.max_ack_delay.as_micros() as u64,
                pto_count: e.pto_count,
                cwnd: e.congestion_window,
                bif: e.bytes_in_flight,
                limited: e.congestion_limited,
            },
        );
    }

    fn on_congestion(&mut self, _c: &mut (), meta: &events::ConnectionMeta, e: &events::Congestion) {
        let source = match e.source {
            events::CongestionSource::Ecn { .. } => 0,
            _ => 1,
        };
        self.push(meta, Ev::Congestion { path: e.path.id, source });
    }

    fn on_key_update(&mut self, _c: &mut (), meta: &events::ConnectionMeta, e: &events::KeyUpdate) {
        let generation = match e.key_type {
            events::KeyType::OneRtt { generation, .. } => Some(generation),
            _ => None,
        };
        self.push(meta, Ev::KeyUpdate { generation });
    }

    fn on_key_space_discarded(
        &mut self,
        _c: &mut (),
        meta: &events::ConnectionMeta,
        e: &events::KeySpaceDiscarded,
    ) {
        self.push(meta, Ev::KeySpaceDiscarded { space: key_space(&e.space) });
    }

    fn on_connection_closed(
        &mut self,
        _c: &mut (),
        meta: &events::ConnectionMeta,
        e: &events::ConnectionClosed,
    ) {
        let (kind, code) = classify_close(&e.error);
        self.push(meta, Ev::Closed { error: format!("{:?}", e.error), code, kind });
    }

    fn on_packet_dropped(
        &mut self,
        _c: &mut (),
        meta: &events::ConnectionMeta,
        e: &events::PacketDropped,
    ) {
        let s = format!("{:?}", e.reason);
        let reason = s.split([' ', '{']).next().unwrap_or("").to_string();
        self.push(meta, Ev::PacketDropped { reason });
    }

    fn on_datagram_dropped(
        &mut self,
        _c: &mut (),
        meta: &events::ConnectionMeta,
        e: &events::DatagramDropped,
    ) {
        let s = format!("{:?}", e.reason);
        let reason = s.split([' ', '{']).next().unwrap_or("").to_string();
        self.push(meta, Ev::DatagramDropped { reason, len: e.len });
    }

    fn on_duplicate_packet(
        &mut self,
        _c: &mut (),
        meta: &events::ConnectionMeta,
        e: &events::DuplicatePacket,
    ) {
        if let Some((space, pn)) = hdr(&e.packet_header) {
            self.push(meta, Ev::Duplicate { space, pn });
        }
    }

    fn on_transport_parameters_received(
        &mut self,
        _c: &mut (),
        meta: &events::ConnectionMeta,
        e: &events::TransportParametersReceived,
    ) {
        let p = &e.transport_parameters;
        self.push(
            meta,
            Ev::TpReceived {
                bidi_local: p.initial_max_stream_data_bidi_local,
                bidi_remote: p.initial_max_stream_data_bidi_remote,
                uni: p.initial_max_stream_data_uni,
                streams_bidi: p.initial_max_streams_bidi,
                streams_uni: p.initial_max_streams_uni,
                max_ack_delay_us: p.max_ack_delay.as_micros() as u64,
                ack_delay_exponent: p.ack_delay_exponent,
                idle_ms: p.max_idle_timeout.as_millis() as u64,
                active_cid_limit: p.active_connection_id_limit,
                max_udp: p.max_udp_payload_size,
            },
        );
    }

    fn on_handshake_status_updated(
        &mut self,
        _c: &mut (),
        meta: &events::ConnectionMeta,
        e: &events::HandshakeStatusUpdated,
    ) {
        let status = match e.status {
            events::HandshakeStatus::Complete { .. } => 1,
            events::HandshakeStatus::Confirmed { .. } => 2,
            events::HandshakeStatus::HandshakeDoneAcked { .. } => 3,
            events::HandshakeStatus::HandshakeDoneLost { .. } => 4,
            _ => 0,
        };
        self.push(meta, Ev::HandshakeStatus { status });
    }

    fn on_packet_skipped(
        &mut self,
        _c: &mut (),
        meta: &events::ConnectionMeta,
        e: &events::PacketSkipped,
    ) {
        self.push(meta, Ev::PacketSkipped { space: key_space(&e.space), pn: e.number });
    }

    fn on_mtu_updated(&mut self, _c: &mut (), meta: &events::ConnectionMeta, e: &events::MtuUpdated) {
        self.push(meta, Ev::MtuUpdated { path: e.path_id, mtu: e.mtu });
    }

    fn on_active_path_updated(
        &mut self,
        _c: &mut (),
        meta: &events::ConnectionMeta,
        _e: &events::ActivePathUpdated,
    ) {
        self.push(meta, Ev::ActivePathUpdated);
    }

    fn on_path_created(&mut self, _c: &mut (), meta: &events::ConnectionMeta, _e: &events::PathCreated) {
        self.push(meta, Ev::PathCreated);
    }

    fn on_ecn_state_changed(
        &mut self,
        _c: &mut (),
        meta: &events::ConnectionMeta,
        e: &events::EcnStateChanged,
    ) {
        let state = match e.state {
            events::EcnState::Testing { .. } => 0,
            events::EcnState::Unknown { .. } => 1,
            events::EcnState::Failed { .. } => 2,
            events::EcnState::Capable { .. } => 3,
            _ => 4,
        };
        self.push(meta, Ev::EcnState { state });
    }

    fn on_slow_start_exited(
        &mut self,
        _c: &mut (),
        meta: &events::ConnectionMeta,
        _e: &events::SlowStartExited,
    ) {
        self.push(meta, Ev::SlowStartExited);
    }

    fn on_pacing_rate_updated(
        &mut self,
        _c: &mut (),
        meta: &events::ConnectionMeta,
        e: &events::PacingRateUpdated,
    ) {
        self.push(meta, Ev::PacingRate { bytes_per_second: e.bytes_per_second, burst: e.burst_size });
    }

    fn on_rx_ack_range_dropped(
        &mut self,
        _c: &mut (),
        meta: &events::ConnectionMeta,
        e: &events::RxAckRangeDropped,
    ) {
        self.push(
            meta,
            Ev::RxAckRangeDropped { lo: *e.packet_number_range.start(), hi: *e.packet_number_range.end() },
        );
    }

    fn on_endpoint_datagram_dropped(
        &mut self,
        meta: &events::EndpointMeta,
        e: &events::EndpointDatagramDropped,
    ) {
        let s = format!("{:?}", e.reason);
        let reason = s.split([' ', '{']).next().unwrap_or("").to_string();
        self.push_ep(meta, EpEv::DatagramDropped { reason, len: e.len });
    }

    fn on_endpoint_packet_sent(&mut self, meta: &events::EndpointMeta, e: &events::EndpointPacketSent) {
        let s = format!("{:?}", e.packet_header);
        let kind = s.split([' ', '{']).next().unwrap_or("").to_string();
        self.push_ep(meta, EpEv::PacketSent { kind });
    }

    fn on_endpoint_connection_attempt_failed(
        &mut self,
        meta: &events::EndpointMeta,
        e: &events::EndpointConnectionAttemptFailed,
    ) {
        self.push_ep(meta, EpEv::ConnectionAttemptFailed { error: format!("{:?}", e.error) });
    }
}

/// helper: parse every frame of a packet record with the reference parser
pub fn frames_of(p: &PktRec) -> Result<Vec<wire::Frame>, wire::ParseError> {
    wire::parse_frames(&p.payload).map(|(f, _)| f)
}
