//! `s2n_quic_platform::socket::ring` with `message::simple::Message` — the doubled ring the socket
//! tasks use (cursor + two `atomic_waker::pair`s + replicated primary/secondary regions).
//! spin/async consumer, 1-4 entries, 1-3 batches, producer drops at the end (consumer must
//! drain everything then observe the close); or consumer drops early (producer observes it).
//! Miri only in the shipped configuration (the platform crate is not built against the shadow
//! core crate).

use super::{ev, fail, finish, join, rt, Log, Mode, Outcome, Scenario};
use s2n_quic_platform::{
    message::{simple::Message, Message as _},
    socket::ring::{self, Consumer, Producer},
};
use std::{future::poll_fn, sync::Arc, task::Poll};

pub fn scenarios() -> Vec<Scenario> {
    vec![
        Scenario::new("ring.spin.drain", "C17", || run(Mode::Spin, false)),
        Scenario::new("ring.async.drain", "C17", || run(Mode::Async, false)),
        Scenario::new("ring.async.rxdrop", "C17", || run(Mode::Async, true)),
    ]
}

const PAYLOAD: u32 = 16;

fn fill(seq: u32, len: usize, out: &mut [u8]) {
    for (i, b) in out[..len].iter_mut().enumerate() {
        *b = (seq as u8).wrapping_mul(31).wrapping_add(i as u8) | 1;
    }
}

fn len_of(seq: u32) -> usize {
    1 + (seq as usize * 7) % PAYLOAD as usize
}

fn run(cmode: Mode, rxdrop: bool) -> Outcome {
    let sig = if rxdrop { "ring.rxdrop" } else { "ring.drain" };
    let entries = 1u32 << rt::range(0, 2);
    let total = entries * rt::range(1, 3) as u32;
    let pbatch = rt::range(1, entries as u64) as u32;
    let cbatch = rt::range(1, entries as u64) as u32;
    let take = if rxdrop { rt::below(total as u64) as u32 } else { u32::MAX };
    let pmode = if rt::coin() { Mode::Spin } else { Mode::Async };
    let clock = Arc::new(rt::Clock::new());
    let (producer, consumer) = ring::pair::<Message>(entries, PAYLOAD);

    let tp = {
        let mut log = Log::new(0, &clock);
        rt::spawn(move || {
            let mut p: Producer<Message> = producer;
            let mut sent = 0u32;
            'outer: while sent < total {
                let n = match pmode {
                    Mode::Spin => loop {
                        let n = p.acquire(1);
                        if n > 0 {
                            break n;
                        }
                        if !p.is_open() {
                            log.ev(ev::CLOSED_P, sent);
                            break 'outer;
                        }
                        log.ev(ev::FULL, sent);
                        rt::spin();
                    },
                    Mode::Async => {
                        let n = rt::block_on(poll_fn(|cx| match p.poll_acquire(1, cx) {
                            Poll::Ready(n) => Poll::Ready(n),
                            Poll::Pending => {
                                if !p.is_open() {
                                    return Poll::Ready(0);
                                }
                                log.ev(ev::PEND_P, sent);
                                Poll::Pending
                            }
                        }));
                        if n == 0 {
                            log.ev(ev::CLOSED_P, sent);
                            break 'outer;
                        }
                        n
                    }
                };
                if n > entries {
                    fail("c17.ring.bounds", sig, format!("producer acquired {n} > {entries} entries"));
                }
                let k = n.min(pbatch).min(total - sent);
                for (i, m) in p.data().iter_mut().take(k as usize).enumerate() {
                    let seq = sent + i as u32;
                    unsafe {
                        m.reset(PAYLOAD as usize);
                        let len = len_of(seq);
                        fill(seq, len, m.payload_mut());
                        m.set_payload_len(len);
                    }
                }
                p.release(k);
                log.ev(ev::PUSH, sent);
                sent += k;
            }
            log.ev(ev::DROP_P, sent);
            drop(p);
            (sent, log)
        })
    };
    let tc = {
        let mut log = Log::new(1, &clock);
        rt::spawn(move || {
            let mut c: Consumer<Message> = consumer;
            let mut got = 0u32;
            let mut closed = false;
            while got < take {
                let n = match cmode {
                    Mode::Spin => loop {
                        let n = c.acquire(1);
                        if n > 0 {
                            break n;
                        }
                        if !c.is_open() {
                            // the producer is gone: whatever it released before is visible now
                            break c.acquire(1);
                        }
                        log.ev(ev::EMPTY, got);
                        rt::spin();
                    },
                    Mode::Async => rt::block_on(poll_fn(|cx| match c.poll_acquire(1, cx) {
                        Poll::Ready(n) => Poll::Ready(n),
                        Poll::Pending => {
                            if !c.is_open() {
                                return Poll::Ready(c.acquire(1));
                            }
                            log.ev(ev::PEND_C, got);
                            Poll::Pending
                        }
                    })),
                };
                if n == 0 {
                    closed = true;
                    log.ev(ev::CLOSED_C, got);
                    break;
                }
                if n > entries {
                    fail("c17.ring.bounds", sig, format!("consumer acquired {n} > {entries} entries"));
                }
                let k = n.min(cbatch).min(take - got);
                for (i, m) in c.data().iter_mut().take(k as usize).enumerate() {
                    let seq = got + i as u32;
                    let len = len_of(seq);
                    let mut want = [0u8; PAYLOAD as usize];
                    fill(seq, len, &mut want);
                    if m.payload_len() != len || m.payload_mut() != &want[..len] {
                        fail(
                            "c17.order",
                            sig,
                            format!("message {seq}: len {} payload {:?}, expected len {len} {:?}", m.payload_len(), m.payload_mut(), &want[..len]),
                        );
                    }
                }
                c.release(k);
                log.ev(ev::GOT, got);
                got += k;
            }
            log.ev(ev::DROP_C, got);
            drop(c);
            (got, closed, log)
        })
    };
    let (sent, lp) = join(tp);
    let (got, closed, lc) = join(tc);
    if got > sent {
        fail("c17.count", sig, format!("consumer read {got} messages, producer released {sent}"));
    }
    if !rxdrop && !(closed && got == sent && sent == total) {
        fail("c17.count", sig, format!("producer released {sent}/{total} and dropped; consumer read {got}, closed={closed}"));
    }
    if rxdrop && got != take.min(sent) && !(closed && got == sent) {
        fail("c17.count", sig, format!("consumer wanted {take}, read {got}, producer released {sent}"));
    }
    finish(
        format!("entries={entries} total={total} pbatch={pbatch} cbatch={cbatch} pmode={} take={take}", pmode.name()),
        vec![lp, lc],
        super::default_contended,
    )
}
