//! Direct driver for `s2n_quic_dc::path::secret::Map` (C18, secret-control half).
//!
//! Two real maps (client, server) are filled through the map's public `dc::Endpoint`/`dc::Path`
//! callbacks (the same calls the QUIC handshake makes) with a fixed TLS exporter, for either
//! cipher suite.  Genuine UnknownPathSecret packets come from the server map itself
//! (`open_once` after `drop_state`); genuine StaleKey / ReplayDetected are encoded with the
//! server entry's `control_sealer()` (what `receiver::Error::to_packet` does; that function
//! itself hands the packet to a real OS socket).  Every mutated variant is fed to the client map
//! through one of its three public entry points; after each the observable state must be
//! unchanged; finally the genuine packet must have its documented effect.

use s2n_codec::{DecoderBufferMut, DecoderParameterizedValueMut, EncoderBuffer};
use s2n_quic_core::{
    crypto::tls::{ChainError, CipherSuite, TlsExportError, TlsSession},
    dc::{self, Endpoint as _, Path as _},
    event::IntoEvent as _,
    inet,
    time::NoopClock,
    varint::VarInt,
};
use s2n_quic_dc::{
    credentials::Credentials,
    event::testing::Subscriber as TestSub,
    packet::{self, secret_control as sc, WireVersion},
    path::secret::{map::Entry, stateless_reset::Signer, Map},
};
use serde::{Deserialize, Serialize};
use serde_json::{json, Value};
use simkit::{hashn, Rng, Violation};
use std::{
    collections::BTreeMap,
    net::SocketAddr,
    sync::{
        atomic::{AtomicU64, Ordering},
        Arc, Mutex,
    },
    time::Duration,
};

pub const ST_FRESH: u8 = 0;
pub const ST_AGED: u8 = 1;
pub const ST_ABSENT: u8 = 2;
pub const ST_REPLACED: u8 = 3;
pub const ST_OTHER_PEER: u8 = 4;

fn state_name(s: u8) -> &'static str {
    ["present_fresh", "present_aged", "absent", "replaced_by_rehandshake", "other_peer_only"][s as usize]
}
fn kind_name(k: u8) -> &'static str {
    ["unknown_path_secret", "stale_key", "replay_detected"][k as usize]
}

#[derive(Clone, Debug, Serialize, Deserialize, PartialEq)]
pub struct Case {
    pub seed: u64,
    /// 0 = AES_128_GCM_SHA256, 1 = AES_256_GCM_SHA384
    pub suite: u8,
    pub evict_on_unknown_path_secret: bool,
    pub state: u8,
    /// 0 UnknownPathSecret, 1 StaleKey, 2 ReplayDetected
    pub kind: u8,
    pub with_queue_id: bool,
    /// 0 handle_control_packet, 1 handle_unexpected_packet, 2 dc::Endpoint::on_possible_secret_control_packet
    pub entry_point: u8,
    pub age_s: u64,
    pub min_key_delta: u64,
}

pub fn case_for(seed: u64) -> Case {
    let mut r = Rng::new(hashn(seed, &[0xc18]));
    let state = r.below(5) as u8;
    Case {
        seed,
        suite: r.below(2) as u8,
        evict_on_unknown_path_secret: r.chance(1, 2),
        state,
        kind: r.below(3) as u8,
        with_queue_id: r.chance(1, 2),
        entry_point: r.below(3) as u8,
        age_s: if state == ST_AGED { r.pick(&[11u64, 60, 3600, 86_400 * 2]) } else { r.pick(&[0u64, 0, 5, 9]) },
        min_key_delta: r.pick(&[1u64, 2, 1000, 1 << 30, 1 << 50]),
    }
}

struct FakeTls {
    material: u64,
    suite: CipherSuite,
}

impl TlsSession for FakeTls {
    fn tls_exporter(&self, _label: &[u8], _context: &[u8], output: &mut [u8]) -> Result<(), TlsExportError> {
        for (i, c) in output.chunks_mut(8).enumerate() {
            let w = hashn(self.material, &[i as u64]).to_le_bytes();
            c.copy_from_slice(&w[..c.len()]);
        }
        Ok(())
    }
    fn cipher_suite(&self) -> CipherSuite {
        self.suite
    }
    fn peer_cert_chain_der(&self) -> Result<Vec<Vec<u8>>, ChainError> {
        Ok(vec![])
    }
    fn client_cert_chain_der(&self) -> Result<Option<Vec<u8>>, ChainError> {
        Ok(None)
    }
}

struct Side {
    map: Map,
    sub: Arc<TestSub>,
    hs_cb: Arc<AtomicU64>,
}

fn new_side(signer: &[u8], evict: bool) -> Side {
    let sub = Arc::new(TestSub::no_snapshot());
    let map = Map::new(Signer::new(signer), 64, evict, NoopClock, sub.clone());
    let hs_cb = Arc::new(AtomicU64::new(0));
    let c = hs_cb.clone();
    map.register_request_handshake(Box::new(move |_a, _r| {
        c.fetch_add(1, Ordering::Relaxed);
        None
    }));
    Side { map, sub, hs_cb }
}

/// the calls s2n-quic makes on the dc provider during a handshake, on both sides
fn handshake(client: &Map, server: &Map, client_addr: SocketAddr, server_addr: SocketAddr, suite: CipherSuite, material: u64) -> Result<(Arc<Entry>, Arc<Entry>), String> {
    handshake_with_params(client, server, client_addr, server_addr, suite, material, dc::testing::TEST_APPLICATION_PARAMS, dc::testing::TEST_APPLICATION_PARAMS)
}

/// `client_entry_params` are the parameters stored in the client's entry (what the client uses
/// when sending to the server, i.e. the server's limits) and vice versa - the same assignment
/// `test_insert_pair` makes.
#[allow(clippy::too_many_arguments)]
pub fn handshake_with_params(
    client: &Map,
    server: &Map,
    client_addr: SocketAddr,
    server_addr: SocketAddr,
    suite: CipherSuite,
    material: u64,
    client_entry_params: dc::ApplicationParams,
    server_entry_params: dc::ApplicationParams,
) -> Result<(Arc<Entry>, Arc<Entry>), String> {
    let tls = FakeTls { material, suite };
    let mut c = client.clone();
    let mut s = server.clone();
    let sa: inet::SocketAddress = server_addr.into();
    let ca: inet::SocketAddress = client_addr.into();
    let ci = dc::ConnectionInfo::new(&sa, dc::SUPPORTED_VERSIONS[0], client_entry_params, s2n_quic_core::endpoint::Type::Client.into_event());
    let si = dc::ConnectionInfo::new(&ca, dc::SUPPORTED_VERSIONS[0], server_entry_params, s2n_quic_core::endpoint::Type::Server.into_event());
    let mut cp = c.new_path(&ci).ok_or("client new_path")?;
    let mut sp = s.new_path(&si).ok_or("server new_path")?;
    let ctok = cp.on_path_secrets_ready(&tls).map_err(|e| format!("{e:?}"))?;
    let stok = sp.on_path_secrets_ready(&tls).map_err(|e| format!("{e:?}"))?;
    cp.on_peer_stateless_reset_tokens(stok.iter());
    sp.on_peer_stateless_reset_tokens(ctok.iter());
    cp.on_dc_handshake_complete();
    sp.on_dc_handshake_complete();
    Ok((cp.entry().ok_or("client entry")?, sp.entry().ok_or("server entry")?))
}

#[derive(Clone, Debug, PartialEq, Default)]
struct Obs {
    secrets_len: usize,
    peers_len: usize,
    contains_peer: bool,
    accepted: [u64; 3],
    evicted: u64,
    hs_event: u64,
    hs_cb: u64,
    inserted: u64,
    replaced: u64,
}

fn observe(s: &Side, peer: &SocketAddr) -> Obs {
    let l = |a: &AtomicU64| a.load(Ordering::Relaxed);
    Obs {
        secrets_len: s.map.secrets_len(),
        peers_len: s.map.peers_len(),
        contains_peer: s.map.contains(peer),
        accepted: [l(&s.sub.unknown_path_secret_packet_accepted), l(&s.sub.stale_key_packet_accepted), l(&s.sub.replay_detected_packet_accepted)],
        evicted: l(&s.sub.path_secret_map_id_entry_evicted) + l(&s.sub.path_secret_map_address_entry_evicted),
        hs_event: l(&s.sub.path_secret_map_background_handshake_requested),
        hs_cb: l(&s.hs_cb),
        inserted: l(&s.sub.path_secret_map_entry_inserted),
        replaced: l(&s.sub.path_secret_map_entry_replaced),
    }
}

#[derive(Default, Debug, Clone)]
struct Verdicts {
    decode_rejected: u64,
    map_rejected: u64,
    map_dropped: u64,
}

/// feeds one datagram; returns Err(panic message) if a decoder or handler panicked
fn feed(side: &Side, ep: u8, bytes: &[u8], from: &SocketAddr, vd: &mut Verdicts) -> Result<(), String> {
    let l = |a: &AtomicU64| a.load(Ordering::Relaxed);
    let rej0 = l(&side.sub.unknown_path_secret_packet_rejected) + l(&side.sub.stale_key_packet_rejected) + l(&side.sub.replay_detected_packet_rejected);
    let drop0 = l(&side.sub.unknown_path_secret_packet_dropped) + l(&side.sub.stale_key_packet_dropped) + l(&side.sub.replay_detected_packet_dropped);
    let mut buf = bytes.to_vec();
    let map = side.map.clone();
    let from = *from;
    let r = std::panic::catch_unwind(std::panic::AssertUnwindSafe(move || -> bool {
        match ep {
            0 => match sc::Packet::decode(DecoderBufferMut::new(&mut buf)) {
                Ok((p, _)) => {
                    map.handle_control_packet(&p, &from);
                    true
                }
                Err(_) => false,
            },
            1 => match packet::Packet::decode_parameterized_mut(16, DecoderBufferMut::new(&mut buf)) {
                Ok((p, _)) => {
                    map.handle_unexpected_packet(&p, &from);
                    true
                }
                Err(_) => false,
            },
            _ => {
                let mut m = map;
                let a: inet::SocketAddress = from.into();
                let info = dc::DatagramInfo::new(&a);
                m.on_possible_secret_control_packet(&info, &mut buf)
            }
        }
    }));
    match r {
        Err(_) => Err(crate::run::take_panic().unwrap_or_else(|| "panic".into())),
        Ok(decoded) => {
            let rej1 = l(&side.sub.unknown_path_secret_packet_rejected) + l(&side.sub.stale_key_packet_rejected) + l(&side.sub.replay_detected_packet_rejected);
            let drop1 = l(&side.sub.unknown_path_secret_packet_dropped) + l(&side.sub.stale_key_packet_dropped) + l(&side.sub.replay_detected_packet_dropped);
            if !decoded {
                vd.decode_rejected += 1;
            } else if rej1 > rej0 {
                vd.map_rejected += 1;
            } else if drop1 > drop0 {
                vd.map_dropped += 1;
            }
            Ok(())
        }
    }
}

pub struct CaseOut {
    pub violations: Vec<Violation>,
    pub variants: u64,
    pub verdicts: BTreeMap<String, u64>,
    pub genuine_effect: String,
    /// UnknownPathSecret variants whose changed byte lies in a field the stateless-reset tag does
    /// not cover (flags bit of the first byte, queue id) and that the map nevertheless accepted
    pub ups_unauth_accepted: u64,
    pub ups_unauth_tried: u64,
}

fn viol(oracle: &str, detail: String, sig: &str) -> Violation {
    Violation { property: "C18".into(), oracle: oracle.into(), detail, sig: sig.into() }
}

fn genuine_packet(c: &Case, server: &Side, server_entry: &Arc<Entry>, id: s2n_quic_dc::credentials::Id, key_id: VarInt, min_key: VarInt) -> Vec<u8> {
    let q = if c.with_queue_id { VarInt::new(hashn(c.seed, &[77]) % (1 << 30)).ok() } else { None };
    match c.kind {
        0 => {
            // the server no longer knows the secret: its own map writes the packet
            server.map.drop_state();
            let mut out = vec![];
            let creds = Credentials { id, key_id };
            let r = server.map.open_once(&creds, q, &mut out);
            assert!(r.is_none());
            out
        }
        1 => {
            let mut buf = [0u8; sc::MAX_PACKET_SIZE];
            let n = sc::StaleKey { credential_id: id, wire_version: WireVersion::ZERO, queue_id: q, min_key_id: min_key }
                .encode(EncoderBuffer::new(&mut buf), &server_entry.control_sealer());
            buf[..n].to_vec()
        }
        _ => {
            let mut buf = [0u8; sc::MAX_PACKET_SIZE];
            let n = sc::ReplayDetected { credential_id: id, wire_version: WireVersion::ZERO, queue_id: q, rejected_key_id: key_id }
                .encode(EncoderBuffer::new(&mut buf), &server_entry.control_sealer());
            buf[..n].to_vec()
        }
    }
}

pub fn run_case(c: &Case) -> CaseOut {
    crate::run::install_panic_hook();
    let c = c.clone();
    let mut rt = bach::environment::default::Runtime::new().with_seed(c.seed);
    rt.block_on(async move { run_case_inner(&c) })
}

fn run_case_inner(c: &Case) -> CaseOut {
    let mut out = CaseOut { violations: vec![], variants: 0, verdicts: BTreeMap::new(), genuine_effect: String::new(), ups_unauth_accepted: 0, ups_unauth_tried: 0 };
    let suite = if c.suite == 0 { CipherSuite::TLS_AES_128_GCM_SHA256 } else { CipherSuite::TLS_AES_256_GCM_SHA384 };
    let client = new_side(b"client-signer", c.evict_on_unknown_path_secret);
    let server = new_side(b"server-signer", false);
    let client_addr: SocketAddr = "10.0.0.2:4000".parse().unwrap();
    let server_addr: SocketAddr = "10.0.0.1:443".parse().unwrap();
    let other_addr: SocketAddr = "10.0.0.9:443".parse().unwrap();
    let case_s = serde_json::to_string(c).unwrap();

    // the pair the genuine packet is about: always known to the server, maybe not to the client
    let scratch_client = new_side(b"scratch", false);
    let target_client = if c.state == ST_ABSENT || c.state == ST_OTHER_PEER { &scratch_client } else { &client };
    let (centry, sentry) = match handshake(&target_client.map, &server.map, client_addr, server_addr, suite, hashn(c.seed, &[1])) {
        Ok(x) => x,
        Err(e) => {
            out.violations.push(viol("harness.mapdrv", format!("handshake failed: {e}"), ""));
            return out;
        }
    };
    if c.state == ST_OTHER_PEER {
        // the client knows some other peer only
        let other_server = new_side(b"other-server", false);
        if let Err(e) = handshake(&client.map, &other_server.map, client_addr, other_addr, suite, hashn(c.seed, &[2])) {
            out.violations.push(viol("harness.mapdrv", format!("handshake failed: {e}"), ""));
            return out;
        }
    }
    if c.state == ST_REPLACED {
        // re-handshake with the same peer: new id becomes the address entry, the old id stays
        let server2 = new_side(b"server-signer", false);
        if let Err(e) = handshake(&client.map, &server2.map, client_addr, server_addr, suite, hashn(c.seed, &[3])) {
            out.violations.push(viol("harness.mapdrv", format!("handshake failed: {e}"), ""));
            return out;
        }
    }
    let id = *centry.id();
    // the client has used a few key ids already
    let used = 3 + hashn(c.seed, &[4]) % 5;
    let mut last_key = 0;
    for _ in 0..used {
        last_key = centry.sender().next_key_id().as_u64();
    }
    let key_id = VarInt::new(last_key).unwrap();
    let min_key = VarInt::new(last_key + 1 + c.min_key_delta).unwrap();
    if c.age_s > 0 {
        crate::clock::advance(Duration::from_secs(c.age_s));
    }
    let genuine = genuine_packet(c, &server, &sentry, id, key_id, min_key);
    // a genuine packet for an unrelated secret (for tag swaps) and one of another kind for the same id
    let foreign = {
        let oc = new_side(b"x", false);
        let os = new_side(b"y", false);
        let (_e, se) = handshake(&oc.map, &os.map, client_addr, other_addr, suite, hashn(c.seed, &[5])).unwrap();
        let cc = Case { kind: c.kind, ..c.clone() };
        genuine_packet(&cc, &os, &se, *se.id(), key_id, min_key)
    };
    let sibling = {
        let cc = Case { kind: if c.kind == 2 { 1 } else { 2 }, ..c.clone() };
        genuine_packet(&cc, &server, &sentry, id, key_id, min_key)
    };

    // ---- variants
    let len = genuine.len();
    let tag_start = len - 16;
    let mut variants: Vec<(String, Vec<u8>, bool)> = vec![]; // (description, bytes, covered_by_tag)
    let xors = [0x01u8, 0x80, 0xff, (hashn(c.seed, &[6]) as u8) | 0x02];
    for pos in 0..len {
        // UnknownPathSecret: the tag is a stateless-reset token bound to the credential id only
        let covered = if c.kind == 0 { (1..17).contains(&pos) || pos >= tag_start } else { true };
        for x in xors {
            let mut v = genuine.clone();
            v[pos] ^= x;
            variants.push((format!("flip pos {pos}/{len} xor {x:#04x}"), v, covered));
        }
    }
    for keep in 0..len {
        variants.push((format!("truncate to {keep}/{len}"), genuine[..keep].to_vec(), true));
    }
    for extra in [1usize, 7, 16, 64] {
        let mut v = genuine.clone();
        v.extend((0..extra).map(|i| i as u8 ^ 0x33));
        // a datagram with trailing bytes is a different datagram: must not have an effect either
        // the datagram still starts with the genuine packet; only the entry point that insists on an
        // empty tail must refuse it
        variants.push((format!("extend by {extra}"), v, c.entry_point == 2));
    }
    if foreign.len() >= 16 {
        let mut v = genuine.clone();
        v[tag_start..].copy_from_slice(&foreign[foreign.len() - 16..]);
        variants.push(("tag of a genuine packet for another path secret".into(), v, true));
        let mut v = foreign.clone();
        let fl = v.len();
        v[fl - 16..].copy_from_slice(&genuine[tag_start..]);
        if v.len() >= 17 && len >= 17 {
            let mut w = v.clone();
            w[1..17].copy_from_slice(&genuine[1..17]);
            variants.push(("foreign packet with this credential id".into(), w, true));
        }
    }
    if sibling.len() >= 16 {
        let mut v = genuine.clone();
        v[tag_start..].copy_from_slice(&sibling[sibling.len() - 16..]);
        variants.push(("tag of a genuine packet of another kind for the same secret".into(), v, true));
        let mut v = sibling.clone();
        let sl = v.len();
        v[sl - 16..].copy_from_slice(&genuine[tag_start..]);
        variants.push(("another kind carrying this packet's tag".into(), v, true));
    }
    {
        let mut r = Rng::new(hashn(c.seed, &[8]));
        for _ in 0..8 {
            let mut v = vec![0u8; len];
            r.fill(&mut v);
            v[0] = genuine[0];
            variants.push(("random bytes behind the genuine first byte".into(), v, true));
        }
        for _ in 0..8 {
            let mut v = genuine.clone();
            let n = r.range(2, 6);
            for _ in 0..n {
                let p = r.range(1, len as u64 - 1) as usize;
                v[p] ^= (r.next() as u8) | 1;
            }
            // multi-byte mutation: covered unless every changed byte is in an uncovered field
            let cov = c.kind != 0 || (0..len).any(|p| v[p] != genuine[p] && ((1..17).contains(&p) || p >= tag_start));
            variants.push((format!("multi-byte mutation ({n} bytes)"), v, cov));
        }
    }

    let from_addrs = [server_addr, other_addr];
    let mut vd = Verdicts::default();
    let mut prev_key = last_key;
    let present = matches!(c.state, ST_FRESH | ST_AGED | ST_REPLACED);
    let base = observe(&client, &server_addr);
    let mut uncovered: Vec<(String, Vec<u8>)> = vec![];
    for (i, (desc, bytes, covered)) in variants.iter().enumerate() {
        if bytes[..] == genuine[..] {
            continue;
        }
        if !covered {
            uncovered.push((desc.clone(), bytes.clone()));
            continue;
        }
        out.variants += 1;
        let from = &from_addrs[i % 2];
        if let Err(p) = feed(&client, c.entry_point, bytes, from, &mut vd) {
            out.violations.push(viol("c18.map.decoder_panic", format!("{desc}: {p}; case {case_s}"), ""));
            return out;
        }
        let now = observe(&client, &server_addr);
        if now != base {
            let what = if now.accepted != base.accepted {
                "c18.map.forged_accepted"
            } else if now.evicted != base.evicted || now.secrets_len != base.secrets_len || now.contains_peer != base.contains_peer || now.peers_len != base.peers_len {
                "c18.map.forged_evicts"
            } else if now.hs_cb != base.hs_cb || now.hs_event != base.hs_event {
                "c18.map.forged_requests_handshake"
            } else {
                "c18.map.forged_changes_state"
            };
            out.violations.push(viol(what, format!("variant '{desc}' of a genuine {} changed the map: before {base:?} after {now:?}; case {case_s}", kind_name(c.kind)), kind_name(c.kind)));
            return out;
        }
        if present {
            let k = centry.sender().next_key_id().as_u64();
            if k != prev_key + 1 {
                out.violations.push(viol(
                    "c18.map.forged_advances_key_id",
                    format!("variant '{desc}' of a genuine {}: sender key id went {prev_key} -> {k}; case {case_s}", kind_name(c.kind)),
                    kind_name(c.kind),
                ));
                return out;
            }
            prev_key = k;
        }
    }
    out.verdicts.insert("rejected_by_decoder".into(), vd.decode_rejected);
    out.verdicts.insert("rejected_by_map_authentication".into(), vd.map_rejected);
    out.verdicts.insert("dropped_unknown_credential_id".into(), vd.map_dropped);

    // ---- the genuine packet has its effect
    let before = observe(&client, &server_addr);
    if let Err(p) = feed(&client, c.entry_point, &genuine, &server_addr, &mut Verdicts::default()) {
        out.violations.push(viol("c18.map.decoder_panic", format!("genuine packet: {p}; case {case_s}"), ""));
        return out;
    }
    let after = observe(&client, &server_addr);
    let k = c.kind as usize;
    let mut expect = before.clone();
    let effect;
    if !present {
        effect = "none (credential id unknown to this map)".to_string();
    } else {
        expect.accepted[k] += 1;
        match c.kind {
            0 => {
                expect.hs_cb += 1;
                expect.hs_event += 1;
                let evict = c.evict_on_unknown_path_secret && c.age_s > 10;
                if evict {
                    expect.secrets_len -= 1;
                    if c.state == ST_REPLACED {
                        // the address entry belongs to the newer secret and must survive
                        expect.evicted += 1;
                    } else {
                        expect.peers_len -= 1;
                        expect.contains_peer = false;
                        expect.evicted += 2;
                    }
                    effect = "accepted, handshake requested, entry evicted".to_string();
                } else {
                    effect = "accepted, handshake requested, entry kept".to_string();
                }
            }
            1 => effect = "accepted, sender key id advanced".to_string(),
            _ => {
                expect.hs_cb += 1;
                expect.hs_event += 1;
                effect = "accepted, handshake requested".to_string();
            }
        }
    }
    if after != expect {
        out.violations.push(viol(
            "c18.map.genuine_effect",
            format!("genuine {} in state {}: expected {expect:?}, observed {after:?}; case {case_s}", kind_name(c.kind), state_name(c.state)),
            kind_name(c.kind),
        ));
        return out;
    }
    if present {
        let kk = centry.sender().next_key_id().as_u64();
        let ok = if c.kind == 1 { kk >= min_key.as_u64() } else { kk == prev_key + 1 };
        if !ok {
            out.violations.push(viol(
                "c18.map.genuine_effect",
                format!("genuine {}: sender key id {prev_key} -> {kk} (min_key_id {}); case {case_s}", kind_name(c.kind), min_key.as_u64()),
                kind_name(c.kind),
            ));
            return out;
        }
    }
    out.genuine_effect = format!("{} / {}: {effect}", kind_name(c.kind), state_name(c.state));

    // ---- report-only: UnknownPathSecret variants that differ only in bytes outside the token's
    // coverage (run last, on a fresh pair, because acceptance has the genuine effect)
    if c.kind == 0 && present && !uncovered.is_empty() {
        for (_desc, bytes) in uncovered.iter() {
            let cl = new_side(b"client-signer", false);
            let sv = new_side(b"server-signer", false);
            if handshake(&cl.map, &sv.map, client_addr, server_addr, suite, hashn(c.seed, &[1])).is_err() {
                break;
            }
            out.ups_unauth_tried += 1;
            let b = observe(&cl, &server_addr);
            if feed(&cl, c.entry_point, bytes, &server_addr, &mut Verdicts::default()).is_err() {
                out.violations.push(viol("c18.map.decoder_panic", format!("uncovered-field variant; case {case_s}"), ""));
                return out;
            }
            let a = observe(&cl, &server_addr);
            if a.accepted != b.accepted {
                out.ups_unauth_accepted += 1;
            }
        }
    }
    out
}

pub struct MapBatch {
    pub violations: Vec<(u64, Violation)>,
    pub coverage: Value,
}

pub fn batch(base_seed: u64, budget: Duration, threads: usize) -> MapBatch {
    // wall time from the realtime clock: the worker threads move their own monotonic clock forward
    // (clock.rs) to age map entries, so `Instant` is useless for budgeting there
    let t0 = std::time::SystemTime::now();
    let elapsed = move || t0.elapsed().unwrap_or_default();
    let next = Arc::new(AtomicU64::new(0));
    #[derive(Default)]
    struct A {
        cases: u64,
        variants: u64,
        verdicts: BTreeMap<String, u64>,
        effects: BTreeMap<String, u64>,
        combos: std::collections::BTreeSet<(u8, u8, u8, u8, bool, bool)>,
        violations: Vec<(u64, Violation)>,
        unauth_tried: u64,
        unauth_accepted: u64,
        samples: Vec<Value>,
    }
    let agg = Arc::new(Mutex::new(A::default()));
    std::thread::scope(|s| {
        for _ in 0..threads {
            let next = next.clone();
            let agg = agg.clone();
            s.spawn(move || loop {
                if elapsed() > budget {
                    break;
                }
                let i = next.fetch_add(1, Ordering::Relaxed);
                let seed = base_seed.wrapping_add(i);
                let c = case_for(seed);
                let o = run_case(&c);
                let mut g = agg.lock().unwrap();
                g.cases += 1;
                g.variants += o.variants;
                for (k, n) in &o.verdicts {
                    *g.verdicts.entry(k.clone()).or_insert(0) += n;
                }
                if !o.genuine_effect.is_empty() {
                    *g.effects.entry(o.genuine_effect.clone()).or_insert(0) += 1;
                }
                g.combos.insert((c.kind, c.state, c.suite, c.entry_point, c.evict_on_unknown_path_secret, c.with_queue_id));
                g.unauth_tried += o.ups_unauth_tried;
                g.unauth_accepted += o.ups_unauth_accepted;
                if g.samples.len() < 3 && o.violations.is_empty() {
                    g.samples.push(json!({"case": c, "variants": o.variants, "verdicts": o.verdicts, "genuine_effect": o.genuine_effect}));
                }
                for v in o.violations {
                    g.violations.push((seed, v));
                }
            });
        }
    });
    let g = std::mem::take(&mut *agg.lock().unwrap());
    let coverage = json!({
        "cases": g.cases,
        "mutated_packets_fed": g.variants,
        "distinct_case_combinations(kind,state,suite,entry_point,evict,queue_id)": g.combos.len(),
        "verdicts": g.verdicts,
        "genuine_effects_observed": g.effects,
        "unknown_path_secret_variants_outside_token_coverage": {"tried": g.unauth_tried, "accepted_by_map": g.unauth_accepted,
            "note": "report-only: the UnknownPathSecret tag is the stateless-reset token of the credential id; the has-queue-id flag bit and the queue id bytes are not covered by it"},
        "samples": g.samples,
        "wall_s": elapsed().as_secs_f64(),
        "rule": "case = f(seed): packet kind x map state (present fresh / aged past the 10 s eviction guard via interposed clock / absent / replaced by re-handshake / other peer only) x cipher suite x entry point x evict flag x queue id; per case every byte position x 4 xor masks, every truncation length, extensions, foreign tags, cross-kind tags, random bodies, multi-byte mutations; then the genuine packet",
    });
    MapBatch { violations: g.violations, coverage }
}

pub fn write_replay(seed: u64, v: &Violation) -> String {
    let c = case_for(seed);
    let doc = json!({
        "engine": "mapdrv",
        "property": "C18",
        "seed": seed,
        "case": c,
        "violation": v,
        "replay": "dcsim check C18 --replay <this file>",
    });
    simkit::write_replay_doc("C18", &format!("map-{seed}"), &doc)
}

pub fn replay(doc: &Value, path: &str) -> i32 {
    let c: Case = match serde_json::from_value(doc["case"].clone()) {
        Ok(c) => c,
        Err(e) => {
            eprintln!("HARNESS-ERROR: {path}: case: {e}");
            return 2;
        }
    };
    let o = run_case(&c);
    let known = simkit::load_known();
    let mut code = 0;
    for v in &o.violations {
        if v.oracle.starts_with("harness.") {
            eprintln!("HARNESS-ERROR: {}", v.detail);
            return 2;
        }
        if let Some(k) = simkit::is_known(&known, v) {
            println!("KNOWN-FINDING: property=C18 {}", k.text);
        } else {
            println!("violation: C18 {} :: {}", v.oracle, v.detail);
            println!("VIOLATION property=C18 replay={path}");
            code = 1;
        }
    }
    if o.violations.is_empty() {
        println!("replay: no violation ({} variants, {})", o.variants, o.genuine_effect);
    }
    code
}

pub fn show(seed: u64, n: u64) -> i32 {
    for i in 0..n {
        let c = case_for(seed + i);
        let o = run_case(&c);
        println!("{c:?}\n  variants {} verdicts {:?} effect {:?} uncovered tried/accepted {}/{}", o.variants, o.verdicts, o.genuine_effect, o.ups_unauth_tried, o.ups_unauth_accepted);
        for v in &o.violations {
            println!("  violation {} :: {}", v.oracle, v.detail);
        }
    }
    0
}
