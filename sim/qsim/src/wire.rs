//! Independent reference parser for RFC 9000 sections 12.4, 16-19 (frames, varints, visible
//! header fields, transport parameters).  Written from the RFC text; uses nothing from
//! s2n-codec / s2n-quic-core.

use std::fmt;

#[derive(Clone, Debug, PartialEq, Eq)]
pub struct ParseError(pub String);
impl fmt::Display for ParseError {
    fn fmt(&self, f: &mut fmt::Formatter) -> fmt::Result {
        write!(f, "{}", self.0)
    }
}
type R<T> = Result<T, ParseError>;
fn err<T>(s: &str) -> R<T> {
    Err(ParseError(s.to_string()))
}

pub const VARINT_MAX: u64 = (1 << 62) - 1;

pub struct Cur<'a> {
    pub b: &'a [u8],
    pub p: usize,
    /// set when a varint was found that is not in shortest form
    pub non_minimal: u32,
    /// widths of varints seen (index 0..4 for 1,2,4,8)
    pub widths: [u32; 4],
}

impl<'a> Cur<'a> {
    pub fn new(b: &'a [u8]) -> Self {
        Cur { b, p: 0, non_minimal: 0, widths: [0; 4] }
    }
    pub fn rem(&self) -> usize {
        self.b.len() - self.p
    }
    pub fn u8(&mut self) -> R<u8> {
        if self.rem() < 1 {
            return err("eof u8");
        }
        let v = self.b[self.p];
        self.p += 1;
        Ok(v)
    }
    pub fn u16(&mut self) -> R<u16> {
        let s = self.bytes(2)?;
        Ok(u16::from_be_bytes([s[0], s[1]]))
    }
    pub fn u32(&mut self) -> R<u32> {
        let s = self.bytes(4)?;
        Ok(u32::from_be_bytes([s[0], s[1], s[2], s[3]]))
    }
    pub fn bytes(&mut self, n: usize) -> R<&'a [u8]> {
        if self.rem() < n {
            return err("eof bytes");
        }
        let s = &self.b[self.p..self.p + n];
        self.p += n;
        Ok(s)
    }
    /// RFC 9000 section 16
    pub fn varint(&mut self) -> R<u64> {
        let first = self.u8()?;
        let prefix = first >> 6;
        let len = 1usize << prefix;
        let mut v = (first & 0x3f) as u64;
        for _ in 1..len {
            v = (v << 8) | self.u8()? as u64;
        }
        self.widths[prefix as usize] += 1;
        let minimal = match v {
            0..=63 => 1,
            64..=16383 => 2,
            16384..=1073741823 => 4,
            _ => 8,
        };
        if minimal != len {
            self.non_minimal += 1;
        }
        Ok(v)
    }
}

pub fn varint_len(v: u64) -> usize {
    match v {
        0..=63 => 1,
        64..=16383 => 2,
        16384..=1073741823 => 4,
        _ => 8,
    }
}

pub fn put_varint(out: &mut Vec<u8>, v: u64) {
    match varint_len(v) {
        1 => out.push(v as u8),
        2 => out.extend_from_slice(&((v as u16) | 0x4000).to_be_bytes()),
        4 => out.extend_from_slice(&((v as u32) | 0x8000_0000).to_be_bytes()),
        _ => out.extend_from_slice(&(v | 0xc000_0000_0000_0000).to_be_bytes()),
    }
}

/// non-minimal encoding with a forced width (for byzantine inputs)
pub fn put_varint_width(out: &mut Vec<u8>, v: u64, width: usize) {
    match width {
        1 => out.push(v as u8 & 0x3f),
        2 => out.extend_from_slice(&(((v as u16) & 0x3fff) | 0x4000).to_be_bytes()),
        4 => out.extend_from_slice(&(((v as u32) & 0x3fff_ffff) | 0x8000_0000).to_be_bytes()),
        _ => out.extend_from_slice(&((v & VARINT_MAX) | 0xc000_0000_0000_0000).to_be_bytes()),
    }
}

#[derive(Clone, Debug, PartialEq, Eq)]
pub enum Frame {
    Padding { len: usize },
    Ping,
    Ack { largest: u64, delay: u64, ranges: Vec<(u64, u64)>, ecn: Option<(u64, u64, u64)> },
    ResetStream { id: u64, code: u64, final_size: u64 },
    StopSending { id: u64, code: u64 },
    Crypto { off: u64, len: usize, data_at: usize },
    NewToken { len: usize },
    Stream { id: u64, off: u64, len: usize, fin: bool, data_at: usize, has_len: bool, has_off: bool },
    MaxData { max: u64 },
    MaxStreamData { id: u64, max: u64 },
    MaxStreams { bidi: bool, max: u64 },
    DataBlocked { limit: u64 },
    StreamDataBlocked { id: u64, limit: u64 },
    StreamsBlocked { bidi: bool, limit: u64 },
    NewConnectionId { seq: u64, retire_prior_to: u64, cid: Vec<u8>, token: [u8; 16] },
    RetireConnectionId { seq: u64 },
    PathChallenge { data: [u8; 8] },
    PathResponse { data: [u8; 8] },
    ConnectionClose { app: bool, code: u64, frame_type: Option<u64>, reason: Vec<u8> },
    HandshakeDone,
    Datagram { len: usize },
    /// s2n-quic private extension frames (0xdc0000, 0xdc0002)
    Extension { ty: u64, len: usize },
}

impl Frame {
    pub fn type_name(&self) -> &'static str {
        match self {
            Frame::Padding { .. } => "PADDING",
            Frame::Ping => "PING",
            Frame::Ack { .. } => "ACK",
            Frame::ResetStream { .. } => "RESET_STREAM",
            Frame::StopSending { .. } => "STOP_SENDING",
            Frame::Crypto { .. } => "CRYPTO",
            Frame::NewToken { .. } => "NEW_TOKEN",
            Frame::Stream { .. } => "STREAM",
            Frame::MaxData { .. } => "MAX_DATA",
            Frame::MaxStreamData { .. } => "MAX_STREAM_DATA",
            Frame::MaxStreams { .. } => "MAX_STREAMS",
            Frame::DataBlocked { .. } => "DATA_BLOCKED",
            Frame::StreamDataBlocked { .. } => "STREAM_DATA_BLOCKED",
            Frame::StreamsBlocked { .. } => "STREAMS_BLOCKED",
            Frame::NewConnectionId { .. } => "NEW_CONNECTION_ID",
            Frame::RetireConnectionId { .. } => "RETIRE_CONNECTION_ID",
            Frame::PathChallenge { .. } => "PATH_CHALLENGE",
            Frame::PathResponse { .. } => "PATH_RESPONSE",
            Frame::ConnectionClose { .. } => "CONNECTION_CLOSE",
            Frame::HandshakeDone => "HANDSHAKE_DONE",
            Frame::Datagram { .. } => "DATAGRAM",
            Frame::Extension { .. } => "EXTENSION",
        }
    }
    /// RFC 9000 13.2: all frames other than ACK, PADDING, CONNECTION_CLOSE are ack-eliciting
    pub fn ack_eliciting(&self) -> bool {
        !matches!(self, Frame::Padding { .. } | Frame::Ack { .. } | Frame::ConnectionClose { .. })
    }
    /// RFC 9002 2: packets are in flight if ack-eliciting or contain PADDING
    pub fn counts_in_flight(&self) -> bool {
        !matches!(self, Frame::Ack { .. } | Frame::ConnectionClose { .. })
    }
}

#[derive(Clone, Debug, Default)]
pub struct ParseStats {
    pub non_minimal: u32,
    pub widths: [u32; 4],
}

/// Parse a whole cleartext packet payload into frames (RFC 9000 12.4 / 19).
pub fn parse_frames(payload: &[u8]) -> R<(Vec<Frame>, ParseStats)> {
    parse_frames_opts(payload, true)
}

/// `strict = false`: semantic range errors (offset + length beyond 2^62-1) do not stop the parse;
/// used to look at what an endpoint was sent, e.g. a byzantine frame followed by honest ones
pub fn parse_frames_opts(payload: &[u8], strict: bool) -> R<(Vec<Frame>, ParseStats)> {
    let mut c = Cur::new(payload);
    let mut out = Vec::new();
    if payload.is_empty() {
        // RFC 9000 12.4: a packet with no frames is a PROTOCOL_VIOLATION
        return err("empty payload");
    }
    while c.rem() > 0 {
        let start = c.p;
        // frame type is a varint; all standard types fit one byte and MUST be minimal
        let nm_before = c.non_minimal;
        let ty = c.varint()?;
        if c.non_minimal != nm_before {
            return err("frame type not minimally encoded");
        }
        let f = match ty {
            0x00 => {
                // PADDING: coalesce the run
                let mut n = 1;
                while c.rem() > 0 && c.b[c.p] == 0 {
                    c.p += 1;
                    n += 1;
                }
                Frame::Padding { len: n }
            }
            0x01 => Frame::Ping,
            0x02 | 0x03 => {
                let largest = c.varint()?;
                let delay = c.varint()?;
                let count = c.varint()?;
                let first = c.varint()?;
                if first > largest {
                    return err("ack first range underflow");
                }
                let mut ranges = Vec::new();
                let mut smallest = largest - first;
                ranges.push((smallest, largest));
                for _ in 0..count {
                    let gap = c.varint()?;
                    let len = c.varint()?;
                    // RFC 19.3.1: largest = previous_smallest - gap - 2
                    let Some(l) = smallest.checked_sub(gap).and_then(|x| x.checked_sub(2)) else {
                        return err("ack gap underflow");
                    };
                    let Some(s) = l.checked_sub(len) else {
                        return err("ack range underflow");
                    };
                    ranges.push((s, l));
                    smallest = s;
                }
                let ecn = if ty == 0x03 {
                    Some((c.varint()?, c.varint()?, c.varint()?))
                } else {
                    None
                };
                Frame::Ack { largest, delay, ranges, ecn }
            }
            0x04 => Frame::ResetStream { id: c.varint()?, code: c.varint()?, final_size: c.varint()? },
            0x05 => Frame::StopSending { id: c.varint()?, code: c.varint()? },
            0x06 => {
                let off = c.varint()?;
                let len = c.varint()? as usize;
                let at = c.p;
                c.bytes(len)?;
                if strict && off.checked_add(len as u64).map_or(true, |e| e > VARINT_MAX) {
                    return err("crypto offset overflow");
                }
                Frame::Crypto { off, len, data_at: at }
            }
            0x07 => {
                let len = c.varint()? as usize;
                c.bytes(len)?;
                if len == 0 {
                    return err("empty NEW_TOKEN");
                }
                Frame::NewToken { len }
            }
            0x08..=0x0f => {
                let has_off = ty & 0x04 != 0;
                let has_len = ty & 0x02 != 0;
                let fin = ty & 0x01 != 0;
                let id = c.varint()?;
                let off = if has_off { c.varint()? } else { 0 };
                let len = if has_len { c.varint()? as usize } else { c.rem() };
                let at = c.p;
                c.bytes(len)?;
                if strict && off.checked_add(len as u64).map_or(true, |e| e > VARINT_MAX) {
                    return err("stream offset overflow");
                }
                Frame::Stream { id, off, len, fin, data_at: at, has_len, has_off }
            }
            0x10 => Frame::MaxData { max: c.varint()? },
            0x11 => Frame::MaxStreamData { id: c.varint()?, max: c.varint()? },
            0x12 | 0x13 => {
                let max = c.varint()?;
                if max > (1 << 60) {
                    return err("MAX_STREAMS > 2^60");
                }
                Frame::MaxStreams { bidi: ty == 0x12, max }
            }
            0x14 => Frame::DataBlocked { limit: c.varint()? },
            0x15 => Frame::StreamDataBlocked { id: c.varint()?, limit: c.varint()? },
            0x16 | 0x17 => {
                let limit = c.varint()?;
                if limit > (1 << 60) {
                    return err("STREAMS_BLOCKED > 2^60");
                }
                Frame::StreamsBlocked { bidi: ty == 0x16, limit }
            }
            0x18 => {
                let seq = c.varint()?;
                let rpt = c.varint()?;
                let len = c.u8()? as usize;
                if !(1..=20).contains(&len) {
                    return err("NEW_CONNECTION_ID length");
                }
                let cid = c.bytes(len)?.to_vec();
                let mut token = [0u8; 16];
                token.copy_from_slice(c.bytes(16)?);
                if rpt > seq {
                    return err("retire_prior_to > seq");
                }
                Frame::NewConnectionId { seq, retire_prior_to: rpt, cid, token }
            }
            0x19 => Frame::RetireConnectionId { seq: c.varint()? },
            0x1a => {
                let mut d = [0u8; 8];
                d.copy_from_slice(c.bytes(8)?);
                Frame::PathChallenge { data: d }
            }
            0x1b => {
                let mut d = [0u8; 8];
                d.copy_from_slice(c.bytes(8)?);
                Frame::PathResponse { data: d }
            }
            0x1c => {
                let code = c.varint()?;
                let ft = c.varint()?;
                let len = c.varint()? as usize;
                let reason = c.bytes(len)?.to_vec();
                Frame::ConnectionClose { app: false, code, frame_type: Some(ft), reason }
            }
            0x1d => {
                let code = c.varint()?;
                let len = c.varint()? as usize;
                let reason = c.bytes(len)?.to_vec();
                Frame::ConnectionClose { app: true, code, frame_type: None, reason }
            }
            0x1e => Frame::HandshakeDone,
            0x30 => {
                let len = c.rem();
                c.bytes(len)?;
                Frame::Datagram { len }
            }
            0x31 => {
                let len = c.varint()? as usize;
                c.bytes(len)?;
                Frame::Datagram { len }
            }
            0xdc0000 => {
                // s2n-quic-dc private frame: count-prefixed? treated opaque: rest of varint count * 16
                let count = c.varint()? as usize;
                c.bytes(count.checked_mul(16).ok_or(ParseError("dc tokens overflow".into()))?)?;
                Frame::Extension { ty, len: c.p - start }
            }
            0xdc0002 => {
                c.u16()?;
                Frame::Extension { ty, len: c.p - start }
            }
            _ => return Err(ParseError(format!("unknown frame type {ty:#x}"))),
        };
        out.push(f);
    }
    Ok((out, ParseStats { non_minimal: c.non_minimal, widths: c.widths }))
}

// ---------------------------------------------------------------------------------------
// Packet headers (only the fields visible without keys): RFC 9000 section 17

#[derive(Clone, Debug, PartialEq, Eq)]
pub enum PacketKind {
    Initial,
    ZeroRtt,
    Handshake,
    Retry,
    VersionNegotiation,
    Short,
}

#[derive(Clone, Debug)]
pub struct VisiblePacket {
    pub kind: PacketKind,
    pub version: u32,
    pub dcid: Vec<u8>,
    pub scid: Vec<u8>,
    pub token_len: usize,
    /// offset of this packet in the datagram and total length of the packet
    pub at: usize,
    pub len: usize,
    /// offset (in datagram) of the protected packet-number field
    pub pn_at: usize,
    pub fixed_bit: bool,
}

/// Split a datagram into its coalesced QUIC packets using only header fields.
/// `short_dcid_len` is the length of connection ids the *receiver* of the datagram issued.
pub fn split_datagram(d: &[u8], short_dcid_len: usize) -> R<Vec<VisiblePacket>> {
    let mut out = Vec::new();
    let mut p = 0usize;
    while p < d.len() {
        let first = d[p];
        if first & 0x80 != 0 {
            // long header
            let mut c = Cur::new(&d[p..]);
            c.u8()?;
            let version = c.u32()?;
            let dl = c.u8()? as usize;
            if version != 0 && dl > 20 {
                return err("dcid too long");
            }
            let dcid = c.bytes(dl)?.to_vec();
            let sl = c.u8()? as usize;
            if version != 0 && sl > 20 {
                return err("scid too long");
            }
            let scid = c.bytes(sl)?.to_vec();
            if version == 0 {
                out.push(VisiblePacket {
                    kind: PacketKind::VersionNegotiation,
                    version,
                    dcid,
                    scid,
                    token_len: 0,
                    at: p,
                    len: d.len() - p,
                    pn_at: 0,
                    fixed_bit: first & 0x40 != 0,
                });
                return Ok(out);
            }
            let ty = (first >> 4) & 0x3;
            match ty {
                0 | 1 | 2 => {
                    let mut token_len = 0;
                    if ty == 0 {
                        token_len = c.varint()? as usize;
                        c.bytes(token_len)?;
                    }
                    let length = c.varint()? as usize;
                    let pn_at = p + c.p;
                    if c.rem() < length {
                        return err("long header Length exceeds datagram");
                    }
                    let total = c.p + length;
                    out.push(VisiblePacket {
                        kind: match ty {
                            0 => PacketKind::Initial,
                            1 => PacketKind::ZeroRtt,
                            _ => PacketKind::Handshake,
                        },
                        version,
                        dcid,
                        scid,
                        token_len,
                        at: p,
                        len: total,
                        pn_at,
                        fixed_bit: first & 0x40 != 0,
                    });
                    p += total;
                }
                _ => {
                    out.push(VisiblePacket {
                        kind: PacketKind::Retry,
                        version,
                        dcid,
                        scid,
                        token_len: c.rem().saturating_sub(16),
                        at: p,
                        len: d.len() - p,
                        pn_at: 0,
                        fixed_bit: first & 0x40 != 0,
                    });
                    return Ok(out);
                }
            }
        } else {
            if d.len() - p < 1 + short_dcid_len {
                return err("short header too small");
            }
            out.push(VisiblePacket {
                kind: PacketKind::Short,
                version: 0,
                dcid: d[p + 1..p + 1 + short_dcid_len].to_vec(),
                scid: vec![],
                token_len: 0,
                at: p,
                len: d.len() - p,
                pn_at: p + 1 + short_dcid_len,
                fixed_bit: first & 0x40 != 0,
            });
            return Ok(out);
        }
    }
    Ok(out)
}

// ---------------------------------------------------------------------------------------
// Transport parameters: RFC 9000 section 18

pub mod tp {
    pub const ORIGINAL_DCID: u64 = 0x00;
    pub const MAX_IDLE_TIMEOUT: u64 = 0x01;
    pub const STATELESS_RESET_TOKEN: u64 = 0x02;
    pub const MAX_UDP_PAYLOAD_SIZE: u64 = 0x03;
    pub const INITIAL_MAX_DATA: u64 = 0x04;
    pub const INITIAL_MAX_STREAM_DATA_BIDI_LOCAL: u64 = 0x05;
    pub const INITIAL_MAX_STREAM_DATA_BIDI_REMOTE: u64 = 0x06;
    pub const INITIAL_MAX_STREAM_DATA_UNI: u64 = 0x07;
    pub const INITIAL_MAX_STREAMS_BIDI: u64 = 0x08;
    pub const INITIAL_MAX_STREAMS_UNI: u64 = 0x09;
    pub const ACK_DELAY_EXPONENT: u64 = 0x0a;
    pub const MAX_ACK_DELAY: u64 = 0x0b;
    pub const DISABLE_ACTIVE_MIGRATION: u64 = 0x0c;
    pub const PREFERRED_ADDRESS: u64 = 0x0d;
    pub const ACTIVE_CONNECTION_ID_LIMIT: u64 = 0x0e;
    pub const INITIAL_SCID: u64 = 0x0f;
    pub const RETRY_SCID: u64 = 0x10;
    pub const MAX_DATAGRAM_FRAME_SIZE: u64 = 0x20;
}

#[derive(Clone, Debug, PartialEq, Eq)]
pub struct TpEntry {
    pub id: u64,
    pub value: Vec<u8>,
}

pub fn parse_tp_block(b: &[u8]) -> R<(Vec<TpEntry>, ParseStats)> {
    let mut c = Cur::new(b);
    let mut out = Vec::new();
    while c.rem() > 0 {
        let id = c.varint()?;
        let len = c.varint()? as usize;
        let v = c.bytes(len)?.to_vec();
        out.push(TpEntry { id, value: v });
    }
    Ok((out, ParseStats { non_minimal: c.non_minimal, widths: c.widths }))
}

pub fn encode_tp_block(entries: &[TpEntry]) -> Vec<u8> {
    let mut out = Vec::new();
    for e in entries {
        put_varint(&mut out, e.id);
        put_varint(&mut out, e.value.len() as u64);
        out.extend_from_slice(&e.value);
    }
    out
}

/// Decode the value of an integer-valued parameter: the value must be exactly one varint
pub fn tp_int(v: &[u8]) -> R<u64> {
    let mut c = Cur::new(v);
    let x = c.varint()?;
    if c.rem() != 0 {
        return err("trailing bytes in integer parameter");
    }
    Ok(x)
}

/// The subset of parameters the monitors need, with RFC defaults for absent ones.
#[derive(Clone, Debug, PartialEq, Eq)]
pub struct PeerParams {
    pub max_idle_timeout_ms: u64,
    pub max_udp_payload_size: u64,
    pub initial_max_data: u64,
    pub initial_max_stream_data_bidi_local: u64,
    pub initial_max_stream_data_bidi_remote: u64,
    pub initial_max_stream_data_uni: u64,
    pub initial_max_streams_bidi: u64,
    pub initial_max_streams_uni: u64,
    pub ack_delay_exponent: u64,
    pub max_ack_delay_ms: u64,
    pub active_connection_id_limit: u64,
    pub disable_active_migration: bool,
    pub stateless_reset_token: Option<[u8; 16]>,
    pub initial_scid: Option<Vec<u8>>,
    pub original_dcid: Option<Vec<u8>>,
    pub retry_scid: Option<Vec<u8>>,
}

impl Default for PeerParams {
    fn default() -> Self {
        // RFC 9000 18.2 defaults
        PeerParams {
            max_idle_timeout_ms: 0,
            max_udp_payload_size: 65527,
            initial_max_data: 0,
            initial_max_stream_data_bidi_local: 0,
            initial_max_stream_data_bidi_remote: 0,
            initial_max_stream_data_uni: 0,
            initial_max_streams_bidi: 0,
            initial_max_streams_uni: 0,
            ack_delay_exponent: 3,
            max_ack_delay_ms: 25,
            active_connection_id_limit: 2,
            disable_active_migration: false,
            stateless_reset_token: None,
            initial_scid: None,
            original_dcid: None,
            retry_scid: None,
        }
    }
}

/// Verdict of RFC 9000 7.4 / 18.2 on a received block, independent of the handshake's
/// connection ids (those are checked by the caller).  `from_client` = the block was sent by a
/// client.
pub fn tp_verdict(entries: &[TpEntry], from_client: bool) -> Result<PeerParams, String> {
    use tp::*;
    let mut p = PeerParams::default();
    let mut seen: Vec<u64> = Vec::new();
    for e in entries {
        if seen.contains(&e.id) {
            return Err(format!("duplicate parameter {:#x}", e.id));
        }
        seen.push(e.id);
        let int = || tp_int(&e.value).map_err(|x| format!("param {:#x}: {}", e.id, x));
        match e.id {
            ORIGINAL_DCID => {
                if from_client {
                    return Err("original_destination_connection_id from client".into());
                }
                if e.value.len() > 20 {
                    return Err("cid too long".into());
                }
                p.original_dcid = Some(e.value.clone());
            }
            MAX_IDLE_TIMEOUT => p.max_idle_timeout_ms = int()?,
            STATELESS_RESET_TOKEN => {
                if from_client {
                    return Err("stateless_reset_token from client".into());
                }
                if e.value.len() != 16 {
                    return Err("stateless_reset_token length".into());
                }
                let mut t = [0u8; 16];
                t.copy_from_slice(&e.value);
                p.stateless_reset_token = Some(t);
            }
            MAX_UDP_PAYLOAD_SIZE => {
                let v = int()?;
                if v < 1200 {
                    return Err("max_udp_payload_size < 1200".into());
                }
                p.max_udp_payload_size = v;
            }
            INITIAL_MAX_DATA => p.initial_max_data = int()?,
            INITIAL_MAX_STREAM_DATA_BIDI_LOCAL => p.initial_max_stream_data_bidi_local = int()?,
            INITIAL_MAX_STREAM_DATA_BIDI_REMOTE => p.initial_max_stream_data_bidi_remote = int()?,
            INITIAL_MAX_STREAM_DATA_UNI => p.initial_max_stream_data_uni = int()?,
            INITIAL_MAX_STREAMS_BIDI => {
                let v = int()?;
                if v > (1 << 60) {
                    return Err("initial_max_streams_bidi > 2^60".into());
                }
                p.initial_max_streams_bidi = v;
            }
            INITIAL_MAX_STREAMS_UNI => {
                let v = int()?;
                if v > (1 << 60) {
                    return Err("initial_max_streams_uni > 2^60".into());
                }
                p.initial_max_streams_uni = v;
            }
            ACK_DELAY_EXPONENT => {
                let v = int()?;
                if v > 20 {
                    return Err("ack_delay_exponent > 20".into());
                }
                p.ack_delay_exponent = v;
            }
            MAX_ACK_DELAY => {
                let v = int()?;
                if v >= (1 << 14) {
                    return Err("max_ack_delay >= 2^14".into());
                }
                p.max_ack_delay_ms = v;
            }
            DISABLE_ACTIVE_MIGRATION => {
                if !e.value.is_empty() {
                    return Err("disable_active_migration with a value".into());
                }
                p.disable_active_migration = true;
            }
            PREFERRED_ADDRESS => {
                if from_client {
                    return Err("preferred_address from client".into());
                }
                // 4+2+16+2+1+cid+16
                if e.value.len() < 41 {
                    return Err("preferred_address too short".into());
                }
                let cl = e.value[24] as usize;
                if cl == 0 || cl > 20 || e.value.len() != 41 + cl {
                    return Err("preferred_address malformed".into());
                }
            }
            ACTIVE_CONNECTION_ID_LIMIT => {
                let v = int()?;
                if v < 2 {
                    return Err("active_connection_id_limit < 2".into());
                }
                p.active_connection_id_limit = v;
            }
            INITIAL_SCID => {
                if e.value.len() > 20 {
                    return Err("cid too long".into());
                }
                p.initial_scid = Some(e.value.clone());
            }
            RETRY_SCID => {
                if from_client {
                    return Err("retry_source_connection_id from client".into());
                }
                if e.value.len() > 20 {
                    return Err("cid too long".into());
                }
                p.retry_scid = Some(e.value.clone());
            }
            _ => { /* unknown parameters MUST be ignored */ }
        }
    }
    if p.initial_scid.is_none() {
        return Err("initial_source_connection_id missing".into());
    }
    if !from_client && p.original_dcid.is_none() {
        return Err("original_destination_connection_id missing".into());
    }
    Ok(p)
}

// ---------------------------------------------------------------------------------------
// Packet number reconstruction: RFC 9000 appendix A.3 (reference decoder) and A.2 rule

pub fn decode_packet_number(largest: Option<u64>, truncated: u64, pn_nbits: u32) -> u64 {
    let expected = largest.map_or(0, |l| l + 1);
    let win = 1u64 << pn_nbits;
    let hwin = win / 2;
    let mask = win - 1;
    let candidate = (expected & !mask) | truncated;
    if candidate + hwin <= expected && candidate < (1u64 << 62) - win {
        return candidate + win;
    }
    if candidate > expected + hwin && candidate >= win {
        return candidate - win;
    }
    candidate
}

#[cfg(test)]
mod tests {
    use super::*;
    #[test]
    fn rfc_a3_example() {
        assert_eq!(decode_packet_number(Some(0xa82f30ea), 0x9b32, 16), 0xa82f9b32);
    }
    #[test]
    fn varints() {
        let mut v = vec![];
        put_varint(&mut v, 151288809941952652);
        assert_eq!(v, [0xc2, 0x19, 0x7c, 0x5e, 0xff, 0x14, 0xe8, 0x8c]);
        let mut c = Cur::new(&[0x40, 0x25]);
        assert_eq!(c.varint().unwrap(), 37);
        assert_eq!(c.non_minimal, 1);
    }
}
