//! `comp` -- E2 component simulators: model-based history checks with injected faults.
//!
//!   comp check C16|C19 [--tier quick|thorough] [--seed N] [--runs N] [--budget-s S]
//!                      [--threads N] [--replay FILE]
//!
//! exit 0 = held, 1 = violation (`VIOLATION property=<id> replay=<path>`), 2 = harness error.

mod c16;
mod c19;
mod common;
mod dcshim;
mod driver;
mod rangeset;

// names the included dc source file (dcshim.rs) resolves through `crate::`
mod crypto {
    pub use s2n_quic_dc::crypto::*;
}
mod packet {
    pub use s2n_quic_dc::packet::*;
}

fn main() {
    let args: Vec<String> = std::env::args().skip(1).collect();
    let Some(a) = simkit::parse_check_args(&args) else {
        eprintln!("usage: comp check <C16|C19> [--tier quick|thorough] [--seed N] [--runs N] [--budget-s S] [--replay FILE]");
        std::process::exit(2);
    };
    driver::install_panic_hook();
    if let Err(e) = rangeset::selftest() {
        eprintln!("HARNESS-ERROR: {e}");
        std::process::exit(2);
    }
    let code = match a.property.as_str() {
        "C16" => driver::run(&a, &driver::C16),
        "C19" => driver::run(&a, &driver::C19),
        other => {
            eprintln!("HARNESS-ERROR: comp does not decide property {other:?}");
            2
        }
    };
    std::process::exit(code);
}
