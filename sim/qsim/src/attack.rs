//! Unattributable datagrams sent by a third host (C11) and forged traffic (C06).

use crate::{
    kernel::Rng,
    plan::{AttackKind, AttackerDatagram},
};

pub fn build(d: &AttackerDatagram, rand_key: u64) -> Vec<u8> {
    let mut r = Rng::new(crate::kernel::hashn(rand_key, &[d.key, d.at_us]));
    let len = d.len.max(1) as usize;
    let mut b = vec![0u8; len];
    r.fill(&mut b);
    match d.kind {
        AttackKind::Garbage | AttackKind::GarbageFromPeerAddr => {}
        AttackKind::ShortHeaderUnknownCid => {
            // short header, fixed bit set
            b[0] = 0x40 | (b[0] & 0x3f);
        }
        AttackKind::LongHeaderUnknownVersion => {
            b[0] = 0xc0 | (b[0] & 0x3f);
            if len >= 7 {
                // a version that is neither 0 nor 1 (and not reserved for negotiation patterns)
                b[1..5].copy_from_slice(&0x5a5a_5a5bu32.to_be_bytes());
                // dcid len 8
                b[5] = 8;
                if len >= 15 {
                    b[14] = 8; // scid len
                }
            }
        }
        AttackKind::VersionNegotiation => {
            b[0] = 0x80 | (b[0] & 0x7f);
            if len >= 7 {
                b[1..5].copy_from_slice(&0u32.to_be_bytes());
                b[5] = 8;
                if len >= 15 {
                    b[14] = 8;
                }
            }
        }
        AttackKind::InitialVersionZero => {
            b[0] = 0xc0;
            if len >= 7 {
                b[1..5].copy_from_slice(&0u32.to_be_bytes());
                b[5] = 8;
                if len >= 15 {
                    b[14] = 0;
                }
            }
        }
    }
    b
}
