//! E1 `qsim`: executes one Plan with real s2n-quic endpoints on the deterministic IO provider.

use crate::{
    kernel::{hashn, payload_check, payload_fill},
    net::{Host, NetState, SharedNet, SimNet},
    obs::{classify_close, CloseKind, EventTap, Obs, SharedObs, WireMonitor, WireProvider},
    plan::*,
    providers::{RetryLimiter, SimAddressToken, SimCidFormat, SimRandom, SimTokenGen},
    simtls::{self, SharedTlsLog, TlsCfg, TlsLog},
};
use bytes::Bytes;
use core::{
    future::Future,
    pin::Pin,
    task::{Context, Poll},
    time::Duration,
};
use s2n_quic::{
    client::Connect,
    connection::{Handle, StreamAcceptor},
    provider::{
        congestion_controller as cc,
        io::testing::{self as io, primary, spawn, Executor},
    },
    stream::{PeerStream, ReceiveStream, SendStream},
    Client, Server,
};
use s2n_quic_core::inet::SocketAddress;
use std::{
    collections::BTreeMap,
    sync::{Arc, Mutex},
    task::Waker,
};

// ---------------------------------------------------------------------------------------
// application-side log

#[derive(Clone, Copy, Debug, PartialEq, Eq, Hash, PartialOrd, Ord)]
pub struct StreamKey {
    pub conn: u32,
    pub id: u64,
    pub sender: Role,
}

#[derive(Clone, Debug, PartialEq, Eq)]
pub enum ErrClass {
    /// stream was reset by the peer with an application code
    StreamReset(u64),
    /// the connection ended; payload classifies how
    Conn(CloseKind, Option<u64>),
    Other,
}

#[derive(Clone, Debug, PartialEq, Eq)]
pub enum SendOutcome {
    Pending,
    Finished,
    Closed,
    ResetByUs,
    Dropped,
    Error(ErrClass, String),
}

#[derive(Clone, Debug, PartialEq, Eq)]
pub enum RecvOutcome {
    Pending,
    Eof,
    StoppedByUs,
    Error(ErrClass, String),
}

#[derive(Clone, Debug)]
pub struct SendObs {
    pub planned: u64,
    /// bytes whose send call returned Ok
    pub written: u64,
    /// size of the chunk whose send call was in progress / failed (may be partially accepted)
    pub inflight_chunk: u64,
    /// finish/close was requested (or the handle dropped) after all planned bytes were accepted
    pub fin_requested: bool,
    pub outcome: SendOutcome,
    pub t_end_ns: u64,
}

#[derive(Clone, Debug)]
pub struct RecvObs {
    pub read: u64,
    pub outcome: RecvOutcome,
    pub mismatch: Option<(u64, String)>,
    pub t_end_ns: u64,
    /// number of read calls that returned data / chunk count
    pub reads: u64,
}

#[derive(Clone, Debug, Default)]
pub struct ConnObs {
    pub connect_err: Option<(ErrClass, String)>,
    pub t_connected_ns: Option<u64>,
    pub accepted_streams: u64,
    pub opened_streams: u64,
    pub open_err: Option<(ErrClass, String)>,
    pub accept_end: Option<String>,
    pub t_closed_by_app_ns: Option<u64>,
    pub t_done_ns: Option<u64>,
    pub internal_id: Option<u64>,
}

#[derive(Clone, Debug)]
pub struct OpRec {
    pub who: String,
    pub what: &'static str,
    pub t_begin_ns: u64,
    pub t_end_ns: Option<u64>,
}

#[derive(Default, Debug)]
pub struct AppLog {
    pub sends: BTreeMap<StreamKey, SendObs>,
    pub recvs: BTreeMap<StreamKey, RecvObs>,
    pub conns: BTreeMap<(u32, Role), ConnObs>,
    /// operations in progress (keyed by task name); removed on completion
    pub pending_ops: BTreeMap<String, OpRec>,
    pub ops_completed: u64,
    /// virtual time of the last completed application operation
    pub last_progress_ns: u64,
    pub capped_tasks: Vec<String>,
    pub events: u64,
    /// (virtual time, stream, total bytes read so far) after every successful read
    pub reads_log: Vec<(u64, StreamKey, u64)>,
}

pub type SharedApp = Arc<Mutex<AppLog>>;

fn now_ns() -> u64 {
    unsafe { io::now().as_duration().as_nanos() as u64 }
}

fn class_of_conn(e: &s2n_quic::connection::Error) -> ErrClass {
    let (k, c) = classify_close(e);
    ErrClass::Conn(k, c)
}

fn class_of_stream(e: &s2n_quic::stream::Error) -> ErrClass {
    use s2n_quic::stream::Error as E;
    match e {
        E::StreamReset { error, .. } => ErrClass::StreamReset(u64::from(**error)),
        E::ConnectionError { error, .. } => class_of_conn(error),
        _ => ErrClass::Other,
    }
}

fn io_err_class(e: &std::io::Error) -> ErrClass {
    e.get_ref()
        .and_then(|inner| inner.downcast_ref::<s2n_quic::stream::Error>())
        .map(class_of_stream)
        .unwrap_or(ErrClass::Other)
}

// ---------------------------------------------------------------------------------------
// small async utilities (no PRNG, no real time)

struct YieldN(u32);
impl Future for YieldN {
    type Output = ();
    fn poll(mut self: Pin<&mut Self>, cx: &mut Context<'_>) -> Poll<()> {
        if self.0 == 0 {
            return Poll::Ready(());
        }
        self.0 -= 1;
        cx.waker().wake_by_ref();
        Poll::Pending
    }
}

#[derive(Clone)]
struct TaskCtx {
    name: String,
    tid: u64,
    yield_key: u64,
    k: Arc<Mutex<u64>>,
    app: SharedApp,
}

impl TaskCtx {
    fn new(name: String, yield_key: u64, app: SharedApp) -> Self {
        let tid = crate::kernel::hash_bytes(name.as_bytes());
        TaskCtx { name, tid, yield_key, k: Arc::new(Mutex::new(0)), app }
    }
    /// scheduling perturbation before an API call + pending-op bookkeeping
    async fn op<T>(&self, what: &'static str, f: impl Future<Output = T>) -> T {
        let k = {
            let mut g = self.k.lock().unwrap();
            *g += 1;
            *g
        };
        if self.yield_key != 0 {
            let n = (hashn(self.yield_key, &[self.tid, k]) % 4) as u32;
            YieldN(n).await;
        }
        {
            let mut a = self.app.lock().unwrap();
            a.pending_ops.insert(
                self.name.clone(),
                OpRec { who: self.name.clone(), what, t_begin_ns: now_ns(), t_end_ns: None },
            );
        }
        let r = f.await;
        {
            let mut a = self.app.lock().unwrap();
            a.pending_ops.remove(&self.name);
            a.ops_completed += 1;
            a.last_progress_ns = now_ns();
        }
        r
    }
}

async fn sleep_us(us: u64) {
    if us > 0 {
        io::time::delay(Duration::from_micros(us)).await;
    }
}

/// count-down latch shared by both sides of a connection (harness-level coordination)
#[derive(Default)]
struct LatchInner {
    remaining: u64,
    wakers: Vec<Waker>,
}
#[derive(Clone, Default)]
struct Latch(Arc<Mutex<LatchInner>>);
impl Latch {
    fn add(&self, n: u64) {
        self.0.lock().unwrap().remaining += n;
    }
    fn done(&self) {
        let mut g = self.0.lock().unwrap();
        g.remaining = g.remaining.saturating_sub(1);
        if g.remaining == 0 {
            for w in g.wakers.drain(..) {
                w.wake();
            }
        }
    }
    fn wait(&self) -> LatchWait {
        LatchWait(self.clone())
    }
}
struct LatchWait(Latch);
impl Future for LatchWait {
    type Output = ();
    fn poll(self: Pin<&mut Self>, cx: &mut Context<'_>) -> Poll<()> {
        let mut g = self.0 .0.lock().unwrap();
        if g.remaining == 0 {
            Poll::Ready(())
        } else {
            g.wakers.push(cx.waker().clone());
            Poll::Pending
        }
    }
}

/// run `f` until done or until the virtual-time cap; a capped task is recorded
fn capped<F>(name: String, cap_ns: u64, app: SharedApp, f: F) -> impl Future<Output = ()> + Send
where
    F: Future<Output = ()> + Send + 'static,
{
    async move {
        let now = now_ns();
        let mut timer = Box::pin(io::time::delay(Duration::from_nanos(cap_ns.saturating_sub(now))));
        let mut f = Box::pin(f);
        let hit = core::future::poll_fn(|cx| {
            if f.as_mut().poll(cx).is_ready() {
                return Poll::Ready(false);
            }
            if timer.as_mut().poll(cx).is_ready() {
                return Poll::Ready(true);
            }
            Poll::Pending
        })
        .await;
        // timers also fire when the executor shuts down: only a real cap expiry counts
        if hit && now_ns() + 1_000_000 >= cap_ns {
            app.lock().unwrap().capped_tasks.push(name);
        }
    }
}

// ---------------------------------------------------------------------------------------
// stream tasks

fn stream_id_for(opener: Role, bidi: bool, index: u64) -> u64 {
    // RFC 9000 2.1
    let low = match (opener, bidi) {
        (Role::Client, true) => 0,
        (Role::Server, true) => 1,
        (Role::Client, false) => 2,
        (Role::Server, false) => 3,
    };
    index * 4 + low
}

async fn send_task(
    ctx: TaskCtx,
    mut s: SendStream,
    script: SendScript,
    key: StreamKey,
    data_key: u64,
    app: SharedApp,
) {
    app.lock().unwrap().sends.insert(
        key,
        SendObs {
            planned: script.total,
            written: 0,
            inflight_chunk: 0,
            fin_requested: false,
            outcome: SendOutcome::Pending,
            t_end_ns: 0,
        },
    );
    let mut written = 0u64;
    let mut idx = 0u32;
    let mut outcome = None;
    let dir = key.sender.idx();
    let reset_at = match script.end {
        SendEnd::Reset { at, .. } => Some(at.min(script.total)),
        _ => None,
    };
    let limit = reset_at.unwrap_or(script.total);
    'outer: while written < limit {
        for (pi, us) in &script.pauses {
            if *pi == idx {
                sleep_us(*us).await;
            }
        }
        let c = script.chunks[(idx as usize) % script.chunks.len()].max(1) as u64;
        let n = c.min(limit - written) as usize;
        let mut buf = vec![0u8; n];
        payload_fill(data_key, key.conn as u64, key.id, dir, written, &mut buf);
        app.lock().unwrap().sends.get_mut(&key).unwrap().inflight_chunk = n as u64;
        let res: Result<(), s2n_quic::stream::Error> = match script.mode {
            SendMode::Send => ctx.op("send", s.send(Bytes::from(buf))).await,
            SendMode::Vectored(k) => {
                let k = (k.max(1) as usize).min(n.max(1));
                let per = n.div_ceil(k);
                let mut chunks: Vec<Bytes> =
                    buf.chunks(per.max(1)).map(Bytes::copy_from_slice).collect();
                ctx.op("send_vectored", s.send_vectored(&mut chunks)).await
            }
            SendMode::SendData => {
                let r = ctx
                    .op("poll_send_ready", core::future::poll_fn(|cx| s.poll_send_ready(cx)))
                    .await;
                match r {
                    Ok(_) => s.send_data(Bytes::from(buf)),
                    Err(e) => Err(e),
                }
            }
            SendMode::AsyncWrite => {
                use futures::io::AsyncWriteExt;
                match ctx.op("write_all", s.write_all(&buf)).await {
                    Ok(()) => Ok(()),
                    Err(e) => {
                        let cls = io_err_class(&e);
                        outcome = Some(SendOutcome::Error(cls, format!("{e}")));
                        break 'outer;
                    }
                }
            }
        };
        match res {
            Ok(()) => {
                written += n as u64;
                let mut a = app.lock().unwrap();
                let o = a.sends.get_mut(&key).unwrap();
                o.written = written;
                o.inflight_chunk = 0;
            }
            Err(e) => {
                outcome = Some(SendOutcome::Error(class_of_stream(&e), format!("{e:?}")));
                break;
            }
        }
        idx += 1;
        if script.flush_every > 0 && idx % script.flush_every == 0 {
            if let Err(e) = ctx.op("flush", s.flush()).await {
                outcome = Some(SendOutcome::Error(class_of_stream(&e), format!("{e:?}")));
                break;
            }
        }
    }
    if outcome.is_none() {
        if !matches!(script.end, SendEnd::Reset { .. }) {
            app.lock().unwrap().sends.get_mut(&key).unwrap().fin_requested = true;
        }
        outcome = Some(match &script.end {
            SendEnd::Finish => match s.finish() {
                Ok(()) => SendOutcome::Finished,
                Err(e) => SendOutcome::Error(class_of_stream(&e), format!("{e:?}")),
            },
            SendEnd::Close => match ctx.op("close", s.close()).await {
                Ok(()) => SendOutcome::Closed,
                Err(e) => SendOutcome::Error(class_of_stream(&e), format!("{e:?}")),
            },
            SendEnd::Reset { code, .. } => match s.reset((*code).into()) {
                Ok(()) => SendOutcome::ResetByUs,
                Err(e) => SendOutcome::Error(class_of_stream(&e), format!("{e:?}")),
            },
            SendEnd::DropHandle => SendOutcome::Dropped,
        });
    }
    {
        let mut a = app.lock().unwrap();
        let o = a.sends.get_mut(&key).unwrap();
        o.outcome = outcome.unwrap();
        o.t_end_ns = now_ns();
    }
    drop(s);
}

async fn recv_task(
    ctx: TaskCtx,
    mut r: ReceiveStream,
    script: RecvScript,
    key: StreamKey,
    data_key: u64,
    app: SharedApp,
) {
    app.lock().unwrap().recvs.insert(
        key,
        RecvObs { read: 0, outcome: RecvOutcome::Pending, mismatch: None, t_end_ns: 0, reads: 0 },
    );
    sleep_us(script.start_delay_us).await;
    let dir = key.sender.idx();
    let mut read = 0u64;
    let mut idx = 0u32;
    let outcome;
    let check = |read: u64, data: &[u8], app: &SharedApp| {
        // consumption log (time-resolved, for the advertised-credit bound)
        if !data.is_empty() {
            let t = now_ns();
            app.lock().unwrap().reads_log.push((t, key, read + data.len() as u64));
        }
        if let Some(i) = payload_check(data_key, key.conn as u64, key.id, dir, read, data) {
            let mut a = app.lock().unwrap();
            let o = a.recvs.get_mut(&key).unwrap();
            if o.mismatch.is_none() {
                o.mismatch = Some((
                    read + i as u64,
                    format!("got {:#04x} at chunk offset {} (chunk len {})", data[i], i, data.len()),
                ));
            }
        }
    };
    let mut drop_after_next_read = false;
    loop {
        for (pi, us) in &script.pauses {
            if *pi == idx {
                sleep_us(*us).await;
            }
        }
        idx += 1;
        if let Some((at, code)) = script.stop_at {
            if read >= at {
                let _ = r.stop_sending(code.into());
                outcome = RecvOutcome::StoppedByUs;
                break;
            }
        }
        if let Some((at, wait_us)) = script.drop_at {
            if drop_after_next_read {
                outcome = RecvOutcome::StoppedByUs;
                break;
            }
            if read >= at {
                // wait for the rest to arrive, read once more (so that the handle has seen the
                // final size), then abandon the stream with the remainder unread
                sleep_us(wait_us).await;
                drop_after_next_read = true;
            }
        }
        match script.mode {
            RecvMode::Receive => match ctx.op("receive", r.receive()).await {
                Ok(Some(chunk)) => {
                    check(read, &chunk, &app);
                    read += chunk.len() as u64;
                }
                Ok(None) => {
                    outcome = RecvOutcome::Eof;
                    break;
                }
                Err(e) => {
                    outcome = RecvOutcome::Error(class_of_stream(&e), format!("{e:?}"));
                    break;
                }
            },
            RecvMode::Vectored(k) => {
                let mut chunks: Vec<Bytes> = vec![Bytes::new(); k.max(1) as usize];
                match ctx.op("receive_vectored", r.receive_vectored(&mut chunks)).await {
                    Ok((count, is_open)) => {
                        for c in &chunks[..count] {
                            check(read, c, &app);
                            read += c.len() as u64;
                        }
                        if !is_open {
                            outcome = RecvOutcome::Eof;
                            break;
                        }
                    }
                    Err(e) => {
                        outcome = RecvOutcome::Error(class_of_stream(&e), format!("{e:?}"));
                        break;
                    }
                }
            }
            RecvMode::AsyncRead(n) => {
                use futures::io::AsyncReadExt;
                let mut buf = vec![0u8; n.max(1) as usize];
                match ctx.op("read", r.read(&mut buf)).await {
                    Ok(0) => {
                        outcome = RecvOutcome::Eof;
                        break;
                    }
                    Ok(len) if len > buf.len() => {
                        // AsyncRead contract broken: more bytes reported than the buffer holds
                        // (the surplus is lost to the application)
                        check(read, &buf[..], &app);
                        {
                            let mut a = app.lock().unwrap();
                            let o = a.recvs.get_mut(&key).unwrap();
                            if o.mismatch.is_none() {
                                o.mismatch = Some((read + buf.len() as u64, format!("read() into a {} byte buffer reported {len} bytes: {} bytes were dropped", buf.len(), len - buf.len())));
                            }
                        }
                        read += len as u64;
                    }
                    Ok(len) => {
                        check(read, &buf[..len], &app);
                        read += len as u64;
                    }
                    Err(e) => {
                        outcome = RecvOutcome::Error(io_err_class(&e), format!("{e}"));
                        break;
                    }
                }
            }
        }
        let mut a = app.lock().unwrap();
        let o = a.recvs.get_mut(&key).unwrap();
        o.read = read;
        o.reads += 1;
    }
    let mut a = app.lock().unwrap();
    let o = a.recvs.get_mut(&key).unwrap();
    o.read = read;
    o.outcome = outcome;
    o.t_end_ns = now_ns();
}

// ---------------------------------------------------------------------------------------
// connection driver (same code for both roles)

#[derive(Clone)]
struct ConnEnv {
    conn: u32,
    role: Role,
    script: Arc<ConnScript>,
    data_key: u64,
    yield_key: u64,
    cap_ns: u64,
    app: SharedApp,
    /// units of this side's own stream tasks
    latch: Latch,
    /// the other side's own latch (harness-level coordination only)
    peer_latch: Latch,
    /// released when this side observes the end of the connection
    closed: Latch,
    /// released by the connection driver to make the acceptor task drop its handle
    stop: Latch,
}

impl ConnEnv {
    fn ctx(&self, what: &str) -> TaskCtx {
        TaskCtx::new(
            format!("c{}/{:?}/{}", self.conn, self.role, what),
            self.yield_key,
            self.app.clone(),
        )
    }
}

fn spawn_stream_tasks(
    env: &ConnEnv,
    plan: &StreamPlan,
    id: u64,
    send: Option<SendStream>,
    recv: Option<ReceiveStream>,
) {
    let i_am_opener = plan.opener == env.role;
    if let Some(s) = send {
        let script = if i_am_opener { Some(plan.fwd.clone()) } else { plan.rev.clone() };
        if let Some(script) = script {
            let key = StreamKey { conn: env.conn, id, sender: env.role };
            let ctx = env.ctx(&format!("s{id}/send"));
            let latch = env.latch.clone();
            let app = env.app.clone();
            let dk = env.data_key;
            let name = ctx.name.clone();
            let app2 = app.clone();
            primary::spawn(capped(name, env.cap_ns, app2, async move {
                send_task(ctx, s, script, key, dk, app).await;
                latch.done();
            }));
        } else {
            env.latch.done();
        }
    }
    if let Some(r) = recv {
        let script = if i_am_opener { plan.rev_recv.clone() } else { Some(plan.fwd_recv.clone()) };
        if let Some(script) = script {
            let key = StreamKey { conn: env.conn, id, sender: env.role.peer() };
            let ctx = env.ctx(&format!("s{id}/recv"));
            let latch = env.latch.clone();
            let app = env.app.clone();
            let dk = env.data_key;
            let name = ctx.name.clone();
            let app2 = app.clone();
            primary::spawn(capped(name, env.cap_ns, app2, async move {
                recv_task(ctx, r, script, key, dk, app).await;
                latch.done();
            }));
        } else {
            env.latch.done();
        }
    }
}

/// latch units one side owes for a stream (its send and/or recv task)
fn side_units(p: &StreamPlan) -> u64 {
    if p.bidi {
        2
    } else {
        1
    }
}

async fn opener_task(env: ConnEnv, handle: Handle) {
    let mut handle = handle;
    let ctx = env.ctx("opener");
    let mut n_bidi = 0u64;
    let mut n_uni = 0u64;
    let mine: Vec<&StreamPlan> = env.script.streams.iter().filter(|p| p.opener == env.role).collect();
    let mut failed_at = None;
    for (k, plan) in mine.iter().enumerate() {
        if failed_at.is_some() {
            break;
        }
        sleep_us(plan.open_delay_us).await;
        if plan.bidi {
            match ctx.op("open_bidi", handle.open_bidirectional_stream()).await {
                Ok(s) => {
                    let id = s.id();
                    let expect = stream_id_for(env.role, true, n_bidi);
                    n_bidi += 1;
                    debug_assert_eq!(id, expect);
                    env.app.lock().unwrap().conns.entry((env.conn, env.role)).or_default().opened_streams += 1;
                    let (r, s) = s.split();
                    spawn_stream_tasks(&env, plan, id, Some(s), Some(r));
                }
                Err(e) => {
                    env.app.lock().unwrap().conns.entry((env.conn, env.role)).or_default().open_err =
                        Some((class_of_conn(&e), format!("{e:?}")));
                    failed_at = Some(k);
                }
            }
        } else {
            match ctx.op("open_uni", handle.open_send_stream()).await {
                Ok(s) => {
                    let id = s.id();
                    let expect = stream_id_for(env.role, false, n_uni);
                    n_uni += 1;
                    debug_assert_eq!(id, expect);
                    env.app.lock().unwrap().conns.entry((env.conn, env.role)).or_default().opened_streams += 1;
                    spawn_stream_tasks(&env, plan, id, Some(s), None);
                }
                Err(e) => {
                    env.app.lock().unwrap().conns.entry((env.conn, env.role)).or_default().open_err =
                        Some((class_of_conn(&e), format!("{e:?}")));
                    failed_at = Some(k);
                }
            }
        }
    }
    if let Some(k) = failed_at {
        // streams that will never exist: release this side's units
        for p in &mine[k..] {
            for _ in 0..side_units(p) {
                env.latch.done();
            }
        }
    }
}

async fn acceptor_task(env: ConnEnv, mut acceptor: StreamAcceptor) {
    let ctx = env.ctx("acceptor");
    let peer = env.role.peer();
    // plans of streams the peer opens, by stream id
    let mut by_id: BTreeMap<u64, StreamPlan> = BTreeMap::new();
    let (mut b, mut u) = (0u64, 0u64);
    for p in env.script.streams.iter().filter(|p| p.opener == peer) {
        let id = if p.bidi {
            b += 1;
            stream_id_for(peer, true, b - 1)
        } else {
            u += 1;
            stream_id_for(peer, false, u - 1)
        };
        by_id.insert(id, p.clone());
    }
    let mut accepted: std::collections::BTreeSet<u64> = Default::default();
    loop {
        let next = {
            let mut acc = Box::pin(ctx.op("accept", acceptor.accept()));
            let mut stop = Box::pin(env.stop.wait());
            core::future::poll_fn(|cx| {
                if let Poll::Ready(r) = acc.as_mut().poll(cx) {
                    return Poll::Ready(Some(r));
                }
                if stop.as_mut().poll(cx).is_ready() {
                    return Poll::Ready(None);
                }
                Poll::Pending
            })
            .await
        };
        let Some(next) = next else {
            env.app.lock().unwrap().pending_ops.remove(&ctx.name);
            break;
        };
        match next {
            Ok(Some(stream)) => {
                env.app.lock().unwrap().conns.entry((env.conn, env.role)).or_default().accepted_streams += 1;
                let id = stream.id();
                accepted.insert(id);
                let Some(plan) = by_id.get(&id).cloned() else {
                    env.app.lock().unwrap().conns.entry((env.conn, env.role)).or_default().accept_end =
                        Some(format!("unexpected stream id {id}"));
                    continue;
                };
                match stream {
                    PeerStream::Bidirectional(s) => {
                        let (r, s) = s.split();
                        spawn_stream_tasks(&env, &plan, id, Some(s), Some(r));
                    }
                    PeerStream::Receive(r) => spawn_stream_tasks(&env, &plan, id, None, Some(r)),
                }
            }
            Ok(None) => {
                env.app.lock().unwrap().conns.entry((env.conn, env.role)).or_default().accept_end =
                    Some("closed".into());
                break;
            }
            Err(e) => {
                env.app.lock().unwrap().conns.entry((env.conn, env.role)).or_default().accept_end =
                    Some(format!("{e:?}"));
                break;
            }
        }
    }
    // streams the peer never opened (from this side's point of view): release our units
    for (id, p) in &by_id {
        if !accepted.contains(id) {
            for _ in 0..side_units(p) {
                env.latch.done();
            }
        }
    }
    env.closed.done();
}

/// drives one side of one connection once it is established
async fn drive_connection(env: ConnEnv, handle: Handle, acceptor: StreamAcceptor) {
    {
        let mut a = env.app.lock().unwrap();
        let c = a.conns.entry((env.conn, env.role)).or_default();
        c.t_connected_ns = Some(now_ns());
        c.internal_id = Some(handle.id());
    }
    let name = env.ctx("opener").name;
    primary::spawn(capped(name, env.cap_ns, env.app.clone(), opener_task(env.clone(), handle.clone())));
    let name = env.ctx("acceptor").name;
    // the acceptor is not primary: if the peer never opens its streams the run still ends
    spawn(capped(name, env.cap_ns, env.app.clone(), acceptor_task(env.clone(), acceptor)));

    // wait until either future resolves
    async fn either(a: LatchWait, b: LatchWait) {
        let mut a = Box::pin(a);
        let mut b = Box::pin(b);
        core::future::poll_fn(|cx| {
            if a.as_mut().poll(cx).is_ready() || b.as_mut().poll(cx).is_ready() {
                Poll::Ready(())
            } else {
                Poll::Pending
            }
        })
        .await
    }
    match env.script.close.clone() {
        CloseSpec::AfterAll { by, code } => {
            env.latch.wait().await;
            if by == env.role {
                // close once the peer's tasks are done too (or the connection ended anyway)
                either(env.peer_latch.wait(), env.closed.wait()).await;
                env.app.lock().unwrap().conns.entry((env.conn, env.role)).or_default().t_closed_by_app_ns =
                    Some(now_ns());
                handle.close(code.into());
            } else {
                // wait until the peer's close arrives (or the idle timer ends the connection)
                env.closed.wait().await;
            }
        }
        CloseSpec::At { us, by, code } => {
            if by == env.role {
                let now = now_ns() / 1000;
                sleep_us(us.saturating_sub(now)).await;
                env.app.lock().unwrap().conns.entry((env.conn, env.role)).or_default().t_closed_by_app_ns =
                    Some(now_ns());
                handle.close(code.into());
            }
            env.latch.wait().await;
        }
        CloseSpec::DropHandles => {
            env.latch.wait().await;
            either(env.peer_latch.wait(), env.closed.wait()).await;
            // the acceptor is an application handle too: make its task drop it
            env.stop.done();
        }
    }
    env.app.lock().unwrap().conns.entry((env.conn, env.role)).or_default().t_done_ns = Some(now_ns());
    drop(handle);
}

// ---------------------------------------------------------------------------------------
// endpoint construction

fn limits_of(l: &LimitsCfg) -> s2n_quic::provider::limits::Limits {
    let mut x = s2n_quic::provider::limits::Limits::new();
    macro_rules! set {
        ($cond:expr, $m:ident, $v:expr) => {
            if $cond {
                x = x.$m($v).expect(stringify!($m));
            }
        };
    }
    set!(l.data_window > 0, with_data_window, l.data_window);
    set!(l.bidi_local_window > 0, with_bidirectional_local_data_window, l.bidi_local_window);
    set!(l.bidi_remote_window > 0, with_bidirectional_remote_data_window, l.bidi_remote_window);
    set!(l.uni_window > 0, with_unidirectional_data_window, l.uni_window);
    set!(true, with_max_open_local_bidirectional_streams, l.max_local_bidi);
    set!(true, with_max_open_remote_bidirectional_streams, l.max_remote_bidi);
    set!(true, with_max_open_local_unidirectional_streams, l.max_local_uni);
    set!(true, with_max_open_remote_unidirectional_streams, l.max_remote_uni);
    set!(true, with_max_idle_timeout, Duration::from_millis(l.idle_timeout_ms));
    set!(true, with_max_ack_delay, Duration::from_millis(l.max_ack_delay_ms));
    set!(true, with_ack_elicitation_interval, l.ack_elicitation_interval);
    set!(true, with_max_ack_ranges, l.ack_ranges_limit);
    set!(true, with_max_active_connection_ids, l.max_active_cids);
    set!(l.max_send_buffer > 0, with_max_send_buffer_size, l.max_send_buffer);
    set!(true, with_initial_round_trip_time, Duration::from_millis(l.initial_rtt_ms.max(1)));
    set!(true, with_max_handshake_duration, Duration::from_millis(l.handshake_ms));
    set!(true, with_active_connection_migration, l.migration);
    set!(true, with_stream_batch_size, l.stream_batch);
    set!(l.packet_buffer > 0, with_packet_buffer_size, l.packet_buffer);
    x
}

fn io_of(handle: &io::Handle, e: &EndpointCfg, sock: Arc<Mutex<Option<io::Socket>>>) -> io::Io {
    let mut b = handle
        .builder()
        .with_max_mtu(e.max_mtu)
        .with_base_mtu(e.base_mtu)
        .with_initial_mtu(e.initial_mtu);
    if let Some(n) = e.tx_ring {
        b = b.with_internal_send_buffer_size(n as usize).unwrap();
    }
    if let Some(n) = e.rx_ring {
        b = b.with_internal_recv_buffer_size(n as usize).unwrap();
    }
    b = b.on_socket(move |s| {
        *sock.lock().unwrap() = Some(s);
    });
    b.build().unwrap()
}

pub struct RunOutput {
    pub plan: Plan,
    pub app: AppLog,
    pub obs: Obs,
    pub net: NetState,
    pub tls: TlsLog,
    pub end_ns: u64,
    pub panic: Option<String>,
    pub server_addr: Option<SocketAddress>,
    pub client_addrs: Vec<SocketAddress>,
}

macro_rules! build_endpoint {
    ($builder:expr, $e:expr, $ep:expr, $role:expr, $plan:expr, $handle:expr, $obs:expr, $tls:expr, $sock:expr, $reset:literal) => {{
        let e: &EndpointCfg = $e;
        let plan: &Plan = $plan;
        let tls_cfg = TlsCfg {
            role: $role,
            ep: $ep,
            seed: hashn(plan.rand_key, &[0x715]),
            cipher: plan.cfg.cipher,
            cert_size: plan.cfg.cert_size,
            tp_rule: e.tp_rule.clone(),
            key_update_t: e.key_update_t,
            integrity_limit: e.integrity_limit,
        };
        let b = $builder
            .with_io(io_of($handle, e, $sock))
            .unwrap()
            .with_tls(simtls::Provider(simtls::Endpoint::new(tls_cfg, $tls.clone())))
            .unwrap()
            .with_event(EventTap { ep: $ep, obs: $obs.clone() })
            .unwrap()
            .with_random(SimRandom::new(hashn(plan.rand_key, &[$ep as u64])))
            .unwrap()
            .with_packet_interceptor(WireProvider(WireMonitor::new(
                $ep,
                $obs.clone(),
                e.flatten_tx,
                e.byz.clone(),
                $role == Role::Client,
                $tls.clone(),
            )))
            .unwrap()
            .with_limits(limits_of(&e.limits))
            .unwrap()
            .with_connection_id(SimCidFormat {
                len: e.cid_len as usize,
                lifetime: e.cid_lifetime_ms.map(Duration::from_millis),
                rotate: e.rotate_handshake_cid,
                key: hashn(plan.rand_key, &[0xc1d, $ep as u64]),
                counter: 0,
            })
            .unwrap()
            .with_stateless_reset_token(SimTokenGen::<$reset> { key: hashn(plan.rand_key, &[0x7e5e7, $ep as u64]) })
            .unwrap();
        b
    }};
}

pub fn reset_token_key(plan: &Plan, ep: u32) -> u64 {
    hashn(plan.rand_key, &[0x7e5e7, ep as u64])
}

fn start_server(
    plan: &Plan,
    handle: &io::Handle,
    obs: &SharedObs,
    tls: &SharedTlsLog,
    sock: Arc<Mutex<Option<io::Socket>>>,
) -> Server {
    let e = &plan.cfg.server;
    let b = build_endpoint!(Server::builder(), e, 0u32, Role::Server, plan, handle, obs, tls, sock, true);
    let b = b.with_endpoint_limits(RetryLimiter { retry: e.retry }).unwrap();
    let b = b.with_address_token(SimAddressToken::new(hashn(plan.rand_key, &[0xadd7, 0]))).unwrap();
    if e.cc == 1 {
        b.with_congestion_controller(cc::Bbr::default()).unwrap().start().unwrap()
    } else {
        b.with_congestion_controller(cc::Cubic::default()).unwrap().start().unwrap()
    }
}

fn start_client(
    plan: &Plan,
    idx: u32,
    handle: &io::Handle,
    obs: &SharedObs,
    tls: &SharedTlsLog,
    sock: Arc<Mutex<Option<io::Socket>>>,
) -> Client {
    let e = &plan.cfg.client;
    let b = build_endpoint!(Client::builder(), e, 1 + idx, Role::Client, plan, handle, obs, tls, sock, false);
    if e.cc == 1 {
        b.with_congestion_controller(cc::Bbr::default()).unwrap().start().unwrap()
    } else {
        b.with_congestion_controller(cc::Cubic::default()).unwrap().start().unwrap()
    }
}

thread_local! {
    pub static CURRENT_SEED: std::cell::Cell<u64> = const { std::cell::Cell::new(0) };
    static LAST_PANIC: std::cell::RefCell<Option<String>> = const { std::cell::RefCell::new(None) };
}

pub fn install_panic_hook() {
    std::panic::set_hook(Box::new(|info| {
        let bt = std::backtrace::Backtrace::force_capture();
        let msg = format!("{info}\n{bt}");
        if std::env::var("VERIF_PANIC_PRINT").is_ok() {
            eprintln!("PANIC (seed {}): {}", CURRENT_SEED.with(|s| s.get()), msg);
        }
        LAST_PANIC.with(|p| *p.borrow_mut() = Some(msg));
    }));
}

/// Execute a plan. Never panics: panics inside the simulation are caught and reported.
pub fn execute(plan: &Plan, keep_net_bytes: bool) -> RunOutput {
    let app: SharedApp = Default::default();
    let obs: SharedObs = Default::default();
    let tls: SharedTlsLog = Default::default();
    let net: SharedNet = Default::default();
    net.lock().unwrap().keep_bytes = keep_net_bytes;
    net.lock().unwrap().keep_old_mappings = plan.cfg.nat_keeps_old_mapping;
    let addrs: Arc<Mutex<(Option<SocketAddress>, Vec<SocketAddress>)>> = Default::default();
    let end_ns = Arc::new(Mutex::new(0u64));

    LAST_PANIC.with(|p| *p.borrow_mut() = None);
    CURRENT_SEED.with(|s| s.set(plan.seed));
    let result = {
        let (app, obs, tls, net, addrs, end_ns) =
            (app.clone(), obs.clone(), tls.clone(), net.clone(), addrs.clone(), end_ns.clone());
        let plan = plan.clone();
        std::panic::catch_unwind(std::panic::AssertUnwindSafe(move || {
            run_inner(&plan, app, obs, tls, net, addrs, end_ns)
        }))
    };
    let panic = match result {
        Ok(()) => None,
        Err(e) => {
            let short = if let Some(s) = e.downcast_ref::<String>() {
                s.clone()
            } else if let Some(s) = e.downcast_ref::<&str>() {
                s.to_string()
            } else {
                "panic".to_string()
            };
            let full = LAST_PANIC.with(|p| p.borrow_mut().take());
            Some(full.unwrap_or(short))
        }
    };

    fn take<T: Default>(m: &Mutex<T>) -> T {
        std::mem::take(&mut *m.lock().unwrap())
    }
    let a = addrs.lock().unwrap().clone();
    let end = *end_ns.lock().unwrap();
    RunOutput {
        plan: plan.clone(),
        app: take(&app),
        obs: take(&obs),
        net: take(&net),
        tls: take(&tls),
        end_ns: end,
        panic,
        server_addr: a.0,
        client_addrs: a.1,
    }
}

fn run_inner(
    plan: &Plan,
    app: SharedApp,
    obs: SharedObs,
    tls: SharedTlsLog,
    net: SharedNet,
    addrs: Arc<Mutex<(Option<SocketAddress>, Vec<SocketAddress>)>>,
    end_ns: Arc<Mutex<u64>>,
) {
    let simnet = SimNet::new(plan, net.clone());
    // ManuallyDrop: when the simulation panics, dropping the executor would poll the poisoned
    // tasks again (panic inside a destructor = abort); it is leaked in that case instead
    let mut executor = std::mem::ManuallyDrop::new(Executor::new(simnet, plan.seed));
    let handle = executor.handle().clone();
    let cap_ns = plan.time_cap_us * 1000;

    executor.enter(|| {
        let server_sock: Arc<Mutex<Option<io::Socket>>> = Default::default();
        let mut server = start_server(plan, &handle, &obs, &tls, server_sock.clone());
        let server_addr: SocketAddress = server.local_addr().unwrap().into();
        net.lock().unwrap().hosts.push(Host { addr: server_addr, role: Role::Server, idx: 0 });
        addrs.lock().unwrap().0 = Some(server_addr);

        // latches per connection and side: (client side, server side)
        let latches: Vec<(Latch, Latch)> = plan
            .conns
            .iter()
            .map(|c| {
                let a = Latch::default();
                let b = Latch::default();
                a.add(c.streams.iter().map(side_units).sum());
                b.add(c.streams.iter().map(side_units).sum());
                (a, b)
            })
            .collect();

        // clients
        let mut client_addr_to_idx: BTreeMap<SocketAddress, u32> = BTreeMap::new();
        let mut clients = vec![];
        for (i, _c) in plan.conns.iter().enumerate() {
            let sock: Arc<Mutex<Option<io::Socket>>> = Default::default();
            let client = start_client(plan, i as u32, &handle, &obs, &tls, sock.clone());
            let addr: SocketAddress = client.local_addr().unwrap().into();
            net.lock().unwrap().hosts.push(Host { addr, role: Role::Client, idx: i as u32 });
            addrs.lock().unwrap().1.push(addr);
            client_addr_to_idx.insert(addr, i as u32);
            clients.push((client, sock, addr));
        }

        // server accept loop (not primary)
        {
            let plan = plan.clone();
            let app = app.clone();
            let latches = latches.clone();
            let map = client_addr_to_idx.clone();
            spawn(async move {
                while let Some(connection) = server.accept().await {
                    let remote: SocketAddress = match connection.remote_addr() {
                        Ok(a) => a.into(),
                        Err(_) => continue,
                    };
                    let Some(&idx) = map.get(&remote) else { continue };
                    let env = ConnEnv {
                        conn: idx,
                        role: Role::Server,
                        script: Arc::new(plan.conns[idx as usize].clone()),
                        data_key: plan.data_key,
                        yield_key: plan.yield_key,
                        cap_ns,
                        app: app.clone(),
                        latch: latches[idx as usize].1.clone(),
                        peer_latch: latches[idx as usize].0.clone(),
                        closed: { let l = Latch::default(); l.add(1); l },
                        stop: { let l = Latch::default(); l.add(1); l },
                    };
                    let (h, a) = connection.split();
                    let name = env.ctx("conn").name;
                    primary::spawn(capped(name, cap_ns, app.clone(), drive_connection(env, h, a)));
                }
            });
        }

        // client tasks
        for (i, (client, sock, addr)) in clients.into_iter().enumerate() {
            let script = Arc::new(plan.conns[i].clone());
            let env = ConnEnv {
                conn: i as u32,
                role: Role::Client,
                script: script.clone(),
                data_key: plan.data_key,
                yield_key: plan.yield_key,
                cap_ns,
                app: app.clone(),
                latch: latches[i].0.clone(),
                peer_latch: latches[i].1.clone(),
                closed: { let l = Latch::default(); l.add(1); l },
                        stop: { let l = Latch::default(); l.add(1); l },
            };
            let app2 = app.clone();
            let net2 = net.clone();
            let name = env.ctx("conn").name;
            if let Some(d) = script.path_delays_us.first() {
                net2.lock().unwrap().extra_delay_us.insert(i as u32, *d);
            }
            // NAT rebinding events
            for (k, at_us) in script.rebinds.iter().enumerate() {
                let new_delay = script.path_delays_us.get(k + 1).copied();
                let sock = sock.clone();
                let net3 = net2.clone();
                let at_us = *at_us;
                let idx = i as u32;
                let orig = addr;
                spawn(async move {
                    sleep_us(at_us).await;
                    let s = sock.lock().unwrap().clone();
                    if let Some(s) = s {
                        let mut new: std::net::SocketAddr = orig.into();
                        new.set_port(new.port().wrapping_add(1000 + 16 * k as u16 + idx as u16));
                        s.rebind(new);
                        let cur: SocketAddress = s.local_addr().unwrap().into();
                        let mut n = net3.lock().unwrap();
                        let mut olds = vec![];
                        for h in n.hosts.iter_mut() {
                            if h.role == Role::Client && h.idx == idx {
                                olds.push((h.addr, idx));
                                h.addr = cur;
                            }
                        }
                        n.aliases.extend(olds);
                        if let Some(d) = new_delay {
                            n.extra_delay_us.insert(idx, d);
                        }
                        n.fire("rebind");
                    }
                });
            }
            primary::spawn(capped(name, cap_ns, app2.clone(), async move {
                sleep_us(script.start_us).await;
                let ctx = env.ctx("connect");
                let connect = Connect::new(std::net::SocketAddr::from(server_addr))
                    .with_server_name("localhost");
                match ctx.op("connect", client.connect(connect)).await {
                    Ok(mut connection) => {
                        if script.keep_alive {
                            let _ = connection.keep_alive(true);
                        }
                        let (h, a) = connection.split();
                        drive_connection(env, h, a).await;
                    }
                    Err(e) => {
                        let mut a = app2.lock().unwrap();
                        let c = a.conns.entry((env.conn, Role::Client)).or_default();
                        c.connect_err = Some((class_of_conn(&e), format!("{e:?}")));
                        c.t_done_ns = Some(now_ns());
                        drop(a);
                        // no stream of this connection will ever run on the client side
                        for p in &script.streams {
                            for _ in 0..side_units(p) {
                                env.latch.done();
                            }
                        }
                    }
                }
                // keep the endpoint alive until the connection is finished
                drop(client);
            }));
        }

        // attacker host
        if !plan.attacker.is_empty() {
            let sock = handle.builder().build().unwrap().socket();
            let a: SocketAddress = sock.local_addr().unwrap().into();
            net.lock().unwrap().hosts.push(Host { addr: a, role: Role::Client, idx: u32::MAX });
            let list = plan.attacker.clone();
            let c0 = addrs.lock().unwrap().1.first().copied();
            let rk = plan.rand_key;
            spawn(async move {
                let mut list = list;
                list.sort_by_key(|d| d.at_us);
                for d in list {
                    let now = now_ns() / 1000;
                    sleep_us(d.at_us.saturating_sub(now)).await;
                    let bytes = crate::attack::build(&d, rk);
                    let dst = if d.to_server { Some(server_addr) } else { c0 };
                    if let Some(dst) = dst {
                        let _ = sock.send_to(dst.into(), Default::default(), bytes);
                    }
                }
                // keep the socket registered
                core::future::pending::<()>().await;
            });
        }
    });

    executor.run();
    *end_ns.lock().unwrap() = executor.enter(|| now_ns());
    unsafe { std::mem::ManuallyDrop::drop(&mut executor) };
}
