//! C19, concurrent half: 2-3 threads on one `receiver::State` (overlapping key ids) and on one
//! `sender::State` (`next_key_id` against `update_for_stale_key`).  std Mutex/atomics, Miri
//! owns the schedule.  Every operation is stamped (invoke/return) with the global sequence
//! number; the history is printed (`H|...`) and checked for linearizability against the
//! sequential set+window / counter model by the driver (native code, `lin.rs`).  At-most-once
//! acceptance / issuance over the union of all threads is checked right here.
//!
//! `sender::State` lives in a private module of s2n-quic-dc and `update_for_stale_key` is
//! `pub(super)`, so the *source file* `path/secret/sender.rs` is compiled verbatim into the
//! harness (`miri-dc/src/secret.rs`, `#[path]`) next to three stub items it names
//! (`schedule::Secret`, `map::SizeOf`, `secret_control::TAG_LEN`).

use super::{fail, join, lin, rt, Outcome, Scenario};
use s2n_quic_core::varint::VarInt;
use s2n_quic_dc::{
    credentials::{Credentials, Id},
    path::secret::receiver,
};
use std::sync::Arc;

pub fn scenarios() -> Vec<Scenario> {
    vec![Scenario::new("dc.receiver", "C19c", receiver_run), Scenario::new("dc.sender", "C19c", sender_run)]
}

fn outcome(params: String, mut ops: Vec<lin::Op>) -> Outcome {
    ops.sort_by_key(|o| o.inv);
    // trace hash over the stamp-ordered invoke/return events; non-trivial iff two operations of
    // different threads overlap in time
    let mut evs: Vec<(u64, u8, u8, u64)> = vec![];
    for o in &ops {
        evs.push((o.inv, o.thread, 0, o.arg));
        evs.push((o.ret, o.thread, 1, o.res));
    }
    evs.sort();
    let mut h = 0xcbf29ce484222325u64;
    for e in &evs {
        for b in [e.1 as u64, e.2 as u64, e.3] {
            h = (h ^ b).wrapping_mul(0x100000001b3);
            h ^= h >> 29;
        }
    }
    let overlap = ops.iter().any(|a| ops.iter().any(|b| a.thread != b.thread && a.inv < b.inv && b.inv < a.ret));
    Outcome { params, trace_hash: h, nontrivial: overlap, events: evs.len() as u32, trace: lin::render(&ops) }
}

fn receiver_run() -> Outcome {
    let sig = "dc.receiver";
    let threads = rt::range(2, 3) as usize;
    let base = [0u64, 5, 1000, 1 << 40][rt::below(4) as usize];
    let pool: Vec<u64> = vec![
        base,
        base + 1,
        base + 2,
        base + 3,
        base + 895,
        base + 896,
        base + 897,
        base + 2000,
        lin::KEY_ID_MAX,
    ];
    let plans: Vec<Vec<u64>> = (0..threads)
        .map(|_| {
            let n = rt::range(2, 4);
            (0..n)
                .map(|_| {
                    // mostly the four neighbouring ids (overlap between threads), sometimes a
                    // window-edge / far / reserved id
                    if rt::below(4) == 0 {
                        pool[rt::range(4, pool.len() as u64 - 1) as usize]
                    } else {
                        pool[rt::below(4) as usize]
                    }
                })
                .collect()
        })
        .collect();
    let clock = Arc::new(rt::Clock::new());
    let state = Arc::new(receiver::State::new());
    let id = Id::from([7u8; 16]);
    let mut hs = vec![];
    for (t, plan) in plans.iter().cloned().enumerate() {
        let (state, clock) = (state.clone(), clock.clone());
        hs.push(rt::spawn(move || {
            let mut ops = vec![];
            for key in plan {
                let creds = Credentials { id, key_id: VarInt::new(key).unwrap() };
                let inv = clock.stamp();
                let r = state.post_authentication(&creds);
                let ret = clock.stamp();
                let res = match r {
                    Ok(()) => 0,
                    Err(receiver::Error::AlreadyExists) => 1,
                    Err(receiver::Error::Unknown) => 2,
                };
                ops.push(lin::Op { thread: t as u8, inv, ret, name: "post".into(), arg: key, res });
            }
            ops
        }));
    }
    let mut ops: Vec<lin::Op> = vec![];
    for h in hs {
        ops.extend(join(h));
    }
    // at-most-once acceptance over the union of all threads
    let mut ok: Vec<u64> = ops.iter().filter(|o| o.res == 0).map(|o| o.arg).collect();
    ok.sort();
    for w in ok.windows(2) {
        if w[0] == w[1] {
            fail("c19.receiver.accepted_twice", sig, format!("key id {} accepted twice; history {}", w[0], lin::render(&ops)));
        }
    }
    println!("H|dc.receiver|{}", lin::render(&ops));
    outcome(format!("plans={plans:?}"), ops)
}

fn sender_run() -> Outcome {
    let sig = "dc.sender";
    let issuers = rt::range(1, 2) as usize;
    let calls: Vec<u64> = (0..issuers).map(|_| rt::range(2, 4)).collect();
    let stale: Vec<u64> = (0..rt::range(1, 3)).map(|_| [0u64, 1, 2, 3, 5, 100, 1 << 30][rt::below(7) as usize]).collect();
    let clock = Arc::new(rt::Clock::new());
    let state = Arc::new(crate::secret::sender::State::new([0u8; 16]));
    let mut hs = vec![];
    for (t, n) in calls.iter().cloned().enumerate() {
        let (state, clock) = (state.clone(), clock.clone());
        hs.push(rt::spawn(move || {
            let mut ops = vec![];
            for _ in 0..n {
                let inv = clock.stamp();
                let id = state.next_key_id();
                let ret = clock.stamp();
                ops.push(lin::Op { thread: t as u8, inv, ret, name: "next".into(), arg: 0, res: id.as_u64() });
            }
            ops
        }));
    }
    {
        let (state, clock, stale, t) = (state.clone(), clock.clone(), stale.clone(), issuers as u8);
        hs.push(rt::spawn(move || {
            let mut ops = vec![];
            for m in stale {
                let inv = clock.stamp();
                crate::secret::update_for_stale_key(&state, VarInt::new(m).unwrap());
                let ret = clock.stamp();
                ops.push(lin::Op { thread: t, inv, ret, name: "stale".into(), arg: m, res: 0 });
            }
            ops
        }));
    }
    let mut ops: Vec<lin::Op> = vec![];
    for h in hs {
        let t = join(h);
        // per thread: strictly increasing
        let ids: Vec<u64> = t.iter().filter(|o| o.name == "next").map(|o| o.res).collect();
        if ids.windows(2).any(|w| w[1] <= w[0]) {
            fail("c19.sender.not_increasing", sig, format!("one caller saw ids {ids:?}"));
        }
        ops.extend(t);
    }
    let mut ids: Vec<u64> = ops.iter().filter(|o| o.name == "next").map(|o| o.res).collect();
    ids.sort();
    for w in ids.windows(2) {
        if w[0] == w[1] {
            fail("c19.sender.issued_twice", sig, format!("key id {} issued twice; history {}", w[0], lin::render(&ops)));
        }
    }
    println!("H|dc.sender|{}", lin::render(&ops));
    outcome(format!("calls={calls:?} stale={stale:?}"), ops)
}
