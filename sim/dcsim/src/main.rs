//! dcsim - deterministic simulation of s2n-quic-dc (E3): checks C18 and C20.

mod clock;
mod gen;
mod guard;
mod harness;
mod link;
mod mapdrv;
mod oracle;
mod plan;
mod run;
mod trace;

#[global_allocator]
static ALLOC: guard::Guarded = guard::Guarded;

fn main() {
    let args: Vec<String> = std::env::args().skip(1).collect();
    std::process::exit(harness::main(&args));
}
